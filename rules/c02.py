"""C02 - schema-to-model structure fidelity (no silently lost fields).

Equality of field sets for all graphs/orders is not decided. Decided:

R2.1  parsed structure is never discarded: after `schema_ir = IRSchema(...)` every normal return of _parse_schema
      returns that object                                                                    [finding on the pinned tree]
R2.10 the type resolvers look schemas up by the exact IR name (no normalising function on the key)
R2.2  cycle decisions do not depend on name *content*: in unified_cycle_check schema names may only be compared for
      equality / membership, never by substring / prefix / suffix                            [findings on the pinned tree]
R2.3  no property is dropped on the way: _parse_properties assigns every key (two enumerated skips), the allOf merge
      takes properties and required from every member on every path, DataclassGenerator emits one field per property
R2.4  required-ness: `is_required = prop_name in schema.required` is the only input of the default decision
R2.6  registration: every normal exit of _parse_schema with a name passes the registration (enumerated exceptions)
R2.7  the cycle tracker's enter/exit calls are balanced on every path of _parse_schema (a leaked depth turns later,
      unrelated schemas into zero-field depth placeholders)                                   [typestate shared with C08]
R2.11 the resolver's by-name registry fallback is taken only when the schema's own type agrees with the registered schema's
R2.12 a schema that declares properties is never rendered as a TypeAlias (the alias decision is false for every such input)
R2.16 sibling inline property schemas get distinct invented names (the parent prefix is dropped only after looking at the sibling keys)   [= R19.10]
R2.17 a name made up for an inline schema is tested against the declared schema names before it is used as registry key
R2.18 the cycle tracker's exit removes the schema from the stack and completes it unconditionally (no false cycles -> no empty placeholders)  [= R8.5]
R2.19 a reference wrapped in `allOf` with annotations only is resolved like the bare reference (property positions)
R2.20 the type inferred for a node with `allOf` follows its members (an allOf over an enum / array is not an object)                    [finding]
R2.21 the made-up name of an inline property schema is tied to its document node (name -> node record on the context, identity compared)
R2.23 no named schema is filtered out between de-collision and the emission of the model files (every schema keeps its model)                [= R1.8, file filter]
R2.22 an allOf merge that met a base schema still on the parsing stack (a field-less placeholder) is completed once all schemas are parsed   [= R19.13]
R2.15 writer / reader agreement on registry keys: the key a raw name is registered under is recorded, and $ref resolution / build_schemas
      find a schema through that index (no second parse of a schema whose sanitised name differs from its declared name)
R2.14 the sanitised key a schema is registered under is tested against the declared names (it never shadows another declared schema)
R2.13 the oneOf / anyOf parsers drop a member only when it has no type, properties, items, enum or composition (cycle placeholders stay)
"""
from __future__ import annotations

import ast
from typing import List, Optional, Set

from sa.cfg import CFG, guards
from sa.model import AnalysisError, Function, Repo, calls_in, const_str, dotted, full, norm, own_nodes, parent
from sa.match import Locals, match, names_in
from sa.report import Report

SP = "core.parsing.schema_parser"
PLACEHOLDER_FLAGS = {"_from_unresolved_ref", "_max_depth_exceeded_marker"}


def _conj(t: ast.AST) -> List[ast.AST]:
    return list(t.values) if isinstance(t, ast.BoolOp) and isinstance(t.op, ast.And) else [t]


def property_loop(fn: Function, L: Locals) -> List[ast.For]:
    """`for <key>, <schema> in <... X.properties.items() ...>` (the iterable may go through sorted(...) / a temporary)."""
    return [n for n in own_nodes(fn.node) if isinstance(n, ast.For) and isinstance(n.target, ast.Tuple) and len(n.target.elts) == 2
            and any(isinstance(x, ast.Attribute) and x.attr == "properties" for x in ast.walk(L.inline(n.iter)))]


def run(repo: Repo, rep: Report, tier: str) -> None:
    from sa.report import guarded as _guarded

    ps = repo.func(f"{SP}:_parse_schema")
    cfg = CFG(ps.node)
    dom = cfg.dominators()
    PL = Locals(ps.node)
    # ---------------------------------------------------------------- R2.1
    ctor = [n for n in cfg.nodes if n.kind == "stmt" and isinstance(n.ast, (ast.Assign, ast.AnnAssign)) and not n.copy
            and isinstance(n.ast.value, ast.Call) and (dotted(n.ast.value.func) or "").split(".")[-1] == "IRSchema"
            and isinstance(n.ast.targets[0] if isinstance(n.ast, ast.Assign) else n.ast.target, ast.Name)
            and any(k.arg == "properties" for k in n.ast.value.keywords)]
    rep.require(len(ctor) == 1, f"R2.1: expected one `<ir> = IRSchema(..., properties=...)` in _parse_schema, found {len(ctor)}")
    ir_var = None
    if ctor:
        c0 = ctor[0]
        tgt = c0.ast.targets[0] if isinstance(c0.ast, ast.Assign) else c0.ast.target
        ir_var = tgt.id
        rets = [n for n in cfg.nodes if isinstance(n.ast, ast.Return) and not n.copy and c0.id in dom[n.id]]
        rep.count("R2.1:returns_after_construction", len(rets))
        rep.require(len(rets) >= 1, "R2.1: no return after the construction of the schema IR")
        for r in rets:
            v = norm(r.ast.value) if r.ast.value is not None else "None"
            is_ir = isinstance(r.ast.value, ast.Name) and PL.root(r.ast.value.id) == ir_var
            # what is returned instead, described without local names: the attribute chain / callee of its definition
            origin = "None"
            if r.ast.value is not None and not is_ir:
                d = PL.inline(r.ast.value, stop=tuple(PL.params) + (ir_var,))
                origin = ".".join(sorted({x.attr for x in ast.walk(d) if isinstance(x, ast.Attribute)} | {(dotted(x.func) or "?").split(".")[-1] for x in ast.walk(d) if isinstance(x, ast.Call)})) or type(d).__name__
            if not is_ir:
                gattrs = sorted({x.attr for g, pol in guards(cfg, r.id, dom) if g.kind == "test" and c0.id in dom[g.id] for x in ast.walk(g.ast)
                                 if isinstance(x, ast.Attribute) and x.attr.startswith("_")})
                origin += "|when=" + ",".join(gattrs)
            sub = f"{ps.module.relpath}:_parse_schema return of {'the constructed IR' if is_ir else origin} after construction"
            if is_ir:
                rep.ok("R2.1", sub, "returns the object that carries the parsed structure", ps.loc(r.ast))
            else:
                rep.violation("R2.1", sub, f"{ps.fq}|discards-parsed|{origin}",
                              f"after the schema has been fully parsed into `{ir_var}` this path returns `{v}` instead: a cycle placeholder stored under the "
                              "schema's own name shadows the finished definition and the model ends up without fields (order- and name-dependent)", ps.loc(r.ast))

    # ---------------------------------------------------------------- R2.7 tracker balance (precondition of field fidelity)
    # A leaked enter raises recursion_depth for the rest of the document: once it passes the limit every later schema is
    # replaced by a zero-field depth placeholder. The enter/exit typestate of C08 is therefore a necessary condition here.
    from rules import c08

    from sa.flatten import flatten as _fl27

    # bookkeeping helpers / context managers of the module that perform part of the enter/exit pair are written out inside the gate
    _tracker_helpers = {f.name for f in ps.module.functions.values() if f is not ps and any(c08._callee_attr(c) in (c08.ENTER, c08.EXIT) for c in calls_in(f.node))}
    c08.typestate(_fl27(ps, select=lambda h: h.name in _tracker_helpers), rep, rule="R2.7")

    # ---------------------------------------------------------------- R2.8 colliding property names keep distinct fields  [pattern of R20.2]
    from rules.c20 import _dedup_site

    class _R28:
        def ok(self, rule, *a, **k):
            rep.ok("R2.8", *a, **k)

        def violation(self, rule, *a, **k):
            rep.violation("R2.8", *a, **k)

    _dedup_site(repo.func("visit.model.dataclass_generator:DataclassGenerator.generate"), "dataclass fields", "seen field names", _R28())

    # ---------------------------------------------------------------- R2.9 the recursion context is threaded through every recursive parse
    threading_rule(repo, rep, "R2.9")

    _guarded(rep, rule_exact_registry_lookups, repo, rep, "R2.10")
    _guarded(rep, rule_name_fallback_respects_kind, repo, rep, "R2.11")
    _guarded(rep, rule_properties_never_alias, repo, rep, "R2.12")
    _guarded(rep, rule_union_members_kept, repo, rep, "R2.13")
    _guarded(rep, rule_key_does_not_shadow_declared_name, repo, rep, "R2.14")
    from rules._registry import rule_raw_name_index

    _guarded(rep, rule_raw_name_index, repo, rep, "R2.15")
    # R2.16: two inline property schemas of one object never share an invented name (each property is typed with its own enum / model)   [= R19.10]
    from rules.c19 import rule_sibling_names_are_distinct

    _guarded(rep, rule_sibling_names_are_distinct, repo, rep, "R2.16")
    _guarded(rep, rule_invented_names_avoid_declared, repo, rep, "R2.17")
    _guarded(rep, rule_all_of_merge_is_completed, repo, rep, "R2.22")
    # R2.23: "every named schema is represented by exactly one model": no schema is taken out between de-collision and the writing of the
    # model files (a bookkeeping flag such as `_from_unresolved_ref` is also set on real, fully parsed schemas at the head of a cycle)   [= R1.8, file filter]
    from rules.c01 import _models_emitter_rules
    from rules._reuse import _Filter as _F223

    _models_emitter_rules(repo, _F223(rep, {"R1.8": "R2.23"}, only=lambda subj: "file filter" in subj))
    _guarded(rep, rule_annotated_reference, repo, rep, "R2.19")
    _guarded(rep, rule_invented_names_are_per_node, repo, rep, "R2.21")
    _guarded(rep, rule_allof_type_follows_members, repo, rep, "R2.20")
    # R2.18: leaving a schema always takes it off the tracker's stack and completes it, wherever it sits: a schema left "in progress" makes a
    # later inline reference to it look like a cycle, and the finished schema is then replaced by the empty placeholder (the replacement
    # itself is the known finding R2.1)                                                                                       [= R8.5]
    from rules._reuse import reuse as _reuse218

    _reuse218(repo, rep, "c08", {"R8.5": "R2.18"}, only=lambda subj: "terminal state" in subj or "stack removal" in subj)
    # ---------------------------------------------------------------- R2.2 name content
    ucd = repo.module("core.parsing.unified_cycle_detection")
    ucc = ucd.func("unified_cycle_check")
    n_found = 0
    for fn in (ucc, ps):
        n_found += _name_content(fn, rep)
    rep.count("R2.2:name_content_tests", n_found)

    # ---------------------------------------------------------------- R2.3 (a) _parse_properties
    pp = repo.func(f"{SP}:_parse_properties")
    cfg2 = CFG(pp.node)
    QL = Locals(pp.node)
    loops_ast = [n for n in own_nodes(pp.node) if isinstance(n, ast.For) and isinstance(n.target, ast.Tuple) and len(n.target.elts) == 2
                 and match("VAR_p.items()", QL.inline(n.iter, stop=tuple(QL.params))) is not None
                 and QL.is_param(match("VAR_p.items()", QL.inline(n.iter, stop=tuple(QL.params)))["VAR_p"])]  # type: ignore[index]
    rep.require(len(loops_ast) == 1, f"R2.3: expected one loop over <properties parameter>.items() in _parse_properties, found {len(loops_ast)}")
    if loops_ast:
        lp = loops_ast[0]
        key = lp.target.elts[0].id if isinstance(lp.target.elts[0], ast.Name) else None  # type: ignore[attr-defined]
        h = [n for n in cfg2.nodes if n.kind == "iter" and n.stmt is lp][0]

        def is_key(e: ast.AST) -> bool:
            return isinstance(e, ast.Name) and QL.root(e.id) == key

        assign_nodes = [n for n in cfg2.nodes if n.kind == "stmt" and isinstance(n.ast, ast.Assign) and isinstance(n.ast.targets[0], ast.Subscript)
                        and isinstance(n.ast.targets[0].value, ast.Name) and is_key(n.ast.targets[0].slice)]
        dict_vars = {QL.root(n.ast.targets[0].value.id) for n in assign_nodes}
        rep.require(len(dict_vars) == 1, f"R2.3: expected one result dict assigned per key in _parse_properties, found {sorted(dict_vars)}")
        dvar = sorted(dict_vars)[0] if dict_vars else None
        assigns = {n.id for n in assign_nodes}
        conts = [n for n in cfg2.nodes if n.kind == "stmt" and isinstance(n.ast, ast.Continue) and not n.copy and any(a is lp for a in _ancestors(n.ast, pp.node))]
        for i, c in enumerate(conts):
            gs = [g.ast for g, p in guards(cfg2, c.id) if p is True and g.kind == "test"]
            why = None
            for g in gs:
                if any(isinstance(x, ast.Call) and dotted(x.func) == "isinstance" and len(x.args) == 2 and is_key(x.args[0]) and norm(x.args[1]) == "str" for x in ast.walk(g)):
                    why = "invalid (non-string / empty) key"
                for x in ast.walk(g):
                    if isinstance(x, ast.Compare) and len(x.ops) == 1 and isinstance(x.ops[0], ast.In) and is_key(x.left) and isinstance(x.comparators[0], ast.Name) \
                            and QL.root(x.comparators[0].id) == dvar:
                        why = why or "already merged from allOf"
            kind = "key-type" if why and why.startswith("invalid") else "already-present" if why else f"other#{i + 1}"
            sub = f"{pp.module.relpath}:_parse_properties skip ({kind})"
            if why:
                rep.ok("R2.3", sub, f"enumerated skip: {why}", pp.loc(c.ast))
            else:
                rep.violation("R2.3", sub, f"{pp.fq}|property-skipped|{kind}", f"a declared property is skipped under `{norm(gs[-1])[:60] if gs else '?'}`, which is not one of the two enumerated conditions", pp.loc(c.ast))
        blocked = assigns | {c.id for c in conts}
        w = None
        for m, lab in cfg2.succ[h.id]:
            if lab == "loop" and m not in blocked:
                w = w or cfg2.must_pass(m, blocked, {h.id, cfg2.exit})
        if assigns and w is None:
            rep.ok("R2.3", f"{pp.module.relpath}:_parse_properties every key assigned", f"every path through one iteration assigns {dvar}[{key}] (or takes an enumerated skip)", pp.loc())
        else:
            rep.violation("R2.3", f"{pp.module.relpath}:_parse_properties every key assigned", f"{pp.fq}|not-assigned",
                          f"an iteration can end without assigning the property ({cfg2.describe_path(w or [])})", pp.loc())

    # ---------------------------------------------------------------- R2.3 (b) allOf merge
    ao = repo.func("core.parsing.keywords.all_of_parser:_process_all_of")
    cfg3 = CFG(ao.node)
    AL = Locals(ao.node)

    def over_allof(it: ast.AST) -> bool:
        it = AL.inline(it, stop=tuple(AL.params))
        return any((isinstance(x, ast.Subscript) and const_str(x.slice) == "allOf") or (
            isinstance(x, ast.Call) and isinstance(x.func, ast.Attribute) and x.func.attr == "get" and x.args and const_str(x.args[0]) == "allOf") for x in ast.walk(it))

    loops = [n for n in cfg3.nodes if n.kind == "iter" and isinstance(n.stmt, ast.For) and over_allof(n.stmt.iter)]
    rep.require(len(loops) == 1, f"R2.3: expected one loop over the allOf members, found {len(loops)}")
    if loops:
        h = loops[0]
        body_ids = {id(x) for x in ast.walk(h.stmt)}
        # the member IR: the name whose .required / .properties are read inside the loop
        members = {x.value.id for x in ast.walk(h.stmt) if isinstance(x, ast.Attribute) and x.attr in ("required", "properties") and isinstance(x.value, ast.Name)}
        rep.require(len(members) == 1, f"R2.3: cannot identify the parsed allOf member variable ({sorted(members)})")
        mem = sorted(members)[0] if members else ""

        def reads(n: ast.AST, attr: str) -> bool:
            return any(isinstance(x, ast.Attribute) and x.attr == attr and isinstance(x.value, ast.Name) and x.value.id == mem for x in ast.walk(n))

        req_upd = {n.id for n in cfg3.nodes if n.kind == "stmt" and n.ast is not None and id(n.ast) in body_ids and not isinstance(n.ast, (ast.If, ast.For))
                   and reads(n.ast, "required") and (calls_in(n.ast) or isinstance(n.ast, (ast.Assign, ast.AugAssign)))}
        inner_loops = [x for x in ast.walk(h.stmt) if isinstance(x, ast.For) and x is not h.stmt and reads(x.iter, "properties")]
        inner_ids = {id(y) for x in inner_loops for y in ast.walk(x)}
        prop_merge = {n.id for n in cfg3.nodes if n.kind == "stmt" and n.ast is not None and id(n.ast) in body_ids and (
            (isinstance(n.ast, ast.Assign) and isinstance(n.ast.targets[0], ast.Subscript) and id(n.ast) in inner_ids)
            or (isinstance(n.ast, ast.Expr) and id(n.ast) in inner_ids and any(
                isinstance(c.func, ast.Attribute) and c.func.attr in ("setdefault", "update", "__setitem__") for c in calls_in(n.ast)))  # `merged.setdefault(k, v)` = first wins
            or (reads(n.ast, "properties") and any(isinstance(c.func, ast.Attribute) and c.func.attr in ("update", "setdefault") for c in calls_in(n.ast))))}
        prop_dicts = {n.ast.targets[0].value.id for n in cfg3.nodes if n.id in prop_merge and isinstance(n.ast, ast.Assign) and isinstance(n.ast.targets[0].value, ast.Name)}
        for label, nodes in (("required", req_upd), ("properties", prop_merge)):
            # allowed bypass: the false edge of `if <member>.<kw>:` (nothing to merge)
            tests = {n.id for n in cfg3.nodes if n.kind == "test" and isinstance(n.ast, ast.Attribute) and n.ast.attr == label and reads(n.ast, label)}
            saved = {t: list(cfg3.succ[t]) for t in tests}
            for t in tests:
                cfg3.succ[t] = [(m, lab) for m, lab in cfg3.succ[t] if lab != "false"]
            inner_iters = {n.id for n in cfg3.nodes if n.kind == "iter" and n.id != h.id and n.stmt in inner_loops}
            saved2 = {t: list(cfg3.succ[t]) for t in inner_iters}
            # "first definition wins": `if <key> not in <merged properties>` may skip the assignment
            skip_tests = {n.id for n in cfg3.nodes if n.kind == "test" and id(n.ast) in inner_ids and isinstance(n.ast, ast.Compare) and len(n.ast.ops) == 1
                          and isinstance(n.ast.ops[0], ast.NotIn) and isinstance(n.ast.comparators[0], ast.Name) and n.ast.comparators[0].id in prop_dicts}
            saved3 = {t: list(cfg3.succ[t]) for t in skip_tests}
            if label == "properties":
                for t in inner_iters:
                    cfg3.succ[t] = [(m, lab) for m, lab in cfg3.succ[t] if lab != "done"]
                for t in skip_tests:
                    cfg3.succ[t] = [(m, lab) for m, lab in cfg3.succ[t] if lab != "false"]
            w = None
            for m, lab in cfg3.succ[h.id]:
                if lab == "loop" and m not in nodes:
                    w = w or cfg3.must_pass(m, nodes, {h.id, cfg3.exit})
            for t, v in list(saved.items()) + list(saved2.items()) + list(saved3.items()):
                cfg3.succ[t] = v
            sub = f"{ao.module.relpath}:_process_all_of merges `{label}` of every member"
            if nodes and w is None:
                rep.ok("R2.3", sub, f"every path through one allOf member merges its {label} (only bypass: the member has none)", ao.loc())
            else:
                rep.violation("R2.3", sub, f"{ao.fq}|allof-{label}-skipped",
                              f"an allOf member can be passed over without merging its `{label}` ({cfg3.describe_path(w or [])}): e.g. a member that only "
                              "tightens `required` no longer makes the inherited fields required", ao.loc())

    # ---------------------------------------------------------------- R2.3 (c) / R2.4 DataclassGenerator
    dg = repo.func("visit.model.dataclass_generator:DataclassGenerator.generate")
    DL = Locals(dg.node)
    lp = property_loop(dg, DL)
    if len(lp) != 1:
        from sa.flatten import flatten as _fl24

        dg = _fl24(dg)  # the per-property work may have been split into helpers of the generator: written out
        DL = Locals(dg.node)
        lp = property_loop(dg, DL)
    rep.require(len(lp) == 1, "R2.4: property loop of DataclassGenerator.generate not found")
    for loop in lp:
        key = loop.target.elts[0].id if isinstance(loop.target.elts[0], ast.Name) else None  # type: ignore[attr-defined]
        def _own_loop(n_: ast.AST):
            x_ = parent(n_)
            while x_ is not None and not isinstance(x_, (ast.For, ast.AsyncFor, ast.While)):
                x_ = parent(x_)
            return x_

        # (a `break` that leaves a one-shot `while True:` - the shape of a written-out helper - does not leave the property loop)
        skips = [n for n in ast.walk(loop) if isinstance(n, (ast.Continue, ast.Break)) and _own_loop(n) is loop]
        sub = f"{dg.module.relpath}:DataclassGenerator.generate property loop"
        if not skips:
            rep.ok("R2.3", sub, "no continue/break: one field per declared property", dg.loc(loop))
        else:
            rep.violation("R2.3", sub, f"{dg.fq}|loop-skip|{len(skips)}", "the property loop can skip a property", dg.loc(skips[0]))
        # required-ness: the variable(s) bound to `<key> in <schema>.required`
        req = [n for n in ast.walk(loop) if isinstance(n, ast.Assign) and isinstance(n.targets[0], ast.Name) and isinstance(n.value, ast.Compare) and any(
            isinstance(x, ast.Attribute) and x.attr == "required" for x in ast.walk(DL.inline(n.value, stop=(key or "",))))]
        okr = len(req) == 1 and (m0 := match("VAR_k in ANY_s.required", DL.inline(req[0].value, stop=(key or "",)))) is not None and DL.root(m0["VAR_k"]) == key
        rvar = req[0].targets[0].id if req else None
        # the default expression = third component of the tuples appended to the list handed to render_dataclass(fields=...)
        dvars = set()
        for c in calls_in(loop):
            rec = c.args[0] if isinstance(c.func, ast.Attribute) and c.func.attr == "append" and c.args else None
            if isinstance(rec, ast.Name) and isinstance(DL.single(rec.id), ast.Tuple):
                rec = DL.single(rec.id)  # the record bound to a local first
            if isinstance(rec, ast.Tuple) and len(rec.elts) == 4 and isinstance(rec.elts[2], ast.Name):
                dvars.add(rec.elts[2].id)
        defaults = [n for n in ast.walk(loop) if isinstance(n, (ast.Assign, ast.AnnAssign)) and isinstance(n.targets[0] if isinstance(n, ast.Assign) else n.target, ast.Name)
                    and (n.targets[0] if isinstance(n, ast.Assign) else n.target).id in dvars and n.value is not None
                    and not (isinstance(n.value, ast.Constant) and n.value.value is None)]

        def under_not_required(d: ast.AST) -> bool:
            v = getattr(d, "value", None)
            if isinstance(v, ast.IfExp):
                # `None if <required> else <default>` / `<default> if not <required> else None`
                t = v.test
                if isinstance(t, ast.Name) and t.id == rvar and isinstance(v.body, ast.Constant) and v.body.value is None:
                    return True
                if isinstance(t, ast.UnaryOp) and isinstance(t.op, ast.Not) and isinstance(t.operand, ast.Name) and t.operand.id == rvar \
                        and isinstance(v.orelse, ast.Constant) and v.orelse.value is None:
                    return True
            child = d
            for a in _ancestors(d, loop):
                if isinstance(a, ast.If):
                    in_body = any(child is b or any(child is y for y in ast.walk(b)) for b in a.body)
                    t = a.test
                    if in_body and isinstance(t, ast.UnaryOp) and isinstance(t.op, ast.Not) and isinstance(t.operand, ast.Name) and t.operand.id == rvar:
                        return True
                    if not in_body and isinstance(t, ast.Name) and t.id == rvar:
                        return True
                child = a
            return False

        guarded = all(under_not_required(d) for d in defaults)
        sub = f"{dg.module.relpath}:DataclassGenerator.generate required-ness"
        if not dvars:
            raise AnalysisError("R2.4: cannot identify the default-expression component of the field tuples")
        if okr and defaults and guarded:
            rep.ok("R2.4", sub, f"`{rvar} = {key} in <schema>.required`; a default is computed only where that is false", dg.loc(req[0]))
        else:
            rep.violation("R2.4", sub, f"{dg.fq}|requiredness|from-required-only={bool(okr)}|guarded={guarded}",
                          f"required-ness is not taken solely from schema.required ({[norm(r.value) for r in req]}) / defaults are assigned to required fields", dg.loc(loop))
        it = DL.inline(loop.iter)
        filtered = any(isinstance(x, ast.comprehension) and x.ifs for x in ast.walk(it)) or any(isinstance(x, ast.Call) and dotted(x.func) == "filter" for x in ast.walk(it)) \
            or any(isinstance(x, ast.Subscript) and isinstance(x.slice, ast.Slice) for x in ast.walk(it))
        if not filtered:
            rep.ok("R2.3", f"{dg.module.relpath}:DataclassGenerator.generate property list", "all items of schema.properties (sorted, unfiltered)", dg.loc(loop))
        else:
            rep.violation("R2.3", f"{dg.module.relpath}:DataclassGenerator.generate property list", f"{dg.fq}|props-filtered", "the property list is filtered before fields are generated", dg.loc(loop))

    # ---------------------------------------------------------------- R2.6 registration on the way out
    from sa.report import with_flatten_fallback

    with_flatten_fallback(rep, ps, _rule_2_6)


def _rule_2_6(ps, rep) -> None:
    """R2.6 on `_parse_schema` as written or with its registration helper written out (sa/flatten.py)."""
    cfg = CFG(ps.node)
    dom = cfg.dominators()
    PL = Locals(ps.node)
    ctor = [n for n in cfg.nodes if n.kind == "stmt" and isinstance(n.ast, (ast.Assign, ast.AnnAssign)) and not n.copy
            and isinstance(n.ast.value, ast.Call) and (dotted(n.ast.value.func) or "").split(".")[-1] == "IRSchema"
            and isinstance(n.ast.targets[0] if isinstance(n.ast, ast.Assign) else n.ast.target, ast.Name)
            and any(k.arg == "properties" for k in n.ast.value.keywords)]
    ir_var = None
    if ctor:
        tgt = ctor[0].ast.targets[0] if isinstance(ctor[0].ast, ast.Assign) else ctor[0].ast.target
        ir_var = tgt.id

    def is_ir(e: Optional[ast.AST]) -> bool:
        return isinstance(e, ast.Name) and ir_var is not None and PL.root(e.id) == ir_var

    reg_nodes = [n for n in cfg.nodes if n.kind == "stmt" and isinstance(n.ast, ast.Assign) and isinstance(n.ast.targets[0], ast.Subscript) and not n.copy
                 and isinstance(n.ast.targets[0].value, ast.Attribute) and n.ast.targets[0].value.attr == "parsed_schemas" and is_ir(n.ast.value)]
    reg = {n.id for n in reg_nodes}
    final_ret = [n for n in cfg.nodes if isinstance(n.ast, ast.Return) and not n.copy and is_ir(n.ast.value)]
    rep.require(bool(reg) and bool(final_ret), "R2.6: registration statement / final return not found in _parse_schema")
    if reg and final_ret and ctor:
        # the condition under which registration happens: the positive guards of the registration statement inside the function's main flow
        gpol = [(g, p) for g, p in guards(cfg, reg_nodes[0].id, dom) if g.kind == "test" and p is not None and ctor[0].id in dom[g.id]
                and not isinstance(g.ast, ast.Constant)]
        if not getattr(ps, "flattened", False):
            gpol = [(g, p) for g, p in gpol if g.ast.lineno > ctor[0].ast.lineno]
        gpol = [(g, p) for g, p in gpol if not any(isinstance(x, ast.Compare) and isinstance(x.ops[0], (ast.In, ast.IsNot, ast.Is)) for x in ast.walk(g.ast))]
        tests = {g.id for g, _ in gpol}
        saved = {t: list(cfg.succ[t]) for t in tests}
        for g, pol in gpol:
            # keep only the branch on which registration is decided *for*: the path that skips registration through this test is the allowed one
            cfg.succ[g.id] = [(m, lab) for m, lab in cfg.succ[g.id] if lab != ("false" if pol else "true")]
        w = cfg.must_pass(ctor[0].id, reg, {final_ret[-1].id})
        for t, v in saved.items():
            cfg.succ[t] = v
        conj: List[ast.AST] = []
        for g, pol in gpol:
            if pol:
                cs = _conj(g.ast)
            else:
                # `if a or b: <skip>` - registration runs where every disjunct is false
                ds = g.ast.values if isinstance(g.ast, ast.BoolOp) and isinstance(g.ast.op, ast.Or) else [g.ast]
                cs = [d.operand if isinstance(d, ast.UnaryOp) and isinstance(d.op, ast.Not) else ast.UnaryOp(op=ast.Not(), operand=d) for d in ds]
            for c in cs:
                ci = PL.inline(c, depth=1, stop=tuple(PL.params) + (ir_var or "",))
                conj += _conj(ci)
        extra = []
        for c in conj:
            if isinstance(c, ast.Name) and PL.is_param(c.id):
                continue  # the schema has a name
            if isinstance(c, ast.UnaryOp) and isinstance(c.op, ast.Not):
                o = c.operand
                if isinstance(o, ast.Attribute) and is_ir(o.value) and o.attr in PLACEHOLDER_FLAGS:
                    continue  # placeholders are not definitions
                oi = PL.inline(o, stop=tuple(PL.params) + (ir_var or "",))
                # an exception that can only hold for schemas that are NOT declared in components/schemas (inline primitives)
                if any(isinstance(x, ast.UnaryOp) and isinstance(x.op, ast.Not) and any(isinstance(y, ast.Attribute) and y.attr == "raw_spec_schemas" for y in ast.walk(x.operand))
                       for x in _conj(oi)):
                    continue
            extra.append(norm(c))
        # the placeholder flags that veto registration are not raised on the finished IR before the decision is taken
        flag_sets = [n for n in cfg.nodes if n.kind == "stmt" and isinstance(n.ast, ast.Assign) and not n.copy and isinstance(n.ast.targets[0], ast.Attribute)
                     and is_ir(n.ast.targets[0].value) and n.ast.targets[0].attr in PLACEHOLDER_FLAGS and isinstance(n.ast.value, ast.Constant) and n.ast.value.value is True]
        early = [n for n in flag_sets if any(t in cfg.reachable(n.id) for t in tests)]
        subf = f"{ps.module.relpath}:_parse_schema placeholder flags vs registration"
        if early:
            rep.violation("R2.6", subf, f"{ps.fq}|flag-before-registration|{early[0].ast.targets[0].attr}",
                          f"`{norm(early[0].ast)}` runs before the registration decision, which skips schemas carrying that flag: a schema that closes a "
                          "cycle is finished but never registered under its own name (build_schemas then fails / the model is missing)", ps.loc(early[0].ast))
        else:
            rep.ok("R2.6", subf, f"{len(flag_sets)} assignment(s) of a registration-vetoing flag on the finished IR, all after the registration decision", ps.loc())
        sub = f"{ps.module.relpath}:_parse_schema registration"
        if w is None and not extra and conj:
            rep.ok("R2.6", sub, "every path from construction to the final return registers the schema unless it is unnamed, a placeholder, or an inline primitive "
                   "that is not declared in components/schemas", ps.loc())
        else:
            rep.violation("R2.6", sub, f"{ps.fq}|registration|extra={len(extra)}|bypass={w is not None}",
                          f"a named, declared schema can be returned unregistered (additional condition(s) {extra}; bypass path {cfg.describe_path(w or [])})", ps.loc())


def threading_rule(repo: Repo, rep, rule: str) -> None:
    """Internal consistency of the recursive descent: inside a function that hands its own recursion context (the parameters in the
    positions of `max_depth_override` / `allow_self_reference`) to one recursive `_parse_schema(...)` call, every such call passes it.
    A call that silently falls back to the default (`allow_self_reference=False`) parses one sub-tree under different cycle rules: a
    schema first reached through that sub-tree gets a placeholder instead of its fields (declaration-order dependent)."""
    ps = repo.func(f"{SP}:_parse_schema")
    pparams = ps.params
    n_calls = 0
    live = set(repo.import_closure(["generator.client_generator"]))
    for mn, mod in repo.modules.items():
        if not mn.startswith("pyopenapi_gen.core.parsing") or mn not in live:
            continue
        for fn in mod.functions.values():
            if "<locals>" in fn.qualname:
                continue
            calls = [c for c in calls_in(fn.node, include_nested_defs=True) if (dotted(c.func) or "").split(".")[-1] == "_parse_schema"]
            if len(calls) < 1:
                continue
            for idx in range(3, len(pparams)):
                pname = pparams[idx]

                def passed(c: ast.Call) -> Optional[ast.AST]:
                    if len(c.args) > idx:
                        return c.args[idx]
                    for k in c.keywords:
                        if k.arg == pname:
                            return k.value
                    return None

                passing = [c for c in calls if passed(c) is not None]
                own = fn is ps or any(isinstance(passed(c), ast.Name) and passed(c).id in fn.params for c in passing)  # type: ignore[union-attr]
                if not own:
                    continue
                for c in calls:
                    n_calls += 1
                    sub = f"{mod.relpath}:{fn.qualname} recursive _parse_schema call #{calls.index(c) + 1} passes `{pname}`"
                    if passed(c) is not None:
                        rep.ok(rule, sub, f"`{pname}` handed on as `{norm(passed(c))}`", fn.loc(c))
                    else:
                        rep.violation(rule, sub, f"{fn.fq}|context-not-threaded|{pname}|call{calls.index(c) + 1}",
                                      f"this recursive call omits `{pname}` although the other recursive calls of {fn.name} hand it on: the sub-tree is parsed "
                                      "with the default instead of the caller's setting, so whether a self-referencing schema keeps its fields depends on "
                                      "where it is first reached from (declaration order)", fn.loc(c))
    rep.count(f"{rule}:recursive_call_obligations", n_calls)
    rep.require(n_calls >= 8, f"{rule}: only {n_calls} (call, context parameter) obligations found (floor 8)")


def _name_content(fn: Function, rep: Report) -> int:
    """R2.2: substring / prefix / suffix tests on schema names (str parameters, members of schema_stack / cycle_path, strings joined from them)."""
    L = Locals(fn.node)
    str_params = set()
    a = fn.node.args  # type: ignore[attr-defined]
    for arg in a.posonlyargs + a.args + a.kwonlyargs:
        if arg.annotation is not None and "str" in norm(arg.annotation) and "Mapping" not in norm(arg.annotation) and "dict" not in norm(arg.annotation).lower():
            str_params.add(arg.arg)

    def name_derived(e: ast.AST, depth: int = 0) -> bool:
        ei = L.inline(e, stop=tuple(L.params))
        for x in ast.walk(ei):
            if isinstance(x, ast.Name) and x.id in str_params:
                return True
            if isinstance(x, ast.Attribute) and x.attr in ("schema_stack", "cycle_path"):
                return True
            if isinstance(x, ast.Name) and depth < 3:
                for kind, v, st in L.defs.get(x.id, []):
                    if kind.startswith("for") and v is not None and name_derived(v, depth + 1):
                        return True
        return False

    n = 0
    for node in own_nodes(fn.node, nested=True) if "nested" in own_nodes.__code__.co_varnames else own_nodes(fn.node):
        kind = lit = None
        if isinstance(node, ast.Compare) and len(node.ops) == 1 and isinstance(node.ops[0], (ast.In, ast.NotIn)) and const_str(node.left) is not None \
                and name_derived(node.comparators[0]):
            kind, lit = "in", const_str(node.left)
        elif isinstance(node, ast.Call) and isinstance(node.func, ast.Attribute) and node.func.attr in ("startswith", "endswith", "find", "index", "rfind") \
                and name_derived(node.func.value) and node.args:
            kind, lit = node.func.attr, const_str(node.args[0]) if const_str(node.args[0]) is not None else "<name>"
        if kind is None:
            continue
        n += 1
        st = _enclosing_assign(node)
        var = norm(st.targets[0]) if st is not None else "a branch"
        # the conjuncts this test is combined with are part of the finding's identity: a heuristic whose exemptions are changed is a
        # different heuristic (and is reported again), while re-ordering the conjuncts is not
        ctx = _conjunct_context(node)
        rep.violation("R2.2", f"{fn.module.relpath}:{fn.name} name-content test {kind} {lit!r}" + (f" with {ctx}" if ctx else ""), f"{fn.fq}|name-content|{kind}|{lit}|with={ctx}",
                      f"a cycle-handling decision (`{var}`) depends on the *text* of schema names (`{norm(node)[:60]}`): whether a placeholder is stored over a "
                      "schema's own entry / a schema is marked circular changes when schemas are renamed (e.g. a schema whose name is a prefix of another, or "
                      f"contains {lit!r})", fn.loc(node))
    if n == 0:
        rep.ok("R2.2", f"{fn.module.relpath}:{fn.name}", "schema names are only compared for equality / membership", fn.loc())
    return n


def _conjunct_context(node: ast.AST) -> str:
    """kinds of the other conjuncts of the innermost `and` the test belongs to (sorted, structural: no local names)"""
    cur: Optional[ast.AST] = node
    me = node
    while cur is not None and not isinstance(cur, ast.stmt):
        p = parent(cur)
        if isinstance(p, ast.UnaryOp) and isinstance(p.op, ast.Not):
            me = p
        if isinstance(p, ast.BoolOp) and isinstance(p.op, ast.And):
            top = cur
            while parent(top) is not p:
                top = parent(top)  # type: ignore[assignment]
            out = []
            for v in p.values:
                if v is top or any(x is node for x in ast.walk(v)):
                    continue
                neg = ""
                while isinstance(v, ast.UnaryOp) and isinstance(v.op, ast.Not):
                    v, neg = v.operand, ("" if neg else "not ")
                if isinstance(v, ast.Call) and isinstance(v.func, ast.Attribute) and v.func.attr in ("startswith", "endswith", "find", "index", "rfind"):
                    out.append(f"{neg}{v.func.attr}:{const_str(v.args[0]) if v.args and const_str(v.args[0]) is not None else '<name>'}")
                elif isinstance(v, ast.Compare) and len(v.ops) == 1:
                    opn = type(v.ops[0]).__name__.lower()
                    lit = const_str(v.left) if const_str(v.left) is not None else const_str(v.comparators[0])
                    out.append(f"{neg}{opn}" + (f":{lit}" if lit is not None else ""))
                else:
                    out.append(f"{neg}other")
            return ",".join(sorted(out))
        cur = p
    return ""


def _enclosing_assign(n: ast.AST) -> Optional[ast.Assign]:
    p = parent(n)
    while p is not None and not isinstance(p, ast.stmt):
        p = parent(p)
    return p if isinstance(p, ast.Assign) else None


def _ancestors(n: ast.AST, stop: ast.AST):
    p = parent(n)
    while p is not None and p is not stop:
        yield p
        p = parent(p)


# ------------------------------------------------------------------------------------------------ R2.10 registry lookups use exact names
def rule_exact_registry_lookups(repo: Repo, rep: Report, rule: str = "R2.10") -> None:
    """The type resolvers find a schema by looking a *name* up in the schema registry (`<…>.schemas`).  The key must be a name exactly as
    the IR carries it: a key that went through a normalising function (PascalCasing, lower-casing, stripping) makes distinct names
    collide - a primitive property `address` is then typed as the model `Address`."""
    n = 0
    for m in repo.modules.values():
        ref_side_only = False
        if ".types.resolvers." not in "." + m.name + "." and ".core.loader.schemas." not in "." + m.name + ".":
            # the parser's `$ref` resolution is a lookup by name too (its registration side keys by the sanitised class name by design)
            if not m.name.endswith("core.parsing.schema_parser"):
                continue
            ref_side_only = True
        REG = ("schemas", "parsed_schemas")
        for q, fn in m.functions.items():
            if ref_side_only and "resolve_ref" not in q:
                continue
            # a post-condition checker (only loops, tests, local bindings, `continue` and `raise`; returns nothing) resolves nothing
            kinds_ = {type(x) for x in ast.walk(fn.node) if isinstance(x, ast.stmt) and x is not fn.node}
            if ast.Raise in kinds_ and kinds_ <= {ast.For, ast.If, ast.Assign, ast.AnnAssign, ast.Continue, ast.Pass, ast.Raise, ast.Expr} and not any(
                    isinstance(x, ast.Return) and x.value is not None for x in ast.walk(fn.node)) and not any(
                    isinstance(x, (ast.Assign, ast.AnnAssign)) and not all(isinstance(t, ast.Name) for t in (x.targets if isinstance(x, ast.Assign) else [x.target]))
                    for x in ast.walk(fn.node)):
                continue
            L = Locals(fn.node)
            for node in own_nodes(fn.node):
                key = None
                if isinstance(node, ast.Compare) and len(node.ops) == 1 and isinstance(node.ops[0], (ast.In, ast.NotIn)) and isinstance(node.comparators[0], ast.Attribute) \
                        and node.comparators[0].attr in REG:
                    key = node.left
                elif isinstance(node, ast.Subscript) and isinstance(node.value, ast.Attribute) and node.value.attr in REG:
                    key = node.slice
                elif isinstance(node, ast.Call) and isinstance(node.func, ast.Attribute) and node.func.attr == "get" and isinstance(node.func.value, ast.Attribute) \
                        and node.func.value.attr in REG and node.args:
                    key = node.args[0]
                if key is None:
                    continue
                # a lookup that only feeds `if <not found>: raise` is an assertion, not a resolution
                pn = parent(node)
                while isinstance(pn, (ast.BoolOp, ast.UnaryOp)):
                    pn = parent(pn)
                if isinstance(pn, ast.If) and any(x is node for x in ast.walk(pn.test)) and len(pn.body) == 1 and isinstance(pn.body[0], ast.Raise) and not pn.orelse:
                    continue
                n += 1
                ki = L.inline(key, stop=tuple(L.params))
                if isinstance(ki, ast.Name) and len(L.defs.get(ki.id, [])) > 1:
                    # re-bound per loop (`sanitized_n = sanitize(n)` in two loops): every binding counts
                    alts = [v for k_, v, _ in L.defs[ki.id] if v is not None]
                    if alts:
                        ki = ast.Tuple(elts=[L.inline(v, stop=tuple(L.params)) for v in alts], ctx=ast.Load())
                # taking the name out of a `$ref` string (split / partition / removeprefix) keeps it exact; everything else may normalise
                # (`getattr`, `.get`, the loop's own iterator are not transformations of the name either)
                import re as _re

                NORMALISING = _re.compile(r"sanitiz|normali|lower|upper|capitali|casefold|title|swapcase|strip|replace|translate|(^|\.)sub$")
                calls = [c for c in ast.walk(ki) if isinstance(c, ast.Call) and NORMALISING.search(dotted(c.func) or (c.func.attr if isinstance(c.func, ast.Attribute) else ""))]
                # conditional expressions `f(x) if x else None` count as well (ast.walk covers them)
                sub = f"{m.relpath}:{q} registry lookup `{norm(node)[:50]}`"
                if calls:
                    rep.violation(rule, sub, f"{m.name}:{q}|registry-key-transformed|{dotted(calls[0].func) or 'call'}",
                                  f"the registry is searched with `{norm(ki)[:60]}`: `{dotted(calls[0].func) or norm(calls[0].func)}` maps different names to one key, so a "
                                  "property whose key merely *normalises* to another schema's name (`address` / `Address`) is typed as that model", fn.loc(node))
                else:
                    rep.ok(rule, sub, "looked up by the name as the IR carries it", fn.loc(node))
    rep.count(f"{rule}:registry_lookups", n)
    rep.require(n >= 4, f"{rule}: only {n} schema-registry lookups found in types/resolvers (floor 4)")


# ------------------------------------------------------------------------------------------------ R2.11 by-name fallback respects the schema's own kind
def rule_name_fallback_respects_kind(repo: Repo, rep: Report, rule: str = "R2.11") -> None:
    """For an inline property the parser stores the property *key* as `IRSchema.name`.  The resolver's "look the name up in the registry"
    fallback therefore may only replace a schema by the registered one when their kinds agree: the recursive resolve of the looked-up
    schema lies under a condition that compares the schema's own `type` with the target's."""
    from sa.cfg import CFG, guards

    sr = repo.module("types.resolvers.schema_resolver")
    fn = sr.classes["OpenAPISchemaResolver"].methods.get("resolve_schema") if "OpenAPISchemaResolver" in sr.classes else None
    if fn is None:
        raise AnalysisError("anchor vanished: OpenAPISchemaResolver.resolve_schema")
    L = Locals(fn.node)
    p_schema = fn.params[1] if len(fn.params) > 1 else "schema"
    cfg = CFG(fn.node)
    dom = cfg.dominators()
    n = 0
    class_consts = {}
    for st0 in sr.classes["OpenAPISchemaResolver"].node.body + list(sr.tree.body):
        if isinstance(st0, (ast.Assign, ast.AnnAssign)) and st0.value is not None:
            tg0 = st0.targets[0] if isinstance(st0, ast.Assign) else st0.target
            if isinstance(tg0, ast.Name):
                try:
                    val0 = ast.literal_eval(st0.value)
                except Exception:
                    continue
                class_consts[f"self.{tg0.id}"] = val0
                class_consts[f"cls.{tg0.id}"] = val0
                class_consts[f"OpenAPISchemaResolver.{tg0.id}"] = val0
                class_consts.setdefault(tg0.id, val0)
    for nd in cfg.nodes:
        if nd.kind != "stmt" or nd.ast is None or nd.copy:
            continue
        for c in calls_in(nd.ast):
            if not (isinstance(c.func, ast.Attribute) and c.func.attr == fn.name and c.args and isinstance(c.args[0], ast.Name)):
                continue
            tgt = c.args[0].id
            tdefs = [v for k, v, _ in L.defs.get(tgt, []) if v is not None]
            # the target was fetched from the registry under the schema's *name*
            by_name = any(isinstance(v, ast.Subscript) and isinstance(v.value, ast.Attribute) and v.value.attr == "schemas"
                          and norm(L.inline(v.slice, stop=tuple(L.params))) == f"{p_schema}.name" for v in tdefs)
            if not by_name:
                continue
            # only the lookup that is guarded by `<schema>.name in <registry>` (the by-name fallback)
            gs = [(g, pol) for g, pol in guards(cfg, nd.id, dom) if g.kind == "test" and pol is not None]
            if not any(f"{p_schema}.name in" in norm(L.inline(g.ast, stop=tuple(L.params))) for g, _ in gs):
                continue
            n += 1
            sub = f"{sr.relpath}:resolve_schema by-name fallback `{norm(c)[:50]}`"
            kinds = False
            for g, pol in gs:
                txt = norm(L.inline(g.ast, stop=tuple(L.params)))
                if "type" in txt and tgt in txt and (p_schema in txt):
                    kinds = True
            if not kinds:
                # the same decision written as "put the schema back when the kinds differ": `if <kinds differ>: target = schema`
                for nd2 in cfg.nodes:
                    if nd2.kind == "stmt" and isinstance(nd2.ast, ast.Assign) and any(isinstance(t, ast.Name) and t.id == tgt for t in nd2.ast.targets) \
                            and isinstance(nd2.ast.value, ast.Name) and nd2.ast.value.id == p_schema:
                        for g, pol in guards(cfg, nd2.id, dom):
                            if g.kind == "test" and pol is not None and "type" in norm(L.inline(g.ast, stop=tuple(L.params))):
                                kinds = True
            # the decision itself, evaluated: for a primitive schema the fallback is not taken whenever the two types differ
            leak = None
            if kinds:
                from sa.feval import Unknown, evaluate

                DOM = ["string", "integer", "number", "boolean", "object", "array", None]
                stop = tuple(L.params) + (tgt,)
                A, B = object(), object()
                try:
                    for st_ in DOM[:4]:
                        for tt_ in DOM:
                            if st_ == tt_:
                                continue
                            env = {**class_consts, f"{p_schema}.type": st_, f"{tgt}.type": tt_, p_schema: A, tgt: B, f"{p_schema}.name": "N"}
                            for nm_, ds_ in L.defs.items():  # locals that hold one of the two types (`schema_type = getattr(schema, "type", None)`)
                                for _, v_, _ in ds_:
                                    if v_ is not None and norm(v_).replace('"', "'") in (f"getattr({p_schema}, 'type', None)", f"{p_schema}.type"):
                                        env.setdefault(nm_, st_)
                                    if v_ is not None and norm(v_).replace('"', "'") in (f"getattr({tgt}, 'type', None)", f"{tgt}.type"):
                                        env.setdefault(nm_, tt_)
                            taken = True
                            n_eval = 0
                            for g, pol in gs:
                                gi = L.inline(g.ast, depth=6, stop=stop)
                                txt = norm(gi)
                                if not ("type" in txt and tgt in txt):
                                    continue  # guards that do not compare the two kinds (registry membership, earlier dispatch) are assumed to hold
                                val = bool(evaluate(gi, env))
                                n_eval += 1
                                if val != pol:
                                    taken = False
                                    break
                            if taken and n_eval:  # (no guard compares the kinds here: the decision is made elsewhere, e.g. by putting the schema back)
                                leak = (st_, tt_)
                                raise StopIteration
                except StopIteration:
                    pass
                except Unknown:
                    leak = None
            # ... and the other direction: a cycle placeholder is bound to its target by this very lookup and always carries `type="object"`, whatever the
            # target is (a named array, a oneOf union without type, ...): for an `object` schema the fallback must be taken for every target kind
            lost = None
            if kinds and leak is None:
                from sa.feval import Unknown as _U2, evaluate as _ev2

                ph = None
                try:
                    ph = repo.func("core.parsing.unified_cycle_detection:create_cycle_placeholder")
                except AnalysisError:
                    ph = None
                ph_object = ph is not None and any(isinstance(c2, ast.Call) and (dotted(c2.func) or "").endswith("IRSchema") and any(
                    k.arg == "type" and const_str(k.value) == "object" for k in c2.keywords) for c2 in ast.walk(ph.node))
                if ph_object:
                    stop2 = tuple(L.params) + (tgt,)
                    A2, B2 = object(), object()
                    try:
                        for tt_ in ["array", None, "string", "integer"]:
                            env = {**class_consts, f"{p_schema}.type": "object", f"{tgt}.type": tt_, p_schema: A2, tgt: B2, f"{p_schema}.name": "N"}
                            for nm_, ds_ in L.defs.items():
                                for _, v_, _ in ds_:
                                    if v_ is not None and norm(v_).replace('"', "'") in (f"getattr({p_schema}, 'type', None)", f"{p_schema}.type"):
                                        env.setdefault(nm_, "object")
                                    if v_ is not None and norm(v_).replace('"', "'") in (f"getattr({tgt}, 'type', None)", f"{tgt}.type"):
                                        env.setdefault(nm_, tt_)
                            for g, pol in gs:
                                gi = L.inline(g.ast, depth=6, stop=stop2)
                                txt = norm(gi)
                                if not ("type" in txt and tgt in txt):
                                    continue
                                if bool(_ev2(gi, env)) != pol:
                                    lost = tt_
                                    break
                            if lost is not None:
                                break
                    except _U2:
                        lost = None
            if kinds and leak is None and lost is not None:
                rep.violation(rule, sub, f"{fn.fq}|placeholder-target-kind|{lost}",
                              f"a cycle placeholder always has `type='object'` and is bound to the schema it stands for by this lookup alone; when that schema is of kind `{lost}` (a named "
                              "array, a oneOf / anyOf union) the lookup is refused as 'another kind' and the field falls back to `dict[str, Any]`: its structural kind is lost, depending on "
                              "which schema of the cycle is reached first", fn.loc(c))
            elif kinds and leak is not None:
                rep.violation(rule, sub, f"{fn.fq}|name-fallback-merges-kinds|{leak[0]}|{leak[1]}",
                              f"an inline `{leak[0]}` schema whose name (the property key) equals a registered `{leak[1]}` schema is replaced by that schema: the two kinds are "
                              f"treated as one, the field is typed with the registered model and a conforming `{leak[0]}` value is converted (1.5 -> 1) or rejected", fn.loc(c))
            elif kinds:
                rep.ok(rule, sub, "taken only when the schema's own type and the registered schema's type agree", fn.loc(c))
            else:
                rep.violation(rule, sub, f"{fn.fq}|name-fallback-ignores-kind",
                              f"a schema is replaced by `registry[{p_schema}.name]` whatever its own type is: the parser stores the property key as name, so a string property "
                              "called `Address` next to a schema `Address` is typed as that model and a conforming document cannot be decoded", fn.loc(c))
    rep.require(n >= 1, f"{rule}: the by-name registry fallback of resolve_schema was not found (anchor)")


# ------------------------------------------------------------------------------------------------ R2.12 a schema with properties is never an alias
def rule_properties_never_alias(repo: Repo, rep, rule: str = "R2.12") -> None:
    """ModelVisitor renders a named schema as TypeAlias, Enum or dataclass.  Only the dataclass has fields: whenever the schema declares
    `properties`, the alias decision must be false, whatever its `type` / `oneOf` / `anyOf` / `enum` are.  The defining expression of the
    flag that guards the alias generator is evaluated over all combinations of those inputs (sa/feval.py)."""
    from sa.feval import Unknown, environments, evaluate

    mv = repo.func("visit.model.model_visitor:ModelVisitor.visit_IRSchema")
    L = Locals(mv.node)
    tests = [n for n in own_nodes(mv.node) if isinstance(n, ast.If) and any(
        isinstance(c.func, ast.Attribute) and c.func.attr == "generate" and "alias" in norm(c.func.value).lower() for st in n.body for c in calls_in(st))]
    if len(tests) != 1:
        raise AnalysisError(f"{rule}: expected one `if <alias decision>: ... alias_generator.generate(...)` in visit_IRSchema, found {len(tests)}")
    schema_param = next((p for p in mv.params if p != "self"), "schema")

    def expand(e: ast.AST, depth: int = 0) -> ast.AST:
        """locals written out; of several definitions the ones that are the constant False are dropped (they only withdraw the decision)"""
        import copy

        class T(ast.NodeTransformer):
            def visit_Name(self, node):  # noqa: N802
                if not isinstance(node.ctx, ast.Load) or node.id in mv.params or depth > 6:
                    return node
                ds = [v for kind, v, _ in L.defs.get(node.id, []) if kind != "param" and not (isinstance(v, ast.Constant) and v.value is False)]
                if len(ds) == 1 and isinstance(ds[0], ast.AST):
                    return expand(copy.deepcopy(ds[0]), depth + 1)
                return node

        return T().visit(copy.deepcopy(e))

    decision = expand(tests[0].test)
    s = schema_param
    domains = {
        f"{s}.name": ["Pet"], f"{s}.properties": [{}, {"id": 1}], f"{s}.enum": [None, ["a"]], f"{s}.type": ["object", "string", "integer", "array", None],
        f"{s}.one_of": [None, [1]], f"{s}.any_of": [None, [1]], f"{s}.all_of": [None, [1]], f"{s}.items": [None], "self.discriminator_skip_list": [[]],
    }
    bad = None
    n = 0
    try:
        for env in environments(domains):
            n += 1
            if env[f"{s}.properties"] and evaluate(decision, env):
                bad = env
                break
    except Unknown as e:
        raise AnalysisError(f"{rule}: the alias decision of visit_IRSchema uses a construct the finite evaluator does not model: {e}")
    sub = f"{mv.module.relpath}:ModelVisitor.visit_IRSchema alias decision"
    if bad is None:
        rep.ok(rule, sub, f"false for every schema that declares properties ({n} combinations of type / enum / oneOf / anyOf / allOf evaluated)", mv.loc(tests[0]))
    else:
        shown = {k.split(".")[-1]: v for k, v in bad.items() if k.startswith(s + ".") and v not in (None, {}, []) and not k.endswith(".name")}
        rep.violation(rule, sub, f"{mv.fq}|alias-with-properties",
                      f"a schema with declared properties is rendered as a type alias when {shown}: the generated model has no fields at all "
                      "(its properties, wire keys and required-ness are silently lost)", mv.loc(tests[0]))


# ------------------------------------------------------------------------------------------------ R2.13 union members are dropped only when empty
def rule_union_members_kept(repo: Repo, rep, rule: str = "R2.13") -> None:
    """The oneOf / anyOf keyword parsers drop members that parsed to *nothing* (no type, no properties, no items, no enum, no
    composition).  A member that carries structure - in particular the placeholder that stands for a `$ref` closing a cycle (type
    "object", named) - must stay: it is the only thing that represents that variant in the IR.  The filter condition of each parser is
    evaluated over all combinations of the member attributes it reads (sa/feval.py): every member with structure is kept."""
    from sa.feval import Unknown, environments, evaluate

    STRUCT = {"type": [None, "object", "string"], "properties": [{}, {"p": 1}], "items": [None, 1], "enum": [None, ["a"]], "any_of": [None, [1]], "one_of": [None, [1]],
              "all_of": [None, [1]]}
    n = 0
    for mname in ("core.parsing.keywords.one_of_parser", "core.parsing.keywords.any_of_parser"):
        mod = repo.module(mname)
        for fn in mod.functions.values():
            for comp in [x for x in own_nodes(fn.node) if isinstance(x, ast.ListComp) and len(x.generators) == 1 and x.generators[0].ifs
                         and isinstance(x.generators[0].target, ast.Name) and isinstance(x.elt, ast.Name) and x.elt.id == x.generators[0].target.id]:
                var = comp.generators[0].target.id
                attrs = sorted({a.attr for c in comp.generators[0].ifs for a in ast.walk(c) if isinstance(a, ast.Attribute) and isinstance(a.value, ast.Name) and a.value.id == var})
                if not (set(attrs) & set(STRUCT)):
                    continue  # not the member filter
                n += 1
                dom = {f"{var}.{a}": STRUCT.get(a, [False, True]) for a in attrs}
                for a in STRUCT:
                    dom.setdefault(f"{var}.{a}", STRUCT[a])  # also the structural attributes the filter does not read
                cond = ast.BoolOp(op=ast.And(), values=list(comp.generators[0].ifs)) if len(comp.generators[0].ifs) > 1 else comp.generators[0].ifs[0]
                bad = None
                try:
                    for env in environments(dom):
                        has_structure = any(env[f"{var}.{a}"] for a in STRUCT)
                        if has_structure and not evaluate(cond, env):
                            bad = env
                            break
                except Unknown as e:
                    raise AnalysisError(f"{rule}: the member filter of {fn.qualname} uses a construct the finite evaluator does not model: {e}")
                sub = f"{mod.relpath}:{fn.qualname} member filter"
                if bad is None:
                    rep.ok(rule, sub, f"only members without type, properties, items, enum and composition are dropped (attributes read: {attrs})", fn.loc(comp))
                else:
                    shown = {k.split(".", 1)[1]: v for k, v in bad.items() if v not in (None, {}, [], False)}
                    rep.violation(rule, sub, f"{fn.fq}|drops-structured-member",
                                  f"a union member with {shown} is dropped from the union: a `$ref` member that closes a reference cycle is represented by exactly such a "
                                  "placeholder, so the variant disappears from the field's type depending on declaration order", fn.loc(comp))
    rep.require(n >= 2, f"{rule}: only {n} union member filters found in the oneOf / anyOf parsers (floor 2)")


# ------------------------------------------------------------------------------------------------ R2.14 a registration key never shadows another declared schema
def rule_key_does_not_shadow_declared_name(repo: Repo, rep, rule: str = "R2.14") -> None:
    """_parse_schema registers a finished schema under its *sanitised* name.  That key can be the raw name of another declared schema
    (`user_profile` -> `UserProfile` while `UserProfile` is declared as well): registered there it makes build_schemas skip the other
    schema ("already parsed") and the two declarations collapse into one model - in one declaration order only.  Whenever the key can
    differ from the raw name, a test of the key against the declared names (`raw_spec_schemas`) dominates the registration and falls back
    to the raw name."""
    from sa.report import with_flatten_fallback

    ps = repo.func(f"{SP}:_parse_schema")
    with_flatten_fallback(rep, ps, lambda f, r: _rule_2_14(f, r, rule))


def _rule_2_14(ps, rep, rule: str) -> None:
    cfg = CFG(ps.node)
    dom = cfg.dominators()
    PL = Locals(ps.node)
    regs = [n for n in cfg.nodes if n.kind == "stmt" and isinstance(n.ast, ast.Assign) and isinstance(n.ast.targets[0], ast.Subscript) and not n.copy
            and isinstance(n.ast.targets[0].value, ast.Attribute) and n.ast.targets[0].value.attr == "parsed_schemas"]
    rep.require(bool(regs), f"{rule}: no `context.parsed_schemas[<key>] = <ir>` in _parse_schema (anchor)")
    name_param = ps.params[0] if ps.params else "schema_name"
    for r in regs:
        key = r.ast.targets[0].slice
        sub = f"{ps.module.relpath}:_parse_schema registration under `{norm(key)[:30]}`"
        if isinstance(key, ast.Name) and PL.root(key.id) == name_param:
            rep.ok(rule, sub, "registered under the raw declared name", ps.loc(r.ast))
            continue
        if not isinstance(key, ast.Name):
            rep.error(f"{rule}: registration key `{norm(key)[:40]}` of _parse_schema is not a local name")
            continue
        derived = [v for k, v, _ in PL.defs.get(key.id, []) if v is not None and not (isinstance(v, ast.Name) and PL.root(v.id) == name_param)]
        if not derived:
            rep.ok(rule, sub, "every definition of the key is the raw declared name", ps.loc(r.ast))
            continue
        guarded = False
        for t in cfg.nodes:
            if t.kind != "test" or t.id not in dom[r.id]:
                continue
            txt = norm(t.ast)
            if "raw_spec_schemas" not in txt or key.id not in {x.id for x in ast.walk(t.ast) if isinstance(x, ast.Name)}:
                continue
            # its true branch re-binds the key to the raw name
            true_succ = [m for m, lab in cfg.succ[t.id] if lab == "true"]
            for m in true_succ:
                for q in [m] + list(cfg.reachable(m)):
                    nd = cfg.nodes[q]
                    if nd.kind == "stmt" and isinstance(nd.ast, ast.Assign) and isinstance(nd.ast.targets[0], ast.Name) and nd.ast.targets[0].id == key.id \
                            and isinstance(nd.ast.value, ast.Name) and PL.root(nd.ast.value.id) == name_param and q != r.id and t.id in dom[q]:
                        guarded = True
        if guarded:
            rep.ok(rule, sub, f"`{key.id}` can be the sanitised name, but a test against the declared names (raw_spec_schemas) dominates the registration and falls back to the raw name", ps.loc(r.ast))
        else:
            rep.violation(rule, sub, f"{ps.fq}|key-shadows-declared-name",
                          f"the schema is registered under `{norm(derived[0])[:50]}` without checking that this key is not the name of another declared schema: with "
                          "`user_profile` declared before `UserProfile`, the first takes the key `UserProfile`, build_schemas then skips the second as already parsed, and both "
                          "names end up with the first schema's fields (the second declaration is lost; the other declaration order works)", ps.loc(r.ast))


# ------------------------------------------------------------------------------------------------ R2.17 invented names stay clear of declared names
def _tests_declared_names(node: ast.AST, var: str) -> bool:
    """`while/if <var> in <ctx>.raw_spec_schemas` somewhere below node"""
    for x in ast.walk(node):
        if isinstance(x, (ast.While, ast.If)):
            for c in ast.walk(x.test):
                if isinstance(c, ast.Compare) and len(c.ops) == 1 and isinstance(c.ops[0], (ast.In, ast.NotIn)) and isinstance(c.left, ast.Name) and c.left.id == var \
                        and isinstance(c.comparators[0], ast.Attribute) and c.comparators[0].attr == "raw_spec_schemas":
                    return True
    return False


def rule_invented_names_avoid_declared(repo: Repo, rep, rule: str = "R2.17") -> None:
    """An inline schema that becomes a schema of its own (inline object / enum property, inline array items) is parsed under a name the
    parser makes up from its context.  `_parse_schema` treats that name like any other: if a *declared* schema has it, the two are one
    registry entry - whichever is parsed first supplies the fields, the other one is lost or mistyped.  Every made-up name must therefore be
    passed through a test against the declared names (`<ctx>.raw_spec_schemas`) before it is used."""
    sp = repo.module("core.parsing.schema_parser")
    helpers = {q for q, f in sp.functions.items() if "." not in q and f.params and _tests_declared_names(f.node, f.params[0])}
    n = 0
    for q in ("_parse_properties", "_parse_schema"):
        fn = sp.functions.get(q)
        if fn is None:
            raise AnalysisError(f"{rule}: anchor vanished: schema_parser.{q}")
        L = Locals(fn.node)
        seen_vars = set()
        for c in calls_in(fn.node):
            if not (isinstance(c.func, ast.Name) and c.func.id == "_parse_schema" and c.args and isinstance(c.args[0], ast.Name)):
                continue
            var = c.args[0].id
            if var in seen_vars or L.is_param(var):
                continue
            # the variables the name is selected from (`name = None if simple else contextual_name`)
            cands, todo = set(), [var]
            while todo:
                v = todo.pop()
                if v in cands:
                    continue
                cands.add(v)
                for _, d, _ in L.defs.get(v, []):
                    if isinstance(d, ast.IfExp):
                        todo += [b.id for b in (d.body, d.orelse) if isinstance(b, ast.Name)]
                    elif isinstance(d, ast.Name) and not L.is_param(d.id):
                        todo.append(d.id)
            made_up = []
            for v in cands:
                for _, d, _ in L.defs.get(v, []):
                    if d is not None and any(isinstance(x, ast.JoinedStr) or (isinstance(x, ast.BinOp) and isinstance(x.op, ast.Add)) or (
                            isinstance(x, ast.Call) and isinstance(x.func, ast.Attribute) and x.func.attr == "sanitize_class_name") for x in ast.walk(d)):
                        made_up.append((v, d))
            if not made_up:
                continue
            seen_vars.add(var)
            n += 1
            guarded = False
            for v in cands:
                for _, d, _ in L.defs.get(v, []):
                    if d is not None and any(isinstance(x, ast.Call) and isinstance(x.func, ast.Name) and x.func.id in helpers for x in ast.walk(d)):
                        guarded = True
                if _tests_declared_names(fn.node, v):
                    guarded = True
            sub = f"{sp.relpath}:{q} name `{var}` made up for an inline schema"
            if guarded:
                rep.ok(rule, sub, "passed through a test against the declared schema names before it is used", fn.loc(c))
            else:
                rep.violation(rule, sub, f"{fn.fq}|invented-name-may-be-declared|{var}",
                              f"`{norm(made_up[0][1])[:70]}` can be the name of a declared schema (`Pets` with inline items next to a declared `PetsItem`): the inline schema "
                              "and the declared one share one registry entry - declared second, the declared schema loses its fields to the inline one; declared first, the "
                              "inline position is typed with the declared schema", fn.loc(c))
    rep.count(f"{rule}:made_up_names", n)
    rep.require(n >= 3, f"{rule}: only {n} made-up schema names found in schema_parser (floor 3)")


# ------------------------------------------------------------------------------------------------ R2.19 / R2.20 a reference wrapped in allOf keeps the kind of its target
def rule_annotated_reference(repo: Repo, rep, rule: str = "R2.19") -> None:
    """`status: {allOf: [{$ref: Status}], description: ...}` is how OpenAPI 3.0 documents describe (or make nullable) a reference; NestJS,
    FastAPI, springdoc and drf-spectacular emit it for every enum-typed property.  Parsed like any other inline schema it becomes a schema of
    its own with type `object` (R2.20) and no properties: a dataclass without fields, whatever the target is (enum, array, primitive).  In a
    property position the wrapper must be resolved like the bare reference: the property loop resolves `<node>["allOf"][0]["$ref"]`."""
    sp = repo.module("core.parsing.schema_parser")
    pp = sp.functions.get("_parse_properties")
    if pp is None:
        raise AnalysisError(f"{rule}: anchor vanished: _parse_properties")
    fn = pp
    refs = [c for c in calls_in(fn.node) if isinstance(c.func, ast.Name) and c.func.id == "_resolve_ref" and c.args]
    rep.require(len(refs) >= 1, f"{rule}: no `_resolve_ref(...)` call in the property loop (anchor)")
    through_allof = [c for c in refs if any(isinstance(x, ast.Constant) and x.value == "allOf" for x in ast.walk(c.args[0]))]
    sub = f"{sp.relpath}:_parse_properties `allOf: [{{$ref: X}}]` with annotations only"
    if through_allof:
        rep.ok(rule, sub, "resolved like the bare reference to X", pp.loc(through_allof[0]))
    else:
        rep.violation(rule, sub, f"{pp.fq}|annotated-reference-parsed-as-object",
                      "a described / nullable reference written as `allOf: [{$ref: X}]` is parsed as an inline schema of its own: it is registered as `<Parent><Prop>` with type "
                      "`object` and no properties, so a property that refers to an enum or an array is typed with a dataclass without fields and a conforming value cannot be decoded",
                      pp.loc(refs[0]) if refs else pp.loc())


def rule_allof_type_follows_members(repo: Repo, rep, rule: str = "R2.20") -> None:
    """`_parse_schema` gives a schema without `type` the type `object` as soon as the node has an `allOf` - also when the members are an enum,
    an array or a primitive (`StatusAlias: {allOf: [{$ref: Status}]}`): the declared alias is emitted as a dataclass without fields."""
    sp = repo.module("core.parsing.schema_parser")
    ps = sp.functions.get("_parse_schema")
    if ps is None:
        raise AnalysisError(f"{rule}: anchor vanished: _parse_schema")
    from sa.cfg import CFG, guards

    cfg = CFG(ps.node)
    dom = cfg.dominators()
    L = Locals(ps.node)
    hits = []
    for n in cfg.nodes:
        if n.kind == "stmt" and isinstance(n.ast, ast.Assign) and len(n.ast.targets) == 1 and isinstance(n.ast.targets[0], ast.Name) and "type" in n.ast.targets[0].id \
                and isinstance(n.ast.value, ast.Constant) and n.ast.value.value == "object":
            gs = [g for g, pol in guards(cfg, n.id, dom) if g.kind == "test" and pol is True and any(isinstance(x, ast.Constant) and x.value == "allOf" for x in ast.walk(g.ast))]
            for g in gs:
                looks_at_members = any(isinstance(x, ast.Attribute) and x.attr in ("type", "enum", "items") for x in ast.walk(L.inline(g.ast, stop=tuple(L.params))))
                hits.append((n, g, looks_at_members))
    rep.require(bool(hits), f"{rule}: the `\"allOf\" in <node>` -> type `object` inference of _parse_schema was not found (anchor)")
    for n, g, ok in hits:
        sub = f"{sp.relpath}:_parse_schema type inferred for a node with `allOf`"
        if ok:
            rep.ok(rule, sub, "the inference looks at the kinds of the members", ps.loc(n.ast))
        else:
            rep.violation(rule, sub, f"{ps.fq}|allof-means-object",
                          f"`{norm(g.ast)[:70]}` -> `object`, whatever the members are: a declared `StatusAlias: {{allOf: [{{$ref: Status}}]}}` over an enum (or an array / primitive) "
                          "becomes a dataclass without fields, and a conforming value (`open`) cannot be decoded", ps.loc(n.ast))
        break


# ------------------------------------------------------------------------------------------------ R2.21 two inline schemas never share a made-up name
def rule_invented_names_are_per_node(repo: Repo, rep, rule: str = "R2.21") -> None:
    """Made-up names are not injective: `Order` + `item_status` and `OrderItem` + `status` both read `OrderItemStatus`, and below an anonymous
    allOf / oneOf member the name is the property key alone (`Cat` and `Dog`, each `allOf: [Pet, {properties: {details: {...}}}]`, both make up
    `Details`).  `_parse_schema` answers a name it has seen with the schema it built first, so the second inline schema silently gets the
    first one's model.  The names of inline *property* schemas must therefore be tied to the document node they were made up for: the helper
    that vets the name is handed the node, keeps a name -> node record on the context and compares identities."""
    sp = repo.module("core.parsing.schema_parser")
    pp = sp.functions.get("_parse_properties")
    if pp is None:
        raise AnalysisError(f"{rule}: anchor vanished: _parse_properties")
    helpers = {q: f for q, f in sp.functions.items() if "." not in q and f.params and _tests_declared_names(f.node, f.params[0])}
    rep.require(bool(helpers), f"{rule}: the helper that tests made-up names against the declared names was not found (anchor, see R2.17)")
    per_node = {}
    for q, f in helpers.items():
        ps = f.params
        keeps_record = any(isinstance(st, ast.Assign) and any(isinstance(t, ast.Subscript) and isinstance(t.value, ast.Attribute) for t in st.targets)
                           and isinstance(st.value, ast.Name) and st.value.id in ps for st in own_nodes(f.node))
        compares = any(isinstance(c, ast.Compare) and isinstance(c.ops[0], (ast.Is, ast.IsNot, ast.Eq, ast.NotEq)) and any(isinstance(x, ast.Name) and x.id in ps[1:] for x in ast.walk(c))
                       and any(isinstance(x, ast.Call) and isinstance(x.func, ast.Attribute) and x.func.attr == "get" for x in ast.walk(c)) for c in ast.walk(f.node))
        per_node[q] = keeps_record and compares
    calls = [c for c in calls_in(pp.node) if isinstance(c.func, ast.Name) and c.func.id in helpers]
    rep.require(len(calls) >= 2, f"{rule}: only {len(calls)} made-up property schema names are vetted in _parse_properties (floor 2)")
    for c in calls:
        sub = f"{sp.relpath}:_parse_properties `{norm(c)[:60]}`"
        node_args = [a for a in c.args[2:]] + [k.value for k in c.keywords if k.arg not in (None,) and k.arg != "context"]
        passes_node = any(not (isinstance(a, ast.Constant) and a.value is None) for a in node_args)
        if per_node.get(c.func.id) and passes_node:
            rep.ok(rule, sub, "the name is tied to the document node it was made up for (a different node gets a numbered name)", pp.loc(c))
        else:
            rep.violation(rule, sub, f"{pp.fq}|made-up-name-not-tied-to-node|{norm(c.args[0])[:40] if c.args else ''}",
                          "the made-up name is only tested against the declared names: two different inline schemas that read the same (`Order.item_status` / `OrderItem.status`; "
                          "`details` in two allOf members) are one registry entry - the second property is typed with the first one's model and its own values cannot be decoded",
                          pp.loc(c))


# ------------------------------------------------------------------------------------------------ R2.22 an allOf merge that met a placeholder is completed
def rule_all_of_merge_is_completed(repo: Repo, rep, rule: str = "R2.22") -> None:
    """`_process_all_of` copies `properties` and `required` of every allOf member the moment the member has been parsed.  A member that is a
    `$ref` to a schema still on the parsing stack (Resource.createdBy -> User, User: allOf [Resource]) comes back as the cycle placeholder -
    an object without fields - so nothing is inherited; whether the base is finished or in progress at that moment is decided by the order of
    components.schemas.  Decided: either the merge itself recognises the placeholder (`_is_circular_ref`) and defers, or build_schemas calls,
    after its loop over the declared schemas, a completion pass that looks at the `all_of` members, recognises placeholders and fills in
    `properties` / `required` of the inheriting schema."""
    ap = repo.func("core.parsing.keywords.all_of_parser:_process_all_of")
    merges = [x for x in ast.walk(ap.node) if isinstance(x, ast.Attribute) and x.attr in ("properties", "required") and isinstance(x.value, ast.Name)]
    if not merges:
        raise AnalysisError(f"{rule}: _process_all_of no longer reads properties / required of the parsed members (anchor)")
    sub = f"{ap.module.relpath}:_process_all_of inheritance from a base that is still being parsed"
    if any(isinstance(x, ast.Attribute) and x.attr == "_is_circular_ref" for x in ast.walk(ap.node)):
        rep.ok(rule, sub, "the merge recognises a cycle placeholder itself", ap.loc())
        return
    bs = repo.func("core.loader.schemas.extractor:build_schemas")
    loops = [st for st in own_nodes(bs.node) if isinstance(st, ast.For) and any((dotted(c.func) or "").endswith("_parse_schema") for c in calls_in(st))]
    if not loops:
        raise AnalysisError(f"{rule}: the loop of build_schemas over the declared schemas was not found (anchor)")
    after = [c for st in bs.node.body if getattr(st, "lineno", 0) > loops[0].end_lineno for c in calls_in(st)]
    passes = []
    for c in after:
        d = dotted(c.func) or ""
        f = bs.module.functions.get(d)
        if f is None:
            continue
        # the pass and the helpers of its module it delegates to (two levels)
        body_nodes = [f.node]
        frontier = [f.node]
        for _ in range(2):
            nxt = []
            for fnode in frontier:
                for c3 in calls_in(fnode):
                    h3 = bs.module.functions.get(dotted(c3.func) or "")
                    if h3 is not None and h3.node not in body_nodes:
                        body_nodes.append(h3.node)
                        nxt.append(h3.node)
            frontier = nxt
        txt_attrs = {x.attr for bn in body_nodes for x in ast.walk(bn) if isinstance(x, ast.Attribute)}
        fills = any(isinstance(st, (ast.Assign, ast.AugAssign)) and any(isinstance(t, ast.Attribute) and t.attr == "properties" for t in (st.targets if isinstance(st, ast.Assign) else [st.target]))
                    for bn in body_nodes for st in ast.walk(bn)) or any(isinstance(c2.func, ast.Attribute) and c2.func.attr in ("update", "setdefault") and isinstance(c2.func.value, ast.Attribute)
                                                                        and c2.func.value.attr == "properties" for bn in body_nodes for c2 in calls_in(bn))
        req = any(isinstance(st, (ast.Assign, ast.AugAssign)) and any(isinstance(t, ast.Attribute) and t.attr == "required" for t in (st.targets if isinstance(st, ast.Assign) else [st.target]))
                  for bn in body_nodes for st in ast.walk(bn)) or any(isinstance(c2.func, ast.Attribute) and c2.func.attr in ("update", "extend", "append", "add") and isinstance(c2.func.value, ast.Attribute)
                                                                      and c2.func.value.attr == "required" for bn in body_nodes for c2 in calls_in(bn))
        if {"all_of", "_is_circular_ref"} <= txt_attrs and fills and req:
            passes.append((f, c))
    # the re-merge is not limited to schemas that *hold* a placeholder: `Admin: allOf [User]` holds the real `User`, which was itself incomplete
    # (it inherits from the placeholder's target) when Admin copied its fields - the pass must look at every allOf schema until nothing changes
    if passes:
        from sa.cfg import CFG as _C22, guards as _g22

        f22 = passes[0][0]
        cfg22 = _C22(f22.node)
        dom22 = cfg22.dominators()
        for nd in cfg22.nodes:
            if nd.kind == "stmt" and not nd.copy and isinstance(nd.ast, (ast.Assign, ast.AugAssign)) and any(
                    isinstance(t, ast.Attribute) and t.attr == "properties" for t in (nd.ast.targets if isinstance(nd.ast, ast.Assign) else [nd.ast.target])):
                lim = [g for g, pol in _g22(cfg22, nd.id, dom22) if g.kind == "test" and pol is not None and g.ast is not None and any(
                    isinstance(x, ast.Attribute) and x.attr in ("_is_circular_ref", "_circular_ref_path") for x in ast.walk(g.ast))]
                # ... the same restriction written as a filter on the collection the merge loop runs over (`pending = [s for s in ... if any(m._is_circular_ref ...)]`)
                if not lim:
                    from sa.match import Locals as _L22

                    L22 = _L22(f22.node)
                    p22 = parent(nd.ast)
                    while p22 is not None and p22 is not f22.node:
                        if isinstance(p22, (ast.For, ast.AsyncFor)):
                            srcs = [p22.iter] + ([v for _, v, _ in L22.defs.get(p22.iter.id, []) if v is not None] if isinstance(p22.iter, ast.Name) else [])
                            for sv in srcs:
                                for comp in [x for x in ast.walk(sv) if isinstance(x, (ast.ListComp, ast.GeneratorExp, ast.SetComp, ast.DictComp))]:
                                    for g22 in comp.generators:
                                        for cnd in g22.ifs:
                                            if any(isinstance(x, ast.Attribute) and x.attr in ("_is_circular_ref", "_circular_ref_path") for x in ast.walk(cnd)):
                                                class _G:  # the filter plays the role of the guard
                                                    ast = cnd
                                                lim = [_G]
                        p22 = parent(p22)
                if lim:
                    rep.violation(rule, sub + " (transitive)", f"{f22.fq}|completion-limited-to-placeholder-holders",
                                  f"`{norm(lim[0].ast)[:70]}` decides whether a schema is re-merged at all: a schema that inherits from a *real* schema which was itself completed by this "
                                  "pass (`Admin: allOf [User]`, `User: allOf [Resource]`, `Resource.createdBy -> User`) keeps the incomplete copy it made while parsing - again depending on "
                                  "the order of components.schemas", f22.loc(lim[0].ast))
                    return
    if passes:
        rep.ok(rule, sub, f"build_schemas runs `{passes[0][0].qualname}` after every declared schema is complete: placeholders among the allOf members are resolved and their "
               "properties / required names merged", bs.loc(passes[0][1]))
    else:
        rep.violation(rule, sub, f"{ap.fq}|merge-from-placeholder-never-completed",
                      "the members' properties / required are copied when the member is parsed; a base that is still on the parsing stack is a field-less placeholder at that moment and "
                      "nothing completes the merge later: the derived model loses every inherited field, depending on the order of components.schemas", ap.loc(merges[0]))
