"""C02 - schema-to-model structure fidelity (no silently lost fields).

Equality of field sets for all graphs/orders is not decided. Decided:

R2.1  parsed structure is never discarded: after `schema_ir = IRSchema(...)` every normal return of _parse_schema
      returns that object                                                                    [finding on the pinned tree]
R2.2  cycle decisions do not depend on name *content*: in unified_cycle_check schema names may only be compared for
      equality / membership, never by substring / prefix / suffix                            [findings on the pinned tree]
R2.3  no property is dropped on the way: _parse_properties assigns every key (two enumerated skips), the allOf merge
      takes properties and required from every member on every path, DataclassGenerator emits one field per property
R2.4  required-ness: `is_required = prop_name in schema.required` is the only input of the default decision
R2.6  registration: every normal exit of _parse_schema with a name passes the registration (enumerated exceptions)
R2.7  the cycle tracker's enter/exit calls are balanced on every path of _parse_schema (a leaked depth turns later,
      unrelated schemas into zero-field depth placeholders)                                   [typestate shared with C08]
"""
from __future__ import annotations

import ast
from typing import List, Optional, Set

from sa.cfg import CFG, guards
from sa.model import AnalysisError, Function, Repo, calls_in, const_str, dotted, full, norm, own_nodes, parent
from sa.report import Report

SP = "core.parsing.schema_parser"


def run(repo: Repo, rep: Report, tier: str) -> None:
    ps = repo.func(f"{SP}:_parse_schema")
    cfg = CFG(ps.node)
    dom = cfg.dominators()
    # ---------------------------------------------------------------- R2.1
    ctor = [n for n in cfg.nodes if n.kind == "stmt" and isinstance(n.ast, ast.Assign) and norm(n.ast.targets[0]) == "schema_ir"
            and isinstance(n.ast.value, ast.Call) and dotted(n.ast.value.func) == "IRSchema" and not n.copy]
    rep.require(len(ctor) == 1, f"R2.1: expected one `schema_ir = IRSchema(...)` in _parse_schema, found {len(ctor)}")
    if ctor:
        c0 = ctor[0]
        rets = [n for n in cfg.nodes if isinstance(n.ast, ast.Return) and not n.copy and c0.id in dom[n.id]]
        rep.count("R2.1:returns_after_construction", len(rets))
        rep.require(len(rets) >= 1, "R2.1: no return after the construction of schema_ir")
        for r in rets:
            v = norm(r.ast.value) if r.ast.value is not None else "None"
            sub = f"{ps.module.relpath}:_parse_schema `return {v}` after construction"
            if v == "schema_ir":
                rep.ok("R2.1", sub, "returns the object that carries the parsed structure", ps.loc(r.ast))
            else:
                rep.violation("R2.1", sub, f"{ps.fq}|discards-parsed|{v}",
                              f"after the schema has been fully parsed into `schema_ir` this path returns `{v}` instead: a cycle placeholder stored under the "
                              "schema's own name shadows the finished definition and the model ends up without fields (order- and name-dependent)", ps.loc(r.ast))

    # ---------------------------------------------------------------- R2.7 tracker balance (precondition of field fidelity)
    # A leaked enter raises recursion_depth for the rest of the document: once it passes the limit every later schema is
    # replaced by a zero-field depth placeholder. The enter/exit typestate of C08 is therefore a necessary condition here.
    from rules import c08

    c08.typestate(ps, rep, rule="R2.7")

    # ---------------------------------------------------------------- R2.2 name content
    ucd = repo.module("core.parsing.unified_cycle_detection")
    ucc = ucd.func("unified_cycle_check")
    n_name_tests = 0
    for n in own_nodes(ucc.node):
        bad = None
        # "<lit>" in schema_name / name.startswith(...) / name.endswith(...) / "<lit>" in cycle_path_str
        if isinstance(n, ast.Compare) and isinstance(n.ops[0], (ast.In, ast.NotIn)) and const_str(n.left) is not None:
            tgt = norm(n.comparators[0])
            if "name" in tgt or "path_str" in tgt or "cycle_path[" in tgt:
                bad = n
        if isinstance(n, ast.Call) and isinstance(n.func, ast.Attribute) and n.func.attr in ("startswith", "endswith", "find", "index") \
                and ("name" in norm(n.func.value)):
            bad = n
        if bad is None:
            continue
        n_name_tests += 1
        # does it feed a storage decision?
        st = _enclosing_assign(bad)
        var = norm(st.targets[0]) if st is not None else "?"
        rep.violation("R2.2", f"{ucd.relpath}:unified_cycle_check `{norm(bad)[:60]}`", f"{ucc.fq}|name-content|{var}|{norm(bad)[:50]}",
                      f"a cycle-handling decision (`{var}`) depends on the *text* of schema names (`{norm(bad)[:60]}`): whether a placeholder is stored over a "
                      "schema's own entry changes when schemas are renamed (e.g. a schema whose name is a prefix of another, or contains 'Item')", ucc.loc(bad))
    if n_name_tests == 0:
        rep.ok("R2.2", f"{ucd.relpath}:unified_cycle_check", "schema names are only compared for equality / membership", ucc.loc())
    # the cycle-marking block of _parse_schema
    for n in own_nodes(ps.node):
        if isinstance(n, ast.Compare) and isinstance(n.ops[0], ast.In) and const_str(n.left) is not None and "cycle_path" in norm(n.comparators[0]):
            st = _enclosing_assign(n)
            var = norm(st.targets[0]) if st is not None else "?"
            rep.violation("R2.2", f"{ps.module.relpath}:_parse_schema `{norm(n)[:60]}`", f"{ps.fq}|name-content|{var}|{norm(n)[:50]}",
                          f"marking a schema as circular (`{var}`) depends on whether a name in the cycle path contains {norm(n.left)}", ps.loc(n))

    # ---------------------------------------------------------------- R2.3 (a) _parse_properties
    pp = repo.func(f"{SP}:_parse_properties")
    cfg2 = CFG(pp.node)
    loops = [n for n in cfg2.nodes if n.kind == "iter" and "properties_node.items()" in norm(n.ast)]
    rep.require(len(loops) == 1, f"R2.3: expected one loop over properties_node.items(), found {len(loops)}")
    if loops:
        h = loops[0]
        assigns = {n.id for n in cfg2.nodes if n.kind == "stmt" and isinstance(n.ast, ast.Assign) and isinstance(n.ast.targets[0], ast.Subscript)
                   and norm(n.ast.targets[0].value) == "parsed_props" and norm(n.ast.targets[0].slice) == "prop_name"}
        conts = [n for n in cfg2.nodes if n.kind == "stmt" and isinstance(n.ast, ast.Continue) and not n.copy]
        allowed = 0
        for c in conts:
            gs = [norm(g.ast) for g, p in guards(cfg2, c.id) if p is True]
            why = None
            if any("isinstance(prop_name, str)" in g for g in gs):
                why = "invalid (non-string / empty) key"
            elif any("prop_name in parsed_props" in g for g in gs):
                why = "already merged from allOf"
            sub = f"{pp.module.relpath}:_parse_properties `continue` under {gs[-1][:50] if gs else '?'}"
            if why:
                allowed += 1
                rep.ok("R2.3", sub, f"enumerated skip: {why}", pp.loc(c.ast))
            else:
                rep.violation("R2.3", sub, f"{pp.fq}|property-skipped|{gs[-1][:60] if gs else ''}", "a declared property is skipped under a condition that is not one of the two enumerated ones", pp.loc(c.ast))
        # every other path through the body assigns parsed_props[prop_name]
        blocked = assigns | {c.id for c in conts}
        w = None
        for m, lab in cfg2.succ[h.id]:
            if lab == "loop" and m not in blocked:
                w = w or cfg2.must_pass(m, blocked, {h.id, cfg2.exit})
        if assigns and w is None:
            rep.ok("R2.3", f"{pp.module.relpath}:_parse_properties every key assigned", "every path through one iteration assigns parsed_props[prop_name] (or takes an enumerated skip)", pp.loc())
        else:
            rep.violation("R2.3", f"{pp.module.relpath}:_parse_properties every key assigned", f"{pp.fq}|not-assigned|{cfg2.describe_path(w or [])}",
                          f"an iteration can end without assigning the property ({cfg2.describe_path(w or [])})", pp.loc())

    # ---------------------------------------------------------------- R2.3 (b) allOf merge
    ao = repo.func("core.parsing.keywords.all_of_parser:_process_all_of")
    cfg3 = CFG(ao.node)
    loops = [n for n in cfg3.nodes if n.kind == "iter" and norm(n.ast) == "node['allOf']"]
    rep.require(len(loops) == 1, f"R2.3: expected one loop over node['allOf'], found {len(loops)}")
    if loops:
        h = loops[0]
        req_upd = {n.id for n in cfg3.nodes if n.kind == "stmt" and n.ast is not None and any(
            isinstance(c.func, ast.Attribute) and c.func.attr == "update" and norm(c.func.value) == "merged_required" for c in calls_in(n.ast))}
        prop_merge = {n.id for n in cfg3.nodes if n.kind == "stmt" and isinstance(n.ast, ast.Assign) and isinstance(n.ast.targets[0], ast.Subscript)
                      and norm(n.ast.targets[0].value) == "merged_properties"}
        for label, nodes, test_kw in (("required", req_upd, "required"), ("properties", prop_merge, "properties")):
            # allowed bypass: the false edge of `if sub_schema_ir.<kw>:` (nothing to merge)
            tests = {n.id for n in cfg3.nodes if n.kind == "test" and norm(n.ast) in (f"sub_schema_ir.{test_kw}",) }
            saved = {t: list(cfg3.succ[t]) for t in tests}
            for t in tests:
                cfg3.succ[t] = [(m, lab) for m, lab in cfg3.succ[t] if lab != "false"]
            # inner loops over properties: allow their own `done` edge
            inner_iters = {n.id for n in cfg3.nodes if n.kind == "iter" and n.id != h.id and "sub_schema_ir.properties" in norm(n.ast)}
            saved2 = {t: list(cfg3.succ[t]) for t in inner_iters}
            skip_tests = {n.id for n in cfg3.nodes if n.kind == "test" and "not in merged_properties" in norm(n.ast)}
            saved3 = {t: list(cfg3.succ[t]) for t in skip_tests}
            if label == "properties":
                for t in inner_iters:
                    cfg3.succ[t] = [(m, lab) for m, lab in cfg3.succ[t] if lab != "done"]
                for t in skip_tests:
                    cfg3.succ[t] = [(m, lab) for m, lab in cfg3.succ[t] if lab != "false"]
            w = None
            for m, lab in cfg3.succ[h.id]:
                if lab == "loop" and m not in nodes:
                    w = w or cfg3.must_pass(m, nodes, {h.id, cfg3.exit})
            for t, v in list(saved.items()) + list(saved2.items()) + list(saved3.items()):
                cfg3.succ[t] = v
            sub = f"{ao.module.relpath}:_process_all_of merges `{label}` of every member"
            if nodes and w is None:
                rep.ok("R2.3", sub, f"every path through one allOf member merges its {label} (only bypass: the member has none)", ao.loc())
            else:
                rep.violation("R2.3", sub, f"{ao.fq}|allof-{label}-skipped|{cfg3.describe_path(w or [])}",
                              f"an allOf member can be passed over without merging its `{label}` ({cfg3.describe_path(w or [])}): e.g. a member that only "
                              "tightens `required` no longer makes the inherited fields required", ao.loc())

    # ---------------------------------------------------------------- R2.3 (c) / R2.4 DataclassGenerator
    dg = repo.func("visit.model.dataclass_generator:DataclassGenerator.generate")
    lp = [n for n in own_nodes(dg.node) if isinstance(n, ast.For) and "sorted_props" in norm(n.iter)]
    rep.require(len(lp) == 1, "R2.4: property loop of DataclassGenerator.generate not found")
    for loop in lp:
        skips = [n for n in ast.walk(loop) if isinstance(n, (ast.Continue, ast.Break))]
        sub = f"{dg.module.relpath}:DataclassGenerator.generate property loop"
        if not skips:
            rep.ok("R2.3", sub, "no continue/break: one field per declared property", dg.loc(loop))
        else:
            rep.violation("R2.3", sub, f"{dg.fq}|loop-skip|{len(skips)}", "the property loop can skip a property", dg.loc(skips[0]))
        req = [n for n in ast.walk(loop) if isinstance(n, ast.Assign) and norm(n.targets[0]) == "is_required"]
        okr = len(req) == 1 and norm(req[0].value) == "prop_name in schema.required"
        defaults = [n for n in ast.walk(loop) if isinstance(n, ast.Assign) and norm(n.targets[0]) == "default_expr" and not (isinstance(n.value, ast.Constant) and n.value.value is None)]
        guarded = all(any(isinstance(a, ast.If) and norm(a.test) == "not is_required" for a in _ancestors(d, loop)) for d in defaults)
        sub = f"{dg.module.relpath}:DataclassGenerator.generate required-ness"
        if okr and defaults and guarded:
            rep.ok("R2.4", sub, "`is_required = prop_name in schema.required`; a default is computed only under `not is_required`", dg.loc(req[0]))
        else:
            rep.violation("R2.4", sub, f"{dg.fq}|requiredness|{[norm(r.value) for r in req]}|guarded={guarded}",
                          "required-ness is not taken solely from schema.required / defaults are assigned to required fields", dg.loc(loop))
    sortkey = [n for n in own_nodes(dg.node) if isinstance(n, ast.Assign) and norm(n.targets[0]) == "sorted_props"]
    if sortkey and "schema.properties.items()" in full(sortkey[0].value) and "if " not in full(sortkey[0].value):
        rep.ok("R2.3", f"{dg.module.relpath}:DataclassGenerator.generate sorted_props", "all items of schema.properties (sorted, unfiltered)", dg.loc(sortkey[0]))
    else:
        rep.violation("R2.3", f"{dg.module.relpath}:DataclassGenerator.generate sorted_props", f"{dg.fq}|props-filtered", "the property list is filtered before fields are generated", dg.loc())

    # ---------------------------------------------------------------- R2.6 registration on the way out
    reg = {n.id for n in cfg.nodes if n.kind == "stmt" and isinstance(n.ast, ast.Assign) and isinstance(n.ast.targets[0], ast.Subscript)
           and norm(n.ast.targets[0].value) == "context.parsed_schemas" and norm(n.ast.targets[0].slice) == "registration_key"}
    final_ret = [n for n in cfg.nodes if isinstance(n.ast, ast.Return) and not n.copy and n.ast.value is not None and norm(n.ast.value) == "schema_ir"]
    rep.require(bool(reg) and bool(final_ret), "R2.6: registration statement / final return not found in _parse_schema")
    if reg and final_ret and ctor:
        tests = {n.id for n in cfg.nodes if n.kind == "test" and norm(n.ast).startswith("should_register")}
        saved = {t: list(cfg.succ[t]) for t in tests}
        for t in tests:
            cfg.succ[t] = [(m, lab) for m, lab in cfg.succ[t] if lab != "false"]
        w = cfg.must_pass(ctor[0].id, reg, {final_ret[0].id})
        for t, v in saved.items():
            cfg.succ[t] = v
        sr = [n for n in own_nodes(ps.node) if isinstance(n, ast.Assign) and norm(n.targets[0]) == "should_register"]
        conj = [norm(v) for v in sr[0].value.values] if sr and isinstance(sr[0].value, ast.BoolOp) else []
        expected = {"schema_name", "not schema_ir._from_unresolved_ref", "not schema_ir._max_depth_exceeded_marker", "not is_synthetic_primitive"}
        sub = f"{ps.module.relpath}:_parse_schema registration"
        if w is None and set(conj) == expected:
            rep.ok("R2.6", sub, f"every path from construction to `return schema_ir` registers the schema unless {sorted(expected)} fails", ps.loc())
        else:
            rep.violation("R2.6", sub, f"{ps.fq}|registration|{sorted(set(conj) ^ expected)}|{cfg.describe_path(w or [])}",
                          f"a named schema can be returned unregistered (condition differs by {sorted(set(conj) ^ expected)}; bypass path {cfg.describe_path(w or [])})", ps.loc())


def _enclosing_assign(n: ast.AST) -> Optional[ast.Assign]:
    p = parent(n)
    while p is not None and not isinstance(p, ast.stmt):
        p = parent(p)
    return p if isinstance(p, ast.Assign) else None


def _ancestors(n: ast.AST, stop: ast.AST):
    p = parent(n)
    while p is not None and p is not stop:
        yield p
        p = parent(p)
