"""C05 - response fidelity: declared success bodies come back as typed values.

R5.1  the three primary-response selectors (strategy resolver, response resolver, handler helper) have the same
      priority signature: 200, 201, 202, 204, other 2xx, default, first
R5.2  one strategy object: `generate` resolves the strategy once and the same value reaches signature, docstring,
      overloads and response handler
R5.3  import obligations of the handler: every emit of a template that mentions a runtime symbol
      (structure_from_dict, cast, iter_bytes, iter_sse_events_text, json.) is accompanied, on every path through the
      emitting statement, by the registration of its import
R5.4  text/binary bodies are not JSON-decoded: every function that emits `response.json()` for a strategy/return
      type first excludes str/bytes
R5.5  no-content => None on the primary and the secondary path
R5.7  the SSE runtime decoder itself: accumulator typestate and field parsing                 [rules shared with C18]
R5.12 each branch of the multi-media-type decode chain accepts exactly its declared media type (equality, no widening)
R5.13 the union decoder reads the discriminator from the type as given and keeps Annotated members whole                          [= R14.11]
R5.14 the class name synthesized for an unnamed inline response body depends on the response (status), not on the operation alone
R5.15 the resolver's self-import decision compares the package of the current file (else `cast("Pets", response.json())`: raw dicts)   [= R13.9]
R5.16 the decoder emitted for a streamed JSON body follows the response's `stream_format` (ndjson -> iter_ndjson, not the SSE decoder)
R5.21 a JSON scalar of a primitive union comes back as the variant of its own JSON type (an integral number stays a number)                          [= R14.15]
R5.19 the arm of an exact success status is written before any range-guarded arm (a 206 body is not decoded as the `2XX` response)          [= R6.14]
R5.18 a primary success response declared as the range `2XX` (the strategy resolver accepts every key that starts with 2) gets a success arm in the
      generated dispatch - otherwise the method has no return / yield at all                                                        [= R13.10]
R5.17 the placeholder the loader stores for a media type without schema counts as "no schema" in the strategy resolver (bytes / str inferred from the media type)
R5.11 the streaming body yields raw bytes exactly when the strategy's return type (the annotated item type) is bytes
R5.9  the handler's "is the named schema a type alias?" tests exclude what ModelVisitor's classification excludes (enums are classes)
R5.8  every declared media type of a response passes the streaming classification in the loader
R5.6  streaming: the handler delegates chunks/events to the runtime decoders unchanged (decoders themselves: C18)
"""
from __future__ import annotations

import ast
import re
from typing import Dict, List, Optional, Set, Tuple

from rules._siblings import priority_signature
from sa.cfg import CFG, guards
from sa.model import AnalysisError, Function, Repo, calls_in, const_str, dotted, full, norm, own_nodes, parent
from sa.match import Locals, conjuncts, match, names_in
from sa.report import Report, with_flatten_fallback
from sa.templates import HOLE, template_of

HANDLER = "visit.endpoint.generators.response_handler_generator"
EXPECTED_SIG = [("eq", "200"), ("eq", "201"), ("eq", "202"), ("eq", "204"), ("startswith", "2"), ("eq", "default"), ("first", "")]

# runtime symbol that a template may mention -> (how the import must be registered)
SYMBOL_IMPORTS = {
    "structure_from_dict(": ("add_import", "structure_from_dict"),
    "cast(": ("add_import", "cast"),
    "iter_bytes(": ("add_import", "iter_bytes"),
    "iter_ndjson(": ("add_import", "iter_ndjson"),
    "iter_sse_events_text(": ("add_import", "iter_sse_events_text"),
    "json.loads(": ("add_plain_import", "json"),
    "HTTPError(": ("add_import", "HTTPError"),
}
REGISTERING_HELPERS = {"_register_cattrs_import": "structure_from_dict"}
CODE_HELPERS_EMITTING = {"_get_cattrs_deserialization_code": "structure_from_dict("}


def run(repo: Repo, rep: Report, tier: str) -> None:
    from sa.report import guarded as _guarded

    # ---------------------------------------------------------------- R5.1
    sels = [
        repo.func("types.strategies.response_strategy:ResponseStrategyResolver._get_primary_response"),
        repo.func("types.resolvers.response_resolver:OpenAPIResponseResolver._get_primary_response"),
        repo.func("helpers.endpoint_utils:_get_primary_response"),
    ]
    sigs = [(f, priority_signature(f)) for f in sels]
    for f, sig in sigs:
        unknown = [r for r in sig if r[0] == "unknown"]
        if unknown:
            # the normal form does not cover this coding idiom: that is a gap of the recogniser, not evidence of a different priority
            raise AnalysisError(f"R5.1: {f.qualname} contains a construct the selector normal form does not cover: `{unknown[0][1]}`")
        sub = f"{f.module.relpath}:{f.qualname} priority signature"
        if sig == EXPECTED_SIG:
            rep.ok("R5.1", sub, "200, 201, 202, 204 (in that order, each over all responses), then other 2xx, then default, then first", f.loc())
        else:
            rep.violation("R5.1", sub, f"{f.fq}|priority|{sig}",
                          f"selects the primary response by {sig}, the documented order is {EXPECTED_SIG}: the signature (strategy) and the "
                          "response handler can pick different responses for one operation, so the type computed for one response is "
                          "returned under another response's status code", f.loc())
    if len({str(s) for _, s in sigs}) == 1:
        rep.ok("R5.1", "sibling agreement of the three selectors", "identical normal forms", sels[0].loc())
    else:
        rep.violation("R5.1", "sibling agreement of the three selectors", "selectors-disagree|" + "|".join(str(s) for _, s in sigs)[:200],
                      "the three copies of _get_primary_response do not have the same normal form", sels[0].loc())

    # ---------------------------------------------------------------- R5.2 one strategy
    gen = repo.func("visit.endpoint.generators.endpoint_method_generator:EndpointMethodGenerator.generate")
    resolves = [n for n in own_nodes(gen.node) if isinstance(n, ast.Assign) and isinstance(n.value, ast.Call) and isinstance(n.value.func, ast.Attribute)
                and n.value.func.attr == "resolve" and "strategy" in norm(n.value.func.value).lower()]
    rep.require(len(resolves) == 1, f"R5.2: expected exactly one strategy resolution in generate(), found {len(resolves)}")
    if resolves:
        var = norm(resolves[0].targets[0])
        strategy_params: Dict[str, Set[str]] = {}
        for mname in ("_generate_standard_method", "_generate_overloaded_method", "_generate_implementation_method"):
            m = gen.cls.methods.get(mname) if gen.cls else None
            if m is None:
                raise AnalysisError(f"anchor vanished: EndpointMethodGenerator.{mname}")
            # the parameter that receives the resolved strategy: by the position / keyword at which generate() (or a sibling) passes it
            sp = None
            for caller in [gen] + [x for x in (gen.cls.methods.values() if gen.cls else [])]:
                cvar = var if caller is gen else None
                for c in calls_in(caller.node):
                    if isinstance(c.func, ast.Attribute) and c.func.attr == mname:
                        mparams = [p for p in m.params if p != "self"]
                        for i, a in enumerate(c.args):
                            if isinstance(a, ast.Name) and (a.id == cvar or (cvar is None and a.id in strategy_params.get(caller.name, ()))) and i < len(mparams):
                                sp = mparams[i]
                        for k in c.keywords:
                            if isinstance(k.value, ast.Name) and (k.value.id == cvar or (cvar is None and k.value.id in strategy_params.get(caller.name, ()))) and k.arg in mparams:
                                sp = k.arg
            sub = f"{m.module.relpath}:{m.qualname} strategy threading"
            if sp is None:
                rep.violation("R5.2", sub, f"{m.fq}|no-strategy-param", "the method no longer receives the resolved strategy", m.loc())
                continue
            strategy_params.setdefault(m.name, set()).add(sp)
            consumers = [c for c in calls_in(m.node) if isinstance(c.func, ast.Attribute) and c.func.attr in (
                "generate_signature", "generate_docstring", "generate_response_handling", "generate_overload_signatures",
                "generate_implementation_signature", "_generate_implementation_method")]
            bad = [c for c in consumers if not any(isinstance(a, ast.Name) and a.id == sp for a in list(c.args) + [k.value for k in c.keywords])]
            re_resolved = [c for c in calls_in(m.node) if isinstance(c.func, ast.Attribute) and c.func.attr == "resolve" and "strategy" in norm(c.func.value).lower()]
            if consumers and not bad and not re_resolved:
                rep.ok("R5.2", sub, f"`{sp}` is passed unchanged to {sorted({c.func.attr for c in consumers})}", m.loc())  # type: ignore[attr-defined]
            else:
                rep.violation("R5.2", sub, f"{m.fq}|strategy-not-threaded|{[norm(c)[:40] for c in bad]}|re={len(re_resolved)}",
                              "signature/docstring/handler do not all receive the one resolved strategy (or it is resolved again)", m.loc())
        # generate() passes the variable to the sub-generators
        passes = [c for c in calls_in(gen.node) if isinstance(c.func, ast.Attribute) and c.func.attr.startswith("_generate_")]
        okp = passes and all(any(isinstance(a, ast.Name) and a.id == var for a in c.args) for c in passes)
        if okp:
            rep.ok("R5.2", f"{gen.module.relpath}:{gen.qualname}", f"`{var}` resolved once and handed to {[c.func.attr for c in passes]}", gen.loc())  # type: ignore[attr-defined]
        else:
            rep.violation("R5.2", f"{gen.module.relpath}:{gen.qualname}", f"{gen.fq}|strategy-not-passed", "the resolved strategy is not passed to the method generators", gen.loc())

    # ---------------------------------------------------------------- R5.3 import obligations in the handler module
    hmod = repo.module(HANDLER)
    n_sites = 0
    for fn in hmod.functions.values():
        if fn.cls is None:
            continue
        n_sites += _import_obligations(fn, rep)
    rep.count("R5.3:emit_sites_with_runtime_symbols", n_sites)
    rep.require(n_sites >= 8, f"R5.3: only {n_sites} emit sites mentioning runtime symbols found in the handler (floor 8)")

    # ---------------------------------------------------------------- R5.4 text/bytes guard before response.json()
    for mname in ("_write_strategy_based_return", "_write_content_type_conditional_handling"):
        fn = hmod.classes["EndpointResponseHandlerGenerator"].methods.get(mname)
        if fn is None:
            raise AnalysisError(f"anchor vanished: {mname}")
        with_flatten_fallback(rep, fn, _json_guard, select=lambda h: any(isinstance(x, ast.JoinedStr) and "cast(" in "".join(
            str(v.value) for v in x.values if isinstance(v, ast.Constant)) for x in ast.walk(h.node)))

    # ---------------------------------------------------------------- R5.5 no-content => None
    grh = hmod.classes["EndpointResponseHandlerGenerator"].methods.get("generate_response_handling")
    if grh is None:
        raise AnalysisError("anchor vanished: generate_response_handling")
    def _no_content_rules(grh_: Function, rep) -> None:
        cfg = CFG(grh_.node)
        dom = cfg.dominators()
        GL = Locals(grh_.node)
        def _fold(e: ast.AST):
            """constant value of an expression built from literals (after a helper's parameters were substituted), else `...`"""
            if isinstance(e, ast.Constant):
                return e.value
            if isinstance(e, ast.JoinedStr):
                out = ""
                for v in e.values:
                    x = _fold(v.value) if isinstance(v, ast.FormattedValue) else _fold(v)
                    if x is ...:
                        return ...
                    out += str(x)
                return out
            if isinstance(e, ast.IfExp):
                t = _fold(e.test)
                return ... if t is ... else _fold(e.body if t else e.orelse)
            if isinstance(e, ast.Compare) and len(e.ops) == 1 and isinstance(e.ops[0], (ast.Is, ast.IsNot, ast.Eq, ast.NotEq)):
                a, b = _fold(e.left), _fold(e.comparators[0])
                if a is ... or b is ...:
                    return ...
                r = (a is b) if isinstance(e.ops[0], (ast.Is, ast.IsNot)) else (a == b)
                return r if isinstance(e.ops[0], (ast.Is, ast.Eq)) else not r
            if isinstance(e, ast.BinOp) and isinstance(e.op, ast.Add):
                a, b = _fold(e.left), _fold(e.right)
                return ... if a is ... or b is ... or not isinstance(a, str) or not isinstance(b, str) else a + b
            return ...

        none_writes = [n for n in cfg.nodes if n.kind == "stmt" and n.ast is not None and any(
            isinstance(c.func, ast.Attribute) and c.func.attr == "write_line" and c.args
            and (const_str(c.args[0]) == "return None" or _fold(GL.inline(c.args[0], stop=tuple(GL.params))) == "return None") for c in calls_in(n.ast))]
        prim = sec = False
        for n in none_writes:
            gs = [(g, pol) for g, pol in guards(cfg, n.id, dom) if g.kind == "test" and pol is not None]
            for g, pol in gs:
                for cj in (conjuncts(g.ast, GL, stop=tuple(GL.params)) if pol else [GL.inline(g.ast, stop=tuple(GL.params))]):
                    eff = pol
                    while isinstance(cj, ast.UnaryOp) and isinstance(cj.op, ast.Not):
                        cj, eff = cj.operand, not eff
                    m_eq = match("ANY_s.return_type == 'None'", cj)
                    m_ne = match("ANY_s.return_type != 'None'", cj)
                    if (m_eq is not None and eff) or (m_ne is not None and not eff):
                        prim = True
                    if isinstance(cj, ast.Attribute) and cj.attr == "content" and not eff:
                        sec = True
        for label, okv in (("primary response without content", prim), ("secondary 2xx response without content", sec)):
            sub = f"{grh_.module.relpath}:generate_response_handling {label}"
            if okv:
                rep.ok("R5.5", sub, "`return None` is emitted under that guard", grh_.loc())
            else:
                rep.violation("R5.5", sub, f"{grh_.fq}|no-content|{label}", "a declared success response without content no longer yields `return None`", grh_.loc())


    with_flatten_fallback(rep, grh, _no_content_rules)

    from rules._memo import local_memo_rule

    local_memo_rule(repo, rep, "R5.10", ("core.loader",),
                    "An IRResponse carries the status code it was declared under: a component response referenced under 200 and 201 keeps the first code, "
                    "the handler gets no arm for the other one and a conforming answer raises 'Unhandled status code'.")
    _streaming_runtime(repo, rep)
    _stream_classification(repo, rep)
    _alias_classification(repo, rep)
    _guarded(rep, rule_media_type_branches_exact, repo, rep, "R5.12")
    # R5.13: a discriminated union response keeps its discriminator on the way into the decoder                               [= R14.11]
    from rules.c14 import rule_metadata_from_the_given_type as _rmg513

    _rmg513(repo, rep, "R5.13")
    _guarded(rep, rule_one_name_per_response, repo, rep, "R5.14")
    _guarded(rep, rule_stream_decoder_follows_format, repo, rep, "R5.16")
    _guarded(rep, rule_schemaless_media_type, repo, rep, "R5.17")
    _guarded(rep, rule_range_primary_gets_an_arm, repo, rep, "R5.18")
    from rules._reuse import reuse as _reuse519

    _reuse519(repo, rep, "c06", {"R6.14": "R5.19"})  # an exact 2xx arm is never shadowed by the 2XX range arm
    _reuse519(repo, rep, "c14", {"R14.15": "R5.21"})  # a scalar body of a primitive union keeps its JSON type (10 stays a number)
    # R5.15: a tag module is never taken for a model module of the same name (the body would be handed back as raw dicts through `cast`)  [= R13.9]
    from rules.c13 import rule_self_import_compares_the_package

    _guarded(rep, rule_self_import_compares_the_package, repo, rep, "R5.15")

    # ---------------------------------------------------------------- R5.6 streaming delegation
    wsr = hmod.classes["EndpointResponseHandlerGenerator"].methods["_write_strategy_based_return"]
    from sa.flatten import flatten as _flatten

    def _const_text(e: ast.AST) -> Optional[str]:
        """the text of a write_line argument when it is constant: a literal, or a concatenation / f-string of literals"""
        if const_str(e) is not None:
            return const_str(e)
        if isinstance(e, ast.BinOp) and isinstance(e.op, ast.Add):
            a_, b_ = _const_text(e.left), _const_text(e.right)
            return a_ + b_ if a_ is not None and b_ is not None else None
        if isinstance(e, ast.JoinedStr) and all(isinstance(v, ast.Constant) for v in e.values):
            return "".join(str(v.value) for v in e.values)
        return None

    fw = _flatten(wsr)
    WL = Locals(fw.node)

    def _texts(e: ast.AST, depth: int = 0) -> Optional[Set[str]]:
        """every text the expression can take when it is built from literals and locals that are only ever bound to literals"""
        ct = _const_text(e)
        if ct is not None:
            return {ct}
        if isinstance(e, ast.Name) and depth < 3:
            ds = WL.defs.get(e.id, [])
            if ds and all(k == "assign" and v is not None for k, v, _ in ds):
                out: Set[str] = set()
                for _, v, _ in ds:
                    t = _texts(v, depth + 1)
                    if t is None:
                        return None
                    out |= t
                return out if len(out) <= 8 else None
            return None
        if isinstance(e, ast.BinOp) and isinstance(e.op, ast.Add):
            a_, b_ = _texts(e.left, depth), _texts(e.right, depth)
            return {x + y for x in a_ for y in b_} if a_ is not None and b_ is not None else None
        if isinstance(e, ast.JoinedStr):
            acc: Set[str] = {""}
            for v in e.values:
                t = {str(v.value)} if isinstance(v, ast.Constant) else _texts(v.value, depth) if isinstance(v, ast.FormattedValue) and v.conversion == -1 and v.format_spec is None else None
                if t is None:
                    return None
                acc = {x + y for x in acc for y in t}
            return acc
        return None

    wl_calls = [c for c in calls_in(fw.node) if isinstance(c.func, ast.Attribute) and c.func.attr == "write_line" and c.args]
    lines = [_texts(c.args[0]) or _texts(WL.inline(c.args[0])) for c in wl_calls]  # None = a text this rule cannot enumerate
    import re as _re

    want = {"iter_bytes": "yield {v}", "iter_sse_events_text": "yield json.loads({v})"}
    for helper, body in want.items():
        sub = f"{wsr.module.relpath}:_write_strategy_based_return streaming `async for … in {helper}(response):`"
        found = False
        for ix, ts in enumerate(lines):
            for t in ts or ():
                m = _re.fullmatch(r"async for (\w+) in " + helper + r"\(response\):", t.strip())
                if m and any(body.format(v=m.group(1)) in {x.strip() for x in (later or ())} for later in lines[ix + 1:]):
                    found = True
        if found:
            rep.ok("R5.6", sub, f"emits the loop over `{helper}(response)` followed by `{body.format(v='<item>')}`: every chunk/event of the runtime decoder is yielded, in order", wsr.loc())
        elif any(ts is None and ("yield" in norm(c.args[0]) or "async for" in norm(c.args[0])) for ts, c in zip(lines, wl_calls)):
            rep.error(f"R5.6: cannot evaluate the streaming templates of {wsr.qualname}: a `yield`/`async for` line is built from values this rule cannot enumerate")
        else:
            rep.violation("R5.6", sub, f"{wsr.fq}|streaming|{helper}", "the streaming template no longer yields every item of the runtime decoder unchanged", wsr.loc())

    # ---------------------------------------------------------------- R5.11 the iterator matches the annotated item type
    # The signature of a streaming method is `AsyncIterator[<item>]` with the item type taken from strategy.return_type.  The body
    # yields raw chunks (iter_bytes) or parsed events; which of the two is emitted must be decided from that same return type - a choice
    # re-derived from the response's media types can disagree with the annotation (a `format: binary` download under another media type).
    cfg11 = CFG(fw.node)
    dom11 = cfg11.dominators()
    n11 = 0
    for nd in cfg11.nodes:
        if nd.kind != "stmt" or nd.ast is None or nd.copy:
            continue
        # the statement where the text `iter_bytes` is chosen: the emit itself, or the assignment of the helper name it is built from
        lits = [k for k in ast.walk(nd.ast) if isinstance(k, ast.Constant) and isinstance(k.value, str) and "iter_bytes" in k.value]
        for c in lits[:1]:
            n11 += 1
            sub = f"{wsr.module.relpath}:_write_strategy_based_return choice of `iter_bytes`"
            gts = [(g, pol) for g, pol in guards(cfg11, nd.id, dom11) if g.kind == "test" and pol is not None]
            def _says_bytes(t_: ast.AST, pol_: bool) -> bool:
                """being on this side of the test means "the return type mentions bytes" (`in` / `==` on the true side, `not in` / `!=` on the false side)"""
                t_ = WL.inline(t_, stop=tuple(WL.params))
                while isinstance(t_, ast.UnaryOp) and isinstance(t_.op, ast.Not):
                    t_, pol_ = t_.operand, not pol_
                if not ("return_type" in norm(t_) and "bytes" in norm(t_)):
                    return False
                if isinstance(t_, ast.Compare) and len(t_.ops) == 1 and isinstance(t_.ops[0], (ast.NotIn, ast.NotEq)):
                    return pol_ is False
                return pol_ is True

            by_type = [g for g, pol in gts if _says_bytes(g.ast, pol)]
            if by_type:
                rep.ok("R5.11", sub, f"emitted under `{norm(by_type[0].ast)[:60]}`: the byte iterator is chosen exactly when the annotated item type is bytes", wsr.loc(c))
            else:
                shown = [("" if pol else "not ") + norm(g.ast)[:50] for g, pol in gts]
                rep.violation("R5.11", sub, f"{wsr.fq}|iterator-not-by-return-type",
                              f"the raw-bytes iterator is emitted under {shown}, which does not read the strategy's return type: the body can yield parsed events where the "
                              "signature promises `AsyncIterator[bytes]` (or the reverse) - a binary download is fed to the SSE/JSON decoder", wsr.loc(c))
    rep.require(n11 >= 1, "R5.11: no emit of `iter_bytes(` found in _write_strategy_based_return (anchor)")


def _streaming_runtime(repo: Repo, rep: Report) -> None:
    """R5.7: the runtime decoders the streaming templates delegate to deliver exactly the events the server sent
    (rules of C18 applied under this property: accumulator typestate and field parsing of the SSE decoder)."""
    from rules import c18

    mod = repo.module(c18.MOD)
    sse = mod.functions.get("iter_sse")
    pe = mod.functions.get("_parse_sse_event")
    if sse is None or pe is None:
        raise AnalysisError("anchor vanished: iter_sse / _parse_sse_event")
    r = _Relabel(rep, "R5.7")
    c18._sse_typestate(sse, r)
    from sa.report import with_flatten_fallback as _wff57

    _wff57(r, pe, c18._parse_event_rules)


def _neg_attrs(e: ast.AST) -> Set[str]:
    """IR attributes read under a negation: `not x.a`, `not getattr(x, "a", None)`"""
    out: Set[str] = set()
    for n in ast.walk(e):
        if isinstance(n, ast.UnaryOp) and isinstance(n.op, ast.Not):
            for x in ast.walk(n.operand):
                if isinstance(x, ast.Attribute):
                    out.add(x.attr)
                if isinstance(x, ast.Call) and dotted(x.func) == "getattr" and len(x.args) >= 2 and const_str(x.args[1]):
                    out.add(const_str(x.args[1]) or "")
    return out


def _alias_classification(repo: Repo, rep: Report) -> None:
    """R5.9: the handler decides `cast(T, json)` vs `structure_from_dict(json, T)` by asking whether the named schema T is rendered as a type
    alias.  That question is answered a second time in ModelVisitor (which really renders T).  The handler's copy must exclude everything
    the model visitor excludes - in particular enums, which are classes: a `cast()` would hand the caller a plain str."""
    mv = repo.func("visit.model.model_visitor:ModelVisitor.visit_IRSchema")
    ML = Locals(mv.node)
    mv_pred = [n for n in own_nodes(mv.node) if isinstance(n, ast.Assign) and any("properties" in _neg_attrs(ML.inline(n.value, stop=tuple(ML.params))) for _ in [0])
               and isinstance(n.value, (ast.BoolOp, ast.Call))]
    rep.require(len(mv_pred) >= 1, "R5.9: ModelVisitor's type-alias predicate not found (anchor)")
    if not mv_pred:
        return
    want = _neg_attrs(ML.inline(mv_pred[0].value, stop=tuple(ML.params))) & {"properties", "enum"}
    hmod = repo.module(HANDLER)
    cls = hmod.classes["EndpointResponseHandlerGenerator"]
    n_pred = 0
    mod_level = [f for q, f in hmod.functions.items() if "." not in q]  # the predicate may be a module-level helper shared by the methods
    for fn in list(cls.methods.values()) + mod_level:
        FL = Locals(fn.node)
        for n in own_nodes(fn.node):
            if not isinstance(n, ast.BoolOp) or not isinstance(n.op, ast.And) or isinstance(parent(n), ast.BoolOp):
                continue
            # expand calls of small predicate helpers of the same class (`self._is_alias_schema(schema)`)
            parts: List[ast.AST] = []
            for v in n.values:
                vi = FL.inline(v, stop=tuple(FL.params))
                parts.append(vi)
                for c in [x for x in ast.walk(vi) if isinstance(x, ast.Call) and isinstance(x.func, ast.Attribute) and x.func.attr in cls.methods]:
                    h = cls.methods[c.func.attr]
                    parts += [r.value for r in own_nodes(h.node) if isinstance(r, ast.Return) and r.value is not None]
            neg: Set[str] = set()
            for p_ in parts:
                neg |= _neg_attrs(p_)
            if "properties" not in neg:
                continue
            # a shared predicate stands for each of its call sites
            uses = sum(1 for f2 in cls.methods.values() for c in calls_in(f2.node)
                       if (isinstance(c.func, ast.Name) and c.func.id == fn.name) or (isinstance(c.func, ast.Attribute) and c.func.attr == fn.name)) if fn in mod_level else 0
            n_pred += max(1, uses)
            sub = f"{hmod.relpath}:{fn.qualname} type-alias test #{n_pred}"
            missing = sorted(want - neg)
            if not missing:
                rep.ok("R5.9", sub, f"excludes {sorted(want)} like ModelVisitor's alias predicate", fn.loc(n))
            else:
                rep.violation("R5.9", sub, f"{fn.fq}|alias-predicate-missing|{missing}",
                              f"this copy of the 'is it a type alias?' test does not exclude schemas with {missing} although ModelVisitor renders those as classes: "
                              "a named enum body is returned through cast() as a plain str instead of the enum member", fn.loc(n))
    rep.require(n_pred >= 2, f"R5.9: only {n_pred} type-alias tests found in the response handler (floor 2)")


def _stream_classification(repo: Repo, rep: Report) -> None:
    """R5.8: every declared media type of a response passes the streaming classification (the lookup in the table of streaming media
    types): a `continue` / early exit inside the content loop would leave `stream` false for e.g. a schema-less `text/event-stream`."""
    pr = repo.func("core.loader.responses.parser:parse_response")
    def _is_table(v: Optional[ast.AST]) -> bool:
        """a dict display - or `dict([...pairs...])` / `dict(<pairs>)` - that has the key "text/event-stream" """
        if isinstance(v, ast.Dict):
            return any(const_str(k) == "text/event-stream" for k in v.keys if k is not None)
        if isinstance(v, ast.Call) and dotted(v.func) == "dict" and v.args:
            return any(isinstance(t, (ast.Tuple, ast.List)) and t.elts and const_str(t.elts[0]) == "text/event-stream" for t in ast.walk(v.args[0]))
        return False

    tables = {n.targets[0].id for n in own_nodes(pr.node) if isinstance(n, ast.Assign) and isinstance(n.targets[0], ast.Name) and _is_table(n.value)}
    # the table may be a module-level constant
    for st in pr.module.tree.body:
        if isinstance(st, (ast.Assign, ast.AnnAssign)) and _is_table(getattr(st, "value", None)):
            tg = st.targets[0] if isinstance(st, ast.Assign) else st.target
            if isinstance(tg, ast.Name):
                tables.add(tg.id)
    if not tables:
        raise AnalysisError("anchor vanished: the table of streaming media types in parse_response")
    cfg = CFG(pr.node)
    loops = [n for n in cfg.nodes if n.kind == "iter" and isinstance(n.stmt, ast.For) and any(
        isinstance(x, ast.Constant) and x.value == "content" for x in ast.walk(n.stmt.iter))]
    rep.require(len(loops) == 1, f"R5.8: expected one loop over the response's `content` mapping, found {len(loops)}")
    for h in loops:
        inside = {id(x) for x in ast.walk(h.stmt)}
        cls_nodes = {n.id for n in cfg.nodes if n.kind in ("stmt", "test") and n.ast is not None and id(n.ast) in inside and any(
            isinstance(x, ast.Name) and x.id in tables for x in ast.walk(n.ast))}
        sub = f"{pr.module.relpath}:parse_response every media type is classified (stream / not stream)"
        if not cls_nodes:
            rep.violation("R5.8", sub, f"{pr.fq}|no-classification", "the content loop no longer consults the table of streaming media types", pr.loc(h.stmt))
            continue
        w = None
        for m, lab in cfg.succ[h.id]:
            if lab == "loop" and m not in cls_nodes:
                w = w or cfg.must_pass(m, cls_nodes, {h.id, cfg.exit})
        if w is None:
            rep.ok("R5.8", sub, "every path through one iteration of the content loop reaches the lookup in the streaming-media-type table", pr.loc(h.stmt))
        else:
            rep.violation("R5.8", sub, f"{pr.fq}|classification-bypassed",
                          f"an iteration can end without the streaming lookup ({cfg.describe_path(w)}): a streaming media type declared that way yields a "
                          "non-streaming method that JSON-decodes the body", pr.loc(h.stmt))


def _writer_helper_param(fn: Function, c: ast.Call) -> Optional[ast.AST]:
    """`self._write_x(writer, ..., expr)` where `_write_x` is a method of the same class that writes one of its parameters into a line
    (`writer.write_line(f"return {value_expr}")`): the argument passed for that parameter is emitted text."""
    if not (isinstance(c.func, ast.Attribute) and fn.cls is not None and c.func.attr in fn.cls.methods):
        return None
    h = fn.cls.methods[c.func.attr]
    hparams = [p_ for p_ in h.params if p_ not in ("self", "cls")]
    emitted = set()
    for wc in calls_in(h.node):
        if isinstance(wc.func, ast.Attribute) and wc.func.attr == "write_line" and wc.args:
            for x in ast.walk(wc.args[0]):
                if isinstance(x, ast.Name) and x.id in hparams:
                    emitted.add(x.id)
    emitted -= {p_ for p_ in emitted if p_ in ("writer", "context")}
    for p_ in hparams:
        if p_ in emitted:
            i = hparams.index(p_)
            if i < len(c.args):
                return c.args[i]
            for k in c.keywords:
                if k.arg == p_:
                    return k.value
    return None


def _template_text_of_call(fn: Function, c: ast.Call) -> Optional[str]:
    if not (isinstance(c.func, ast.Attribute) and c.func.attr == "write_line" and c.args):
        via = _writer_helper_param(fn, c)
        if via is None or (isinstance(via, ast.Constant) and via.value is None):
            return None
        line = ast.JoinedStr(values=[ast.FormattedValue(value=via, conversion=-1, format_spec=None)])  # the helper writes f"... {param}"
        c = ast.Call(func=ast.Attribute(value=ast.Name(id="writer", ctx=ast.Load()), attr="write_line", ctx=ast.Load()), args=[line], keywords=[])
    t = template_of(c.args[0], fn.node)
    if t is None:
        return None
    txt = t.text
    # holes that come from code-producing helpers of the same class
    for h in t.holes:
        if isinstance(h, ast.Name):
            for n in own_nodes(fn.node):
                if isinstance(n, ast.Assign) and any(isinstance(tg, ast.Name) and tg.id == h.id for tg in n.targets) and isinstance(n.value, ast.Call):
                    nm = n.value.func.attr if isinstance(n.value.func, ast.Attribute) else ""
                    if nm in CODE_HELPERS_EMITTING:
                        txt += " " + CODE_HELPERS_EMITTING[nm]
    return txt


def _registrations(fn: Function, cfg: CFG) -> Dict[str, Set[int]]:
    """symbol -> CFG nodes that register its import."""
    from rules._imports import import_names, registration_nodes
    from sa.match import Locals

    L = Locals(fn.node)
    out: Dict[str, Set[int]] = {}
    for n in cfg.nodes:
        if n.kind != "stmt" or n.ast is None:
            continue
        for c in calls_in(n.ast):
            if not isinstance(c.func, ast.Attribute):
                continue
            if c.func.attr in ("add_import", "add_plain_import", "add_conditional_import"):
                for nm in import_names(c, L):
                    out.setdefault(nm, set()).update(registration_nodes(cfg, n, c))
            elif c.func.attr in REGISTERING_HELPERS:
                out.setdefault(REGISTERING_HELPERS[c.func.attr], set()).add(n.id)
            elif c.func.attr == "add_typing_imports_for_type":
                pass
    return out


def _import_obligations(fn: Function, rep: Report) -> int:
    cfg = CFG(fn.node)
    regs = _registrations(fn, cfg)
    dom = cfg.dominators()
    pdom = cfg.dominators(reverse=True)
    n = 0
    for nd in cfg.nodes:
        if nd.kind != "stmt" or nd.ast is None or nd.copy:
            continue
        for c in calls_in(nd.ast):
            txt = _template_text_of_call(fn, c)
            if not txt:
                continue
            for sym, (how, name) in SYMBOL_IMPORTS.items():
                if sym not in txt:
                    continue
                if sym == "HTTPError(" and not txt.lstrip().startswith("raise HTTPError("):
                    continue
                n += 1
                sub = f"{fn.module.relpath}:{fn.qualname} emits `{txt.replace(HOLE, '{}').strip()[:50]}` needs `{name}`"
                rnodes = regs.get(name, set())
                covered = any(r in dom[nd.id] or r in pdom[nd.id] or r == nd.id for r in rnodes)
                if covered:
                    rep.ok("R5.3", sub, f"import of `{name}` is registered on every path through this emit (dominating / post-dominating registration)", fn.loc(c))
                else:
                    rep.violation("R5.3", sub, f"{fn.fq}|missing-import|{name}|{txt.replace(HOLE, '{}').strip()[:40]}",
                                  f"the template uses `{name}` but no `{how}(..., \"{name}\")` lies on every path through this emit in "
                                  f"{fn.qualname}: the endpoints module calls a name it never imports (NameError at run time)", fn.loc(c))
    return n


def _json_guard(fn: Function, rep: Report) -> None:
    """Every emit of `response.json()` with the strategy's/mapping's type must be unreachable for str/bytes."""
    cfg = CFG(fn.node)
    dom = cfg.dominators()
    FL = Locals(fn.node)
    mconsts = {t.id: st.value for st in fn.module.tree.body if isinstance(st, ast.Assign) and isinstance(st.value, (ast.Tuple, ast.List, ast.Set, ast.Constant, ast.Dict))
               for t in st.targets if isinstance(t, ast.Name)}
    mconsts.update({st.target.id: st.value for st in fn.module.tree.body if isinstance(st, ast.AnnAssign) and isinstance(st.target, ast.Name)
                    and isinstance(st.value, (ast.Tuple, ast.List, ast.Set, ast.Constant, ast.Dict))})

    def test_text(t: ast.AST) -> str:
        ti = FL.inline(t, stop=tuple(FL.params))
        txt = norm(ti)
        for nm in names_in(ti):
            if nm in mconsts:
                txt += " " + norm(mconsts[nm])
        return txt

    emits = []
    for nd in cfg.nodes:
        if nd.kind != "stmt" or nd.ast is None or nd.copy:
            continue
        for c in calls_in(nd.ast):
            if isinstance(c.func, ast.Attribute) and c.func.attr == "write_line" and c.args:
                t = template_of(c.args[0], fn.node)
                if t is not None and "cast(" in t.text and ("response.json()" in t.text or any("response.json()" in full(FL.inline(h)) for h in t.holes)):
                    emits.append((nd, c))
        # the same expression built into a local first (`expr = f"cast({t}, {data})"` ... `write_line("return " + expr)`)
        if isinstance(nd.ast, ast.Assign) and isinstance(nd.ast.value, ast.JoinedStr):
            t = template_of(nd.ast.value, fn.node)
            if t is not None and "cast(" in t.text and ("response.json()" in t.text or any("response.json()" in full(FL.inline(h)) for h in t.holes)):
                emits.append((nd, ast.Call(func=ast.Name(id="<built>", ctx=ast.Load()), args=[nd.ast.value], keywords=[], lineno=nd.ast.lineno, col_offset=0)))
    if not emits:
        rep.error(f"R5.4: no `cast(<type>, response.json())` emit found in {fn.qualname} (anchor)")
        return
    # diverting emits: `return response.text` / `return response.content`, each under a test naming 'str' / 'bytes'
    def _with_tables(e: ast.AST) -> str:
        """the expression's text plus the text of every module-level constant table it reads (`TABLE[key]` can be any value of TABLE)"""
        ei = FL.inline(e, stop=tuple(FL.params))
        txt = norm(e) + " " + norm(ei)
        for nm in names_in(ei):
            if nm in mconsts:
                txt += " " + norm(mconsts[nm])
        return txt

    def emit_nodes(snippet: str):
        """statements where the raw-body expression enters the emitted text: a write_line, or the assignment of the local it is written from"""
        out = []
        for n in cfg.nodes:
            if n.kind == "stmt" and n.ast is not None and not n.copy:
                hit = False
                for cc in calls_in(n.ast):
                    if isinstance(cc.func, ast.Attribute) and cc.func.attr == "write_line" and cc.args and snippet in _with_tables(cc.args[0]):
                        hit = True
                if isinstance(n.ast, ast.Assign) and not isinstance(n.ast.value, ast.Call) and snippet in _with_tables(n.ast.value):
                    hit = True
                if hit:
                    out.append(n)
        return out

    def test_text_of(n) -> str:
        if n.kind == "case":  # `match python_type: case "bytes": ...` - the case pattern is the test
            return " ".join(repr(x.value) for x in ast.walk(n.ast.pattern) if isinstance(x, ast.Constant) and isinstance(x.value, str))
        return test_text(n.ast)

    _tt = test_text
    tests = [n for n in cfg.nodes if n.kind in ("test", "case") and ("'str'" in test_text_of(n) or "'bytes'" in test_text_of(n))]
    for nd, c in emits:
        sub = f"{fn.module.relpath}:{fn.qualname} `{norm(c.args[0])[:50]}`"
        seen_kinds: Set[str] = set()
        kinds_dom: Set[str] = set()
        for kind, snippet in (("str", "response.text"), ("bytes", "response.content")):
            for en in emit_nodes(snippet):
                gts = [t for t in tests if t.id in dom[en.id] and f"'{kind}'" in test_text_of(t)]
                if gts:
                    seen_kinds.add(kind)
                    # the same test is evaluated on every path to the JSON emit
                    if any(t.id in dom[nd.id] for t in gts):
                        kinds_dom.add(kind)
        if {"str", "bytes"} <= (seen_kinds & kinds_dom):
            rep.ok("R5.4", sub, "str and bytes return types are diverted to response.text / response.content before this JSON decode is emitted", fn.loc(c))
        else:
            rep.violation("R5.4", sub, f"{fn.fq}|json-for-text|{sorted(seen_kinds & kinds_dom)}",
                          "`response.json()` is emitted without first excluding str/bytes return types: a text/plain or binary body raises "
                          "JSONDecodeError instead of being returned", fn.loc(c))


class _Relabel:
    def __init__(self, rep, rule):
        self.rep, self.rule = rep, rule

    def ok(self, rule, *a, **k):
        self.rep.ok(self.rule, *a, **k)

    def violation(self, rule, *a, **k):
        self.rep.violation(self.rule, *a, **k)

    def require(self, *a, **k):
        self.rep.require(*a, **k)

    def error(self, *a, **k):
        self.rep.error(*a, **k)

    def count(self, *a, **k):
        pass


# ------------------------------------------------------------------------------------------------ R5.12 one media type per branch
def rule_media_type_branches_exact(repo: Repo, rep: Report, rule: str = "R5.12") -> None:
    """A response that declares several media types is decoded by an `if content_type == "<type>": ... elif ...` chain with one branch
    per declared type (the last one doubles as the fallback).  Each branch decodes into the model of *its* media type, so its condition
    must accept exactly that type: an equality with the declared literal.  A condition widened by `or`, `endswith`, `startswith`, `in`
    captures answers of a sibling media type (application/geo+json under application/json) and structures them as the wrong model."""
    hmod = repo.module(HANDLER)
    fn = hmod.classes["EndpointResponseHandlerGenerator"].methods.get("_write_content_type_conditional_handling")
    if fn is None:
        raise AnalysisError(f"{rule}: anchor vanished: _write_content_type_conditional_handling")
    defs: Dict[str, List[ast.AST]] = {}
    for x in ast.walk(fn.node):
        if isinstance(x, ast.Assign) and len(x.targets) == 1 and isinstance(x.targets[0], ast.Name):
            defs.setdefault(x.targets[0].id, []).append(x.value)
        elif isinstance(x, ast.AugAssign) and isinstance(x.target, ast.Name):
            defs.setdefault(x.target.id, []).append(x.value)

    def consts(e: ast.AST, seen: Set[str]) -> List[str]:
        out: List[str] = []
        for n_ in ast.walk(e):
            if isinstance(n_, ast.Constant) and isinstance(n_.value, str):
                out.append(n_.value)
            elif isinstance(n_, ast.Name) and n_.id in defs and n_.id not in seen:
                seen.add(n_.id)
                for v in defs[n_.id]:
                    # the literal of the media type itself (json.dumps(...)) is data, not condition syntax
                    if isinstance(v, ast.Call) and dotted(v.func) in ("json.dumps", "repr"):
                        continue
                    out += consts(v, seen)
        return out

    n = 0
    for c in calls_in(fn.node):
        if not (isinstance(c.func, ast.Attribute) and c.func.attr == "write_line" and c.args):
            continue
        cs = consts(c.args[0], set())
        text = " ".join(cs)
        if not any(re.match(r"\s*(if|elif)\b", k) for k in cs) or "content_type" not in text:
            continue
        n += 1
        sub = f"{hmod.relpath}:_write_content_type_conditional_handling branch condition `{norm(c.args[0])[:50]}`"
        widened = [tok for tok in (" or ", "endswith", "startswith", " in ", "!=", " not ", "lower(", "split(") if tok in text]
        if "==" in text and not widened:
            rep.ok(rule, sub, "an equality of the answer's content type with the declared media type literal", fn.loc(c))
        else:
            rep.violation(rule, sub, f"{fn.fq}|branch-condition-widened|{(widened or ['no =='])[0].strip()}",
                          f"the condition of a media type's branch is more than an equality with the declared type ({[w.strip() for w in widened] or 'no =='}): an answer sent with "
                          "another declared media type can be caught by this branch and decoded as the wrong model", fn.loc(c))
    rep.require(n >= 1, f"{rule}: no `if/elif content_type ...` template found in _write_content_type_conditional_handling (anchor)")


# ------------------------------------------------------------------------------------------------ R5.14 one synthesized name per response
_R514_EXAMPLE = '''
def post_process(op, context):
    for resp in op.responses:
        for _, sch in resp.content.items():
            if sch.name is None:
                name = sanitize(op.operation_id + "Response")
                sch.name = name
                context.parsed_schemas[name] = sch
'''


def _response_name_hazards(fn_node: ast.AST):
    """[(store statement, key text)] for every `<registry>[K] = <body schema>` inside `for r in <op>.responses: for .. in r.content...` whose
    key K is computed without the response (nothing K depends on varies from one response of the operation to the next)."""
    from rules._memo import name_closure

    out, n = [], 0
    for outer in ast.walk(fn_node):
        if not (isinstance(outer, ast.For) and isinstance(outer.target, ast.Name) and any(isinstance(x, ast.Attribute) and x.attr == "responses" for x in ast.walk(outer.iter))):
            continue
        rv = outer.target.id
        for inner in ast.walk(outer):
            if not (isinstance(inner, ast.For) and inner is not outer and any(isinstance(x, ast.Attribute) and x.attr == "content" for x in ast.walk(inner.iter))
                    and any(isinstance(x, ast.Name) and x.id == rv for x in ast.walk(inner.iter))):
                continue
            svars = {x.id for x in ast.walk(inner.target) if isinstance(x, ast.Name)}
            for st in ast.walk(inner):
                if not (isinstance(st, ast.Assign) and len(st.targets) == 1 and isinstance(st.targets[0], ast.Subscript) and isinstance(st.value, ast.Name) and st.value.id in svars):
                    continue
                key = st.targets[0].slice
                # a key read from the schema itself (`sch.name` of an already named schema) is not a synthesized name
                knames = {x.id for x in ast.walk(key) if isinstance(x, ast.Name)}
                if knames & svars:
                    continue
                n += 1
                deps = name_closure(fn_node, knames)
                if rv not in deps and not (deps & svars):
                    out.append((st, norm(key)))
    return out, n


def rule_one_name_per_response(repo: Repo, rep, rule: str = "R5.14") -> None:
    """An inline response body without a name of its own gets a synthesized class name after parsing.  Every 2xx response of an operation can
    need one, so the name must be derived from the response (its status code) as well as from the operation: a name computed from the
    operation alone is shared by all of them, the registry keeps the last body only, and every status is decoded into that one model."""
    hz, n = _response_name_hazards(ast.parse(_R514_EXAMPLE))
    rep.require(len(hz) == 1 and n == 1, f"{rule}: the built-in positive example is no longer recognised - the rule is broken")
    pp = repo.func("core.loader.operations.post_processor:post_process_operation")
    from sa.flatten import flatten

    fn = pp
    hz, n = _response_name_hazards(fn.node)
    if not n:
        fn = flatten(pp)
        hz, n = _response_name_hazards(fn.node)
    if not n:
        raise AnalysisError(f"{rule}: post_process_operation no longer registers synthesized response names (anchor)")
    sub = f"{pp.module.relpath}:post_process_operation name synthesized for an inline response body"
    if hz:
        st, key = hz[0]
        rep.violation(rule, sub, f"{pp.fq}|response-name-without-status|{key}",
                      f"`{norm(st)[:70]}`: the name is computed from the operation only, so two responses of one operation (200 and 201) whose inline bodies both need a name "
                      "share it - the registry keeps the last body and both statuses are decoded into that model (a conforming 200 body fails or loses its values)", fn.loc(st))
    else:
        rep.ok(rule, sub, f"{n} registration(s): the synthesized name depends on the response it belongs to", fn.loc())


# ------------------------------------------------------------------------------------------------ R5.16 the stream decoder follows the declared stream format
def rule_stream_decoder_follows_format(repo: Repo, rep, rule: str = "R5.16") -> None:
    """The loader records for every streamed response which format it has (`stream_format`: event-stream, ndjson, ...).  The handler must
    choose the runtime decoder from it: a newline-delimited JSON stream handed to the SSE decoder has no `data:` field in any line, so the
    generated method completes normally and yields nothing.  Decided: the function that emits the streaming body reads `stream_format`, and
    the `iter_ndjson` decoder is emitted on the side of a test that compares it with `ndjson`."""
    hmod = repo.module(HANDLER)
    fn0 = next((f for q, f in hmod.functions.items() if q.endswith("._write_strategy_based_return")), None)
    if fn0 is None:
        raise AnalysisError(f"{rule}: anchor vanished: _write_strategy_based_return")

    def body(fn, r):
        cfg = CFG(fn.node)
        dom = cfg.dominators()
        L = Locals(fn.node)
        reads = [x for x in ast.walk(fn.node) if isinstance(x, ast.Attribute) and x.attr == "stream_format"]
        def _emits(n, what: str) -> bool:
            """the statement writes (directly, or through a line-writing helper that is handed the text) code that calls the decoder `what`"""
            if n.kind != "stmt" or n.ast is None or n.copy or not isinstance(n.ast, ast.Expr):
                return False
            return any(isinstance(k, ast.Constant) and isinstance(k.value, str) and what in k.value for c in calls_in(n.ast) for a in list(c.args) + [kw.value for kw in c.keywords] for k in ast.walk(a))

        nd = [n for n in cfg.nodes if _emits(n, "iter_ndjson(")]
        sse = [n for n in cfg.nodes if _emits(n, "iter_sse")]
        if not sse:
            raise AnalysisError(f"{rule}: the emit of the SSE decoder was not found in _write_strategy_based_return (anchor)")
        sub = f"{hmod.relpath}:_write_strategy_based_return decoder of a streamed JSON body"
        guarded = False
        for n in nd:
            for g, pol in guards(cfg, n.id, dom):
                if g.kind == "test" and pol is True:
                    gi = L.inline(g.ast, stop=tuple(L.params))
                    if any(isinstance(x, ast.Attribute) and x.attr == "stream_format" for x in ast.walk(gi)) and any(isinstance(x, ast.Constant) and x.value == "ndjson" for x in ast.walk(gi)):
                        guarded = True
        if reads and guarded:
            r.ok(rule, sub, "`stream_format == ndjson` selects iter_ndjson; the SSE decoder is the remaining case", fn.loc(nd[0].ast))
        else:
            r.violation(rule, sub, f"{fn0.fq}|stream-format-not-consulted",
                        "the format the loader recorded for the response (`stream_format`) is not consulted: every non-bytes stream is decoded with the SSE decoder - an "
                        "`application/x-ndjson` body has no `data:` field in any line, the generated method completes normally and yields nothing", fn.loc(sse[0].ast))

    with_flatten_fallback(rep, fn0, body)


# ------------------------------------------------------------------------------------------------ R5.17 a media type without schema is "no schema"
def rule_schemaless_media_type(repo: Repo, rep, rule: str = "R5.17") -> None:
    """`content: {image/png: {}}` / `text/plain: {}` declare a body without describing it.  The loader stores an empty placeholder schema for
    such a media type (`IRSchema(name=None, _from_unresolved_ref=True)`, an object - always truthy).  The strategy resolver infers `bytes` /
    `str` from the media type only `if not response_schema`; unless the placeholder is recognised first, that branch is dead for these
    responses, the type falls through to `Any` and the handler emits `response.json()` for a PNG / PDF / plain-text body."""
    pr = repo.func("core.loader.responses.parser:parse_response")
    places = [c for c in calls_in(pr.node) if dotted(c.func) == "IRSchema" and any(k.arg == "_from_unresolved_ref" and isinstance(k.value, ast.Constant) and k.value.value is True for k in c.keywords)]
    rs = repo.func("types.strategies.response_strategy:ResponseStrategyResolver.resolve")
    L = Locals(rs.node)
    gets = [st for st in own_nodes(rs.node) if isinstance(st, ast.Assign) and isinstance(st.value, ast.Call) and isinstance(st.value.func, ast.Attribute) and st.value.func.attr == "_get_response_schema"]
    if not gets or not isinstance(gets[0].targets[0], ast.Name):
        raise AnalysisError(f"{rule}: `<schema> = self._get_response_schema(...)` was not found in ResponseStrategyResolver.resolve (anchor)")
    sv = gets[0].targets[0].id
    sub = f"{rs.module.relpath}:ResponseStrategyResolver.resolve schema-less media type"
    if not places:
        rep.ok(rule, sub, "the loader stores no placeholder schema for a schema-less media type", rs.loc(gets[0]))
        return
    cls = rs.module.classes.get("ResponseStrategyResolver")
    getter = cls.methods.get("_get_response_schema") if cls else None
    in_getter = getter is not None and any(isinstance(x, ast.Attribute) and x.attr == "_from_unresolved_ref" or (isinstance(x, ast.Constant) and x.value == "_from_unresolved_ref") for x in ast.walk(getter.node))
    reset = [st for st in own_nodes(rs.node) if isinstance(st, ast.Assign) and any(isinstance(t, ast.Name) and t.id == sv for t in st.targets) and isinstance(st.value, ast.Constant) and st.value.value is None]
    guarded = False
    for st in reset:
        p = parent(st)
        while p is not None and not isinstance(p, ast.If):
            p = parent(p)
        if isinstance(p, ast.If) and any((isinstance(x, ast.Constant) and x.value == "_from_unresolved_ref") or (isinstance(x, ast.Attribute) and x.attr == "_from_unresolved_ref") for x in ast.walk(p.test)):
            guarded = True
    if in_getter or guarded:
        rep.ok(rule, sub, "the loader's empty placeholder is recognised and treated as 'no schema' before the media type is consulted", rs.loc(gets[0]))
    else:
        rep.violation(rule, sub, f"{rs.fq}|placeholder-schema-is-truthy",
                      f"`{sv}` is the loader's placeholder object for a media type without schema, so `if not {sv}` never holds: the inference `image/* -> bytes`, `text/* -> str` is skipped, "
                      "the return type becomes Any and the handler JSON-decodes a binary / text body (UnicodeDecodeError, JSONDecodeError, or the text `1.10` read as the number 1.1)", rs.loc(gets[0]))


# ------------------------------------------------------------------------------------------------ R5.18 a range-declared primary response gets an arm
def rule_range_primary_gets_an_arm(repo: Repo, rep, rule: str = "R5.18") -> None:
    """Signature, Protocol and mock follow the response strategy, and `_get_primary_response` accepts any key that starts with "2" - the range
    key `2XX` included.  The dispatch generator writes `case <int>:` arms for numeric keys only; unless it also writes a success arm guarded by
    the 2xx range, a `2XX` primary response has no arm: the method body contains no return (a conforming answer raises 'Unhandled status code')
    and, for a streamed response, no `yield` - the client method is a coroutine function while Protocol and mock are async generators."""
    from rules.c06 import _guard_codes

    rs = repo.module("types.strategies.response_strategy")
    sel = next((f for q, f in rs.functions.items() if q.endswith("._get_primary_response")), None)
    if sel is None:
        raise AnalysisError(f"{rule}: anchor vanished: _get_primary_response")
    accepts_range = any(isinstance(c.func, ast.Attribute) and c.func.attr == "startswith" and c.args and const_str(c.args[0]) == "2" for c in calls_in(sel.node))
    hmod = repo.module(HANDLER)
    gen = next((f for q, f in hmod.functions.items() if q.endswith(".generate_response_handling")), None)
    if gen is None:
        raise AnalysisError(f"{rule}: anchor vanished: generate_response_handling")
    sub = f"{hmod.relpath}:generate_response_handling success arm of a range-declared (2XX) primary response"
    if not accepts_range:
        rep.ok(rule, sub, "the strategy resolver selects numeric keys only: no range key can become the primary response", sel.loc())
        return

    def body(fn, r):
        arms = []
        for c in calls_in(fn.node):
            if isinstance(c.func, ast.Attribute) and c.func.attr == "write_line" and c.args:
                t = template_of(c.args[0], fn.node)
                txt = t.text.lstrip() if t is not None else ""
                if txt.startswith("case ") and " if " in txt:
                    codes = _guard_codes(txt)
                    if codes and codes <= set(range(200, 300)) and len(codes) == 100:
                        arms.append(c)
        good = None
        for c in arms:
            st = c
            while parent(st) is not None and not isinstance(st, ast.stmt):
                st = parent(st)
            blk = None
            p_ = parent(st)
            for fld in ("body", "orelse", "finalbody"):
                if p_ is not None and st in (getattr(p_, fld, None) or []):
                    blk = getattr(p_, fld)
            later = blk[blk.index(st) + 1:] if blk else []
            def _returns(x: ast.AST) -> bool:
                """the strategy's return writer, or - when it has been written out - the `return ...` / `yield ...` lines it emits"""
                if isinstance(x, ast.Call) and isinstance(x.func, ast.Attribute) and x.func.attr in ("_write_strategy_based_return", "_write_parsed_return"):
                    return True
                if isinstance(x, ast.Call) and isinstance(x.func, ast.Attribute) and x.func.attr == "write_line" and x.args:
                    t_ = template_of(x.args[0], fn.node)
                    return t_ is not None and t_.text.lstrip().startswith(("return ", "yield "))
                return False

            if any(_returns(x) for y in later for x in ast.walk(y)):
                good = c
        if good is not None:
            r.ok(rule, sub, "`case _ if 200 <= response.status_code < 300:` followed by the strategy's return / streaming loop", fn.loc(good))
        else:
            r.violation(rule, sub, f"{gen.fq}|no-arm-for-range-primary",
                        "the strategy resolver takes a `2XX` key as primary response (any key starting with 2), but the dispatch writes arms for numeric keys only: the generated "
                        "method never returns the declared body (and never yields: the client is a coroutine function where Protocol and mock are async generators)", fn.loc())

    with_flatten_fallback(rep, gen, body)
