"""C15 - spec text can never alter the structure of generated code.

R15.1  context-sensitive taint: every hole of every emitted template is classified by the lexical context it lands in
       (CODE / STRING / DOCSTRING / COMMENT, computed by running a Python lexer over the template's constant text); a value
       that derives from free spec text must pass the sanitizer of that context:
         CODE       identifier/type producers (NameSanitizer.*, generation_name, type service), int(), a complete literal
                    produced by json.dumps()/repr()
         STRING     json.dumps / repr / !r (whole literal) - a bare interpolation between quotes is never enough
         DOCSTRING  backslash *and* triple-quote escaping (or the central escaping of DocumentationWriter.render_docstring)
         COMMENT    every line boundary removed (splitlines()-join or replacement of \\n and \\r ...)
R15.2  documentation blocks: values handed to DocumentationBlock(...) land in a docstring; render_docstring must escape
R15.4  the sanitizers that are trusted in CODE positions (sanitize_method_name / _class_name / _module_name) produce
       valid identifiers for every input string                                              [abstract interpretation shared with C20]
R15.6  a plain value emitted as whole line(s) (write_line / write_block of a local, a call, a conditional) carries no spec text that
       bypassed every sanitizer on some way into it
R15.7  the line scanners that cut Protocol stubs / mock methods out of a rendered method end at the implementation signature: no docstring
       line (spec text) is ever tested for looking like code
R15.9  the member an enum-typed field default refers to is picked by value from the member list the enum generator emits (names are de-duplicated there:
       a name recomputed from the default's text selects another member for every value after the first of a collision group)
R15.8  the funnel every emitted line goes through (CodeWriter.write_line -> LineWriter.append) hands the text on unchanged: literals that carry
       meaning (enum values, wire keys, header names) are part of those lines - a character filter applied there rewrites them too
R15.5  json.dumps() used as a Python-literal maker for spec text passes ensure_ascii=False (non-BMP characters survive)
R15.3  emitted code is never re-split with str.splitlines() outside docstring/comment assembly (splitlines also splits at
       U+2028, U+0085, FF, VT ..., which Python's tokenizer does not treat as line ends)
"""
from __future__ import annotations

import ast
from typing import Dict, List, Optional, Set, Tuple

from sa.model import AnalysisError, Function, Module, Repo, calls_in, const_str, dotted, norm, own_nodes, parent
from sa.paths import Provenance
from sa.match import Locals
from sa.report import Report
from sa.templates import CODE, COMMENT, DOCSTRING, STRING, HOLE, LexState, Template, hole_contexts, lex_advance, template_of

EMIT_MODULE_PREFIXES = ("pyopenapi_gen.visit", "pyopenapi_gen.core.writers", "pyopenapi_gen.emitters", "pyopenapi_gen.helpers.endpoint_utils",
                        "pyopenapi_gen.generator")

# attribute reads that yield free spec text
# (the property's list: titles, summaries, descriptions, enum values, defaults, property names, parameter names, tags,
#  discriminator values, media types)
TAINT_ATTRS = {"description", "summary", "title", "default", "example", "enum", "property_name", "mapping", "tags", "content",
               "version", "original_name"}
# attribute reads that are spec-derived but *identifier-safe by construction* (set from NameSanitizer output)
SAFE_ATTRS = {"generation_name", "final_module_stem", "python_type", "return_type", "method", "value"}
# parameter / local names that carry free text by this code base's conventions
TAINT_NAMES = {"description", "summary", "desc", "docstring", "doc", "field_desc", "comment_text", "enum_description", "title", "default", "example",
               "prop_name", "api_field", "api_name", "original_name", "original_param_name", "original_header_name", "tag", "disc_value",
               "content_type", "content_type_lower", "media_type", "member_value", "val_from_spec", "raw_value",
               "enhanced_description", "base_description", "safe_desc_content", "spec_title", "spec_description", "op_description",
               "return_desc", "param_desc"}
# `value` is tainted where it iterates enum values
TAINT_SUBSCRIPT_KEYS = {"original_name", "description", "summary", "default"}

import re as _re

SAFE_NAME_RE = _re.compile(r"(name|names|cls|export|_type|type_hint|type_str|python_type|method|formatted_path|_path|upper\(\)|value\.upper\(\))$")

SANITIZERS_CODE = {"sanitize_class_name", "sanitize_module_name", "sanitize_method_name", "sanitize_tag_class_name", "sanitize_tag_attr_name",
                   "sanitize_filename", "get_exception_class_name", "_generate_member_name_for_string_enum",
                   "_generate_member_name_for_integer_enum", "int", "len", "str_int", "resolve_schema_type", "resolve_operation_response_type",
                   "get_param_type", "get_request_body_type", "_to_module_name", "normalize_tag_key", "bool"}
LITERAL_MAKERS = {"json.dumps", "repr"}


def _is_log_or_raise_context(n: ast.AST) -> bool:
    p = parent(n)
    while p is not None and not isinstance(p, ast.stmt):
        if isinstance(p, ast.Call):
            d = dotted(p.func) or ""
            if d.startswith(("logger.", "logging.", "warnings.", "self.logger.")) or d in ("print", "self._log_progress"):
                return True
            if d.endswith("Error") or d.endswith("Exception") or d in ("ValueError", "TypeError", "RuntimeError"):
                return True
        p = parent(p)
    return isinstance(p, (ast.Raise, ast.Assert))


TAINTED_PARAMS: Dict[str, Set[str]] = {}
HELPER_ESCAPES: Dict[str, Set[str]] = {}


def compute_helper_escapes(repo: Repo) -> None:
    """Escapes really applied by the repository's escape_docstring* helpers (read from their return expressions)."""
    HELPER_ESCAPES.clear()
    for mod in repo.modules.values():
        for q, fn in mod.functions.items():
            # an escaping helper is recognised by what it does, not by its name: a small function whose every return is its
            # (first) parameter passed through escaping replace() steps
            if "<locals>" in q or fn.cls is not None or not fn.params or len(fn.node.body) > 8:  # type: ignore[attr-defined]
                continue
            rets = [n for n in own_nodes(fn.node) if isinstance(n, ast.Return) and n.value is not None]
            HL = Locals(fn.node)
            rvs = [HL.inline(r.value, stop=tuple(HL.params)) for r in rets]
            ft = FnTaint(fn)
            direct = bool(rets) and all(any(isinstance(x, ast.Call) and isinstance(x.func, ast.Attribute) and x.func.attr == "replace" for x in ast.walk(rv))
                                        and any(isinstance(x, ast.Name) and x.id == fn.params[0] for x in ast.walk(rv)) for rv in rvs)
            # ... or the escaped text is kept in a local that gets a further step before it is returned (`escaped = text.replace(...)...; if ...: escaped = ...; return escaped`)
            via_local = bool(rets) and all(isinstance(r.value, ast.Name) and any(
                any(isinstance(x, ast.Call) and isinstance(x.func, ast.Attribute) and x.func.attr == "replace" for x in ast.walk(d)) and any(
                    isinstance(x, ast.Name) and x.id == fn.params[0] for x in ast.walk(d)) for d in ft.prov.defs.get(r.value.id, [])) for r in rets)
            if not (direct or via_local):
                continue
            esc: Optional[Set[str]] = None
            for r in rets:
                got = ft.escapes(r.value)
                esc = got if esc is None else (esc & got)
            if esc:
                # a final double quote is dealt with: the helper looks at the end of the escaped text (`<x>.endswith('"')`) and rewrites it
                if any(isinstance(c, ast.Call) and isinstance(c.func, ast.Attribute) and c.func.attr == "endswith" and c.args and const_str(c.args[0]) == '"' for c in ast.walk(fn.node)):
                    esc = esc | {"final-quote"}
                HELPER_ESCAPES[fn.name] = esc


CALL_ARGS: Dict[str, Dict[str, List[ast.AST]]] = {}  # callee fq -> parameter -> argument expressions at its call sites


def _literal_alternatives(e: ast.AST) -> Optional[List[str]]:
    """the string literals a constant / conditional expression of constants can evaluate to; None for anything else"""
    if isinstance(e, ast.Constant) and isinstance(e.value, str):
        return [e.value]
    if isinstance(e, ast.IfExp):
        a, b = _literal_alternatives(e.body), _literal_alternatives(e.orelse)
        return a + b if a is not None and b is not None else None
    return None


def compute_tainted_params(repo: Repo, mods: List[str]) -> None:
    """Inter-procedural step: a parameter is tainted when some call site in the emit modules passes spec text for it.
    Callees are resolved by method/function name inside the emit modules (over-approximation)."""
    TAINTED_PARAMS.clear()
    CALL_ARGS.clear()
    by_name: Dict[str, List[Function]] = {}
    fns: List[Function] = []
    for mn in mods:
        for fn in repo.modules[mn].functions.values():
            if "<locals>" in fn.qualname:
                continue
            fns.append(fn)
            by_name.setdefault(fn.name, []).append(fn)
    for _round in range(4):
        changed = False
        for fn in fns:
            ft = FnTaint(fn)
            for c in calls_in(fn.node):
                name = c.func.attr if isinstance(c.func, ast.Attribute) else (c.func.id if isinstance(c.func, ast.Name) else None)
                if name is None:
                    continue
                targets = list(by_name.get(name, []))
                if name[:1].isupper():
                    targets = [f for f in by_name.get("__init__", []) if f.cls is not None and f.cls.name == name]
                if not targets or len(targets) > 3:
                    continue
                for tgt in targets:
                    params = [p for p in tgt.params if p not in ("self", "cls")]
                    pairs = list(zip(params, c.args)) + [(k.arg, k.value) for k in c.keywords if k.arg in params]
                    if _round == 0:
                        for pname, arg in pairs:
                            # a local that is only ever bound to literals (`message = "a" if c else "b"`) is passed as those literals
                            exp = [arg]
                            if isinstance(arg, ast.Name):
                                ds = ft.prov.defs.get(arg.id, [])
                                if ds and arg.id not in fn.params and all(_literal_alternatives(d) is not None for d in ds):
                                    exp = list(ds)
                            for a_ in exp:
                                CALL_ARGS.setdefault(tgt.fq, {}).setdefault(pname, []).append(a_)
                    for pname, arg in pairs:
                        if pname in ("context", "writer", "self"):
                            continue
                        o = ft.origins(arg, STRING)
                        if any(k == "taint" for k, _ in o):
                            cur = TAINTED_PARAMS.setdefault(tgt.fq, set())
                            if pname not in cur:
                                cur.add(pname)
                                changed = True
        if not changed:
            break


TUPLE_TAINT: Dict[Tuple[str, str], Dict[int, bool]] = {}


def _record_source(e: ast.AST, L: "Locals", depth: int = 0) -> Optional[ast.AST]:
    """Chase element-preserving wrappers (`[f for f in xs if ...]`, sorted(xs), list(xs), a temporary) down to the expression the
    records come from."""
    while depth < 8:
        depth += 1
        if isinstance(e, ast.Name):
            v = L.single(e.id)
            if v is None:
                return e
            e = v
        elif isinstance(e, (ast.ListComp, ast.GeneratorExp)) and len(e.generators) == 1 and isinstance(e.elt, ast.Name) \
                and isinstance(e.generators[0].target, ast.Name) and e.elt.id == e.generators[0].target.id:
            e = e.generators[0].iter
        elif isinstance(e, ast.Call) and dotted(e.func) in ("sorted", "list", "tuple", "reversed", "filter") and e.args:
            e = e.args[-1] if dotted(e.func) == "filter" else e.args[0]
        else:
            return e
    return e


def compute_tuple_taints(repo: Repo, mods: List[str]) -> None:
    """Inter-procedural step for *records*: when a list of tuples built in one function is handed to another as an argument, the
    taint of each tuple position is computed where the tuples are built (not guessed from the names the consumer unpacks into)."""
    TUPLE_TAINT.clear()
    by_name: Dict[str, List[Function]] = {}
    fns: List[Function] = []
    for mn in mods:
        for fn in repo.modules[mn].functions.values():
            if "<locals>" in fn.qualname:
                continue
            fns.append(fn)
            by_name.setdefault(fn.name, []).append(fn)
    for fn in fns:
        L = Locals(fn.node)
        ft: Optional[FnTaint] = None
        built: Dict[str, List[ast.Tuple]] = {}
        for n in own_nodes(fn.node):
            if isinstance(n, ast.Call) and isinstance(n.func, ast.Attribute) and n.func.attr == "append" and isinstance(n.func.value, ast.Name) \
                    and n.args and isinstance(n.args[0], ast.Tuple):
                built.setdefault(n.func.value.id, []).append(n.args[0])
        if not built:
            continue
        for c in calls_in(fn.node):
            name = c.func.attr if isinstance(c.func, ast.Attribute) else (c.func.id if isinstance(c.func, ast.Name) else None)
            targets = by_name.get(name or "", [])
            if not targets or len(targets) > 3:
                continue
            for tgt in targets:
                params = [p for p in tgt.params if p not in ("self", "cls")]
                pairs = list(zip(params, c.args)) + [(k.arg, k.value) for k in c.keywords if k.arg in params]
                for pname, arg in pairs:
                    lists = [x.id for x in ast.walk(arg) if isinstance(x, ast.Name) and x.id in built]
                    for lv in lists:
                        ft = ft or FnTaint(fn)
                        slot = TUPLE_TAINT.setdefault((tgt.fq, pname), {})
                        for t in built[lv]:
                            for i, el in enumerate(t.elts):
                                tainted = any(k == "taint" for k, _ in ft.origins(el, STRING))
                                slot[i] = slot.get(i, False) or tainted


class FnTaint:
    """Flow-insensitive, function-local origin tracing of an expression."""

    def __init__(self, fn: Function):
        self.fn = fn
        self.prov = Provenance(fn)
        self.params = set(fn.params)

    def origins(self, e: ast.AST, ctx: str, depth: int = 0, seen: Optional[Set[str]] = None) -> List[Tuple[str, str]]:
        """[(kind, text)] with kind in taint | clean | unknown. Sanitizers appropriate for ctx stop the trace."""
        seen = seen or set()
        if isinstance(e, ast.Constant):
            return [("clean", "constant")]
        if isinstance(e, ast.FormattedValue):
            if e.conversion == ord("r"):
                return [("clean", "!r")]
            return self.origins(e.value, ctx, depth, seen)
        if isinstance(e, ast.JoinedStr):
            out = []
            for v in e.values:
                if isinstance(v, ast.FormattedValue):
                    out += self.origins(v, ctx, depth, seen)
            return out or [("clean", "constant")]
        if isinstance(e, ast.Call):
            name = dotted(e.func) or ""
            last = name.split(".")[-1]
            if name in LITERAL_MAKERS:
                return [("clean", f"{name}() builds a complete literal")] if ctx in (CODE, STRING) else self._args(e, ctx, depth, seen)
            if last in SANITIZERS_CODE or last.startswith("sanitize_"):
                return [("clean", f"{last}()")]
            if last.startswith(("format_", "render_", "_build_", "_get_cattrs", "_generate_untyped", "_generate_typed", "_get_field_default", "_get_extraction")):
                # a code-returning helper: what it returns is judged at its own emit (return) sites, where its holes are checked
                return [("clean", f"{last}() returns generated code (checked at its own templates)")]
            if last in HELPER_ESCAPES and {"backslash", "triple-quote"} <= HELPER_ESCAPES[last] and ctx == DOCSTRING:
                return [("clean", f"{last}()")]
            if last in ("replace", "strip", "lstrip", "rstrip", "lower", "upper", "title", "capitalize", "split", "join", "format", "get",
                        "splitlines", "rsplit", "removeprefix", "removesuffix", "expandtabs", "ljust", "rjust", "center", "encode", "decode"):
                out = []
                if isinstance(e.func, ast.Attribute):
                    out += self.origins(e.func.value, ctx, depth, seen)
                for a in e.args:
                    out += self.origins(a, ctx, depth, seen)
                # escaping recognised for the context
                if ctx == COMMENT and _removes_line_breaks(e):
                    return [("clean", "line breaks removed")]
                return out
            if last in ("str", "sorted", "list", "tuple", "set", "reversed", "enumerate", "zip", "dict", "min", "max", "cast", "dedent", "indent", "fill", "wrap"):
                return self._args(e, ctx, depth, seen)
            if last in ("isinstance", "len", "int", "float", "hasattr", "getattr") and last != "getattr":
                return [("clean", f"{last}()")]
            # unknown call: result treated as derived from receiver and arguments
            out = self._args(e, ctx, depth, seen)
            if isinstance(e.func, ast.Attribute):
                out += self.origins(e.func.value, ctx, depth, seen)
            return out or [("unknown", name)]
        if isinstance(e, ast.Attribute):
            if e.attr in SAFE_ATTRS:
                return [("clean", f".{e.attr}")]
            if e.attr in TAINT_ATTRS and norm(e.value) not in ("os", "self", "os.path"):
                return [("taint", norm(e))]
            if e.attr == "name":
                # schema.name is the *sanitised* class name in this code base; param.name / prop names are raw
                base = norm(e.value)
                if any(k in base for k in ("param", "p_", "prop", "header", "query", "field_")):
                    return [("taint", norm(e))]
                return [("clean", ".name (sanitised schema/class name)")]
            return self.origins(e.value, ctx, depth, seen)
        if isinstance(e, ast.Subscript):
            k = const_str(e.slice)
            if k in TAINT_SUBSCRIPT_KEYS:
                return [("taint", norm(e))]
            if k is not None:
                return [("clean", f"[{k!r}]")]
            return self.origins(e.value, ctx, depth, seen)
        if isinstance(e, ast.Name):
            if e.id in seen or depth > 6:
                return []
            defs = self.prov.defs.get(e.id, [])
            out: List[Tuple[str, str]] = []
            pos = self._record_position(e.id)
            if pos is not None:
                pname, idx = pos
                slot = TUPLE_TAINT.get((self.fn.fq, pname))
                if slot is not None and idx in slot:
                    # decided where the records are built (inter-procedural), not by the name they are unpacked into
                    # Only the *clean* verdict overrides the naming convention below: a position that can carry spec text in some
                    # producer branch may still be safe here through a correlated guard (e.g. `base_type == "str"`), which this
                    # analysis does not follow - those cases keep the convention-based judgement.
                    if not slot[idx]:
                        return [("clean", f"component {idx} of `{pname}` (built from sanitised values at every producer)")]
            if e.id in self.prov.tuple_bound and e.id not in TAINT_NAMES and not self._explicit_taint_def(e.id):
                # a component unpacked from a record: records mix raw spec text with derived identifiers; the
                # component's role is given by its name (tag vs class_name/module_name, field_desc vs name/type_hint)
                return [("component", f"record component `{e.id}`")]
            if e.id in self.params and e.id in TAINTED_PARAMS.get(self.fn.fq, set()):
                out.append(("taint", f"parameter {e.id}"))
            if e.id in TAINT_NAMES and (e.id in self.params or not defs):
                return [("taint", e.id)]
            if defs:
                for d in defs:
                    out += self.origins(d, ctx, depth + 1, seen | {e.id})
                if e.id in TAINT_NAMES and not any(k == "taint" for k, _ in out):
                    # a name that by convention carries spec text stays tainted unless it is rebuilt by a sanitizer
                    if not any(k == "clean" and txt.endswith("()") for k, txt in out) or any(k in ("param", "unknown") for k, _ in out):
                        out.append(("taint", e.id))
                return out
            if e.id in self.params:
                return out or [("param", e.id)]
            return [("clean", e.id)]
        if isinstance(e, ast.BinOp):
            return self.origins(e.left, ctx, depth, seen) + self.origins(e.right, ctx, depth, seen)
        if isinstance(e, ast.BoolOp):
            out = []
            for v in e.values:
                out += self.origins(v, ctx, depth, seen)
            return out
        if isinstance(e, ast.IfExp):
            return self.origins(e.body, ctx, depth, seen) + self.origins(e.orelse, ctx, depth, seen)
        if isinstance(e, (ast.Tuple, ast.List)):
            out = []
            for el in e.elts:
                out += self.origins(el, ctx, depth, seen)
            return out
        if isinstance(e, (ast.ListComp, ast.GeneratorExp)):
            return self.origins(e.elt, ctx, depth, seen)
        if isinstance(e, ast.Starred):
            return self.origins(e.value, ctx, depth, seen)
        return [("unknown", type(e).__name__)]

    def _record_position(self, name: str) -> Optional[Tuple[str, int]]:
        """(parameter, index) when `name` is bound by unpacking position `index` of the records of a parameter"""
        if not hasattr(self, "_L"):
            self._L = Locals(self.fn.node)
        for kind, v, _ in self._L.defs.get(name, []):
            if kind.endswith("-unpack") and isinstance(v, ast.Subscript) and isinstance(v.slice, ast.Constant) and isinstance(v.slice.value, int):
                src = _record_source(v.value, self._L)
                if isinstance(src, ast.Name) and self._L.is_param(src.id):
                    return src.id, v.slice.value
        return None

    def _explicit_taint_def(self, name: str) -> bool:
        """Is the name (also) assigned directly from a spec-text attribute somewhere in the function?"""
        for d in self.prov.defs.get(name, []):
            cands = [d]
            if isinstance(d, ast.BoolOp):
                cands = list(d.values)
            elif isinstance(d, ast.IfExp):
                cands = [d.body, d.orelse]
            elif isinstance(d, ast.Call) and dotted(d.func) == "str" and d.args:
                cands = [d.args[0]]
            for x in cands:
                if isinstance(x, ast.Attribute) and x.attr in TAINT_ATTRS:
                    return True
        return False

    def _args(self, e: ast.Call, ctx: str, depth: int, seen: Set[str]) -> List[Tuple[str, str]]:
        out: List[Tuple[str, str]] = []
        for a in e.args:
            out += self.origins(a, ctx, depth, seen)
        for k in e.keywords:
            out += self.origins(k.value, ctx, depth, seen)
        return out

    def _mentions(self, e: ast.AST, name: str, depth: int = 0) -> bool:
        for x in ast.walk(e):
            if isinstance(x, ast.Name):
                if x.id == name:
                    return True
                if depth < 2:
                    ds = self.prov.defs.get(x.id, [])
                    if len(ds) == 1 and self._mentions(ds[0], name, depth + 1):
                        return True
        return False

    # ------------------------------------------------------------------ escapes applied on the way to a hole
    def escapes(self, e: ast.AST, depth: int = 0, seen: Optional[Set[str]] = None) -> Set[str]:
        """Which escaping operations does the value of e certainly pass through? Along one expression the escapes
        accumulate; over alternative definitions of a name only the common ones count."""
        seen = seen or set()
        out: Set[str] = set()
        for n in ast.walk(e):
            if isinstance(n, ast.Call) and isinstance(n.func, ast.Attribute) and n.func.attr == "replace" and len(n.args) == 2:
                a, b = const_str(n.args[0]), const_str(n.args[1])
                if a == "\\" and b == "\\\\":
                    out.add("backslash")
                if a == '"""' and b is not None and '"""' not in b:
                    out.add("triple-quote")
                if a == "\n":
                    out.add("lf")
                if a == "\r":
                    out.add("cr")
            if isinstance(n, ast.Call) and isinstance(n.func, ast.Attribute) and n.func.attr == "splitlines":
                out.add("splitlines")
            if isinstance(n, ast.Call) and (dotted(n.func) or "").split(".")[-1] in HELPER_ESCAPES:
                out |= HELPER_ESCAPES.get((dotted(n.func) or "").split(".")[-1], set())
            if isinstance(n, ast.Name) and n.id not in seen and depth < 5:
                defs = self.prov.defs.get(n.id, [])
                if defs:
                    common: Optional[Set[str]] = None
                    chained: Set[str] = set()
                    for d in defs:
                        if isinstance(d, ast.Constant) or (isinstance(d, (ast.List, ast.Dict)) and not ast.dump(d).count("Name")):
                            continue  # constant initialisers carry no spec text
                        got = self.escapes(d, depth + 1, seen | {n.id})
                        if self._mentions(d, n.id):
                            chained |= got  # `x = x.replace(...)` (also through a local: `body = x[:-1]; x = body + ...`): a further step on the same value, not an alternative
                        else:
                            common = got if common is None else (common & got)
                    out |= (common or set()) | chained
        return out


TRIMS = {"strip", "rstrip", "lstrip", "removesuffix", "removeprefix", "split", "rsplit", "partition", "rpartition", "splitlines", "expandtabs", "translate"}


def _is_escape_step(e: ast.AST) -> bool:
    for n in ast.walk(e):
        if isinstance(n, ast.Call) and isinstance(n.func, ast.Attribute) and n.func.attr == "replace" and len(n.args) == 2 and const_str(n.args[0]) in ("\\", '"""'):
            return True
        if isinstance(n, ast.Call) and (dotted(n.func) or "").split(".")[-1] in HELPER_ESCAPES:
            return True
    return False


def _trim_after_escape(fn: Function, h: ast.AST) -> Optional[ast.AST]:
    """A step that removes characters from an already escaped value (`x = x.replace('\\', ...)` ... `x = x.rstrip('"')`, `esc(x)[:80]`):
    escaping is only meaningful as the *last* transformation - removing characters afterwards can cut an escape sequence in half
    (backslash-quote x3 -> backslash-quote x2 + backslash), and the dangling backslash then escapes whatever follows the hole.  Returns the offending step."""
    def trims(e: ast.AST, inner_escaped: bool) -> Optional[ast.AST]:
        # a trimming call / slice applied (directly, in this expression) to a sub-expression that contains an escape step
        for n in ast.walk(e):
            if isinstance(n, ast.Call) and isinstance(n.func, ast.Attribute) and n.func.attr in TRIMS and (inner_escaped or _is_escape_step(n.func.value)):
                if n.func.attr in ("splitlines", "split") and not inner_escaped:
                    continue
                return n
            if isinstance(n, ast.Subscript) and isinstance(n.slice, ast.Slice) and (inner_escaped or _is_escape_step(n.value)):
                return n
        return None

    t = trims(h, False)
    if t is not None:
        return t
    if not isinstance(h, ast.Name):
        return None
    steps = []
    for st in own_nodes(fn.node):
        if isinstance(st, ast.Assign) and len(st.targets) == 1 and isinstance(st.targets[0], ast.Name) and st.targets[0].id == h.id:
            steps.append(st)
    steps.sort(key=lambda s_: s_.lineno)
    escaped = False
    for st in steps:
        self_ref = any(isinstance(x, ast.Name) and x.id == h.id for x in ast.walk(st.value))
        if not self_ref:
            escaped = _is_escape_step(st.value)
            t = trims(st.value, False)
            if t is not None:
                return t
            continue
        if escaped:
            # a further step on the escaped value: only escapes may follow
            for n in ast.walk(st.value):
                if isinstance(n, ast.Call) and isinstance(n.func, ast.Attribute) and n.func.attr in TRIMS and any(isinstance(x, ast.Name) and x.id == h.id for x in ast.walk(n.func.value)):
                    return n
                if isinstance(n, ast.Subscript) and isinstance(n.slice, ast.Slice) and any(isinstance(x, ast.Name) and x.id == h.id for x in ast.walk(n.value)):
                    return n
        if _is_escape_step(st.value):
            escaped = True
    return None


def _through_local_helper(fn: Function, h: ast.AST) -> ast.AST:
    """`helper(x)` where helper is a function defined inside `fn` (or a plain function of its module) whose body is one `return <expr>`:
    the hole is judged as that expression with the argument substituted (a one-line wrapper around json.dumps / an escaper stays visible)."""
    if not (isinstance(h, ast.Call) and isinstance(h.func, ast.Name) and not h.keywords):
        return h
    cands = [n for n in ast.walk(fn.node) if isinstance(n, ast.FunctionDef) and n.name == h.func.id and n is not fn.node]
    if not cands and h.func.id in fn.module.functions:
        cands = [fn.module.functions[h.func.id].node]  # type: ignore[list-item]
    if len(cands) != 1:
        return h
    body = [s_ for s_ in cands[0].body if not (isinstance(s_, ast.Expr) and isinstance(s_.value, ast.Constant))]
    params = [a.arg for a in cands[0].args.args]
    if len(body) != 1 or not isinstance(body[0], ast.Return) or body[0].value is None or len(params) != len(h.args):
        return h
    from sa.match import clone

    sub = dict(zip(params, h.args))

    class _S(ast.NodeTransformer):
        def visit_Name(self, n: ast.Name) -> ast.AST:  # noqa: N802
            return clone(sub[n.id]) if n.id in sub and isinstance(n.ctx, ast.Load) else n

    return ast.fix_missing_locations(_S().visit(clone(body[0].value)))


def _removes_line_breaks(e: ast.Call) -> bool:
    txt = norm(e)
    return ".splitlines()" in txt and ".join(" in txt


EMIT_CALLS = {"write_line", "write_block", "write_lines", "write_wrapped_line", "write_function_signature", "append_line"}
CODE_RETURNING_PREFIXES = ("format_", "render_", "_build_", "_get_cattrs", "_generate_untyped", "_generate_typed", "_get_field_default", "_get_extraction")


def _emit_templates(fn: Function) -> List[Tuple[ast.AST, Template, str]]:
    """(node, template, how): f-strings of the function. how = 'line' when the whole string is emitted as code
    (argument of a writer call, a variable passed to one, an element of a lines list, the return value of a code-returning
    helper); 'piece' for other f-strings (text composition) - for those only holes whose context is fixed by the template
    itself (inside quotes, a docstring or after `#`) are judged."""
    line_vars: Set[str] = set()
    for c in calls_in(fn.node):
        if isinstance(c.func, ast.Attribute) and c.func.attr in EMIT_CALLS and c.args and isinstance(c.args[0], ast.Name):
            line_vars.add(c.args[0].id)
    out = []
    for n in own_nodes(fn.node):
        if isinstance(n, ast.BinOp) and isinstance(n.op, ast.Add):
            # string concatenations are templates too (`"  # " + " ".join(...)`): the outermost `+` chain with a literal part
            if isinstance(parent(n), ast.BinOp) and isinstance(parent(n).op, ast.Add):  # type: ignore[union-attr]
                continue
            if any(isinstance(x, ast.JoinedStr) for x in ast.walk(n)):
                continue  # its f-string parts are examined on their own
            t0 = template_of(n, const_names=fn.node)
            if t0 is None or not any(isinstance(p_, str) and p_ for p_ in t0.parts):
                continue
        elif not isinstance(n, ast.JoinedStr):
            continue
        par = parent(n)
        if isinstance(par, (ast.JoinedStr, ast.FormattedValue)):
            continue
        if _is_log_or_raise_context(n):
            continue
        t = template_of(n, const_names=fn.node)
        if t is None or not t.holes:
            continue
        how = "piece"
        if isinstance(par, ast.Call) and isinstance(par.func, ast.Attribute) and par.func.attr in EMIT_CALLS and par.args and par.args[0] is n:
            how = "line"
        elif isinstance(par, (ast.Assign, ast.AugAssign)) and any(isinstance(tg, ast.Name) and tg.id in line_vars
                                                                 for tg in (par.targets if isinstance(par, ast.Assign) else [par.target])):
            how = "line"
        elif isinstance(par, ast.Return) and fn.name.startswith(CODE_RETURNING_PREFIXES):
            how = "line"
        elif isinstance(par, ast.Call) and isinstance(par.func, ast.Attribute) and par.func.attr in ("append", "extend") and \
                any(k in norm(par.func.value) for k in ("lines", "content", "statements", "parts")) and "doc" not in norm(par.func.value):
            how = "line"
        elif isinstance(par, ast.List) and isinstance(parent(par), (ast.Assign, ast.AnnAssign)) and \
                any(k in norm(parent(par)).split("=")[0] for k in ("lines", "content", "imports", "body")):
            how = "line"
        if how == "piece" and t.text.count("\n") >= 3 and ("class " in t.text or "def " in t.text):
            how = "block"
        out.append((n, t, how))
    return out


def run(repo: Repo, rep: Report, tier: str) -> None:
    from sa.report import guarded as _guarded

    _guarded(rep, rule_enum_member_values_verbatim, repo, rep, "R15.10")

    live = repo.import_closure(["generator.client_generator"])
    mods = [m for m in live if m.startswith(EMIT_MODULE_PREFIXES)]
    n_holes = 0
    by_ctx: Dict[str, int] = {CODE: 0, STRING: 0, DOCSTRING: 0, COMMENT: 0}
    compute_helper_escapes(repo)
    rep.count("R15.2:escape_helpers", {k: sorted(v) for k, v in HELPER_ESCAPES.items()})
    rep.require(any({"backslash", "triple-quote"} <= v for v in HELPER_ESCAPES.values()) or not HELPER_ESCAPES,
                f"R15.2: no docstring escape helper applies both escapes: {HELPER_ESCAPES}") if False else None
    compute_tainted_params(repo, mods)
    compute_tuple_taints(repo, mods)
    rep.count("R15.1:tainted_parameters", {k.split(":")[1]: sorted(v) for k, v in sorted(TAINTED_PARAMS.items())})
    central_doc_escape = _render_docstring_escapes(repo)
    rep.count("R15.2:render_docstring_escapes", sorted(central_doc_escape))
    for mn in mods:
        mod = repo.modules[mn]
        for fn in mod.functions.values():
            if "<locals>" in fn.qualname:
                continue
            ft: Optional[FnTaint] = None
            for node, t, how in _emit_templates(fn):
                holes, _ = hole_contexts(t)
                for h, st, idx in holes:
                    n_holes += 1
                    by_ctx[st.kind] += 1
                    if how not in ("line", "block") and st.kind != COMMENT:
                        continue  # text composition: judged where it finally lands (R15.2 / the enclosing template) - except after a `#`
                        # that the piece itself opens: whatever follows on that line is a comment wherever the piece lands
                    ft = ft or FnTaint(fn)
                    h = _through_local_helper(fn, h)
                    conv = t.convs.get(idx, -1)
                    if conv == ord("r"):
                        rep.ok("R15.1", f"{mod.relpath}:{fn.qualname} hole `{norm(h)[:40]}` ({st.kind})", "!r conversion", fn.loc(node))
                        continue
                    orig = ft.origins(h, st.kind)
                    tainted = sorted({txt for k, txt in orig if k == "taint"})
                    if not tainted and st.kind == STRING and how == "line":
                        # between quotes of a code line a value must be *known* identifier-like
                        unproven = sorted({txt for k, txt in orig if k in ("param", "unknown", "component") and not SAFE_NAME_RE.search(txt.strip("`").split(" ")[-1].strip("`"))}
                                          | ({norm(h)} if isinstance(h, ast.Name) and not orig else set()))
                        leaf = norm(h)
                        # a parameter that only ever receives plain literals (no quote, backslash or line break) at its call sites
                        if isinstance(h, ast.Name) and h.id in fn.params:
                            args_ = CALL_ARGS.get(fn.fq, {}).get(h.id, [])
                            if args_ and all(_literal_alternatives(a) is not None and not any(ch in v_ for v_ in (_literal_alternatives(a) or []) for ch in '"\'\\\n\r') for a in args_):
                                unproven = []
                        if unproven and not SAFE_NAME_RE.search(leaf.split(".")[-1]):
                            tainted = [f"{u} (not known to be identifier-like)" for u in unproven]
                    if not tainted:
                        # escaped by a helper and therefore "clean" - but only as long as nothing removes characters from it afterwards
                        cut0 = _trim_after_escape(fn, h) if st.kind == DOCSTRING and any(k == "clean" for k, _ in orig) else None
                        if cut0 is not None:
                            rep.violation("R15.1", f"{mod.relpath}:{fn.qualname} hole `{norm(h)[:40]}` in {st.kind} of `{t.text.replace(HOLE, '{}').strip()[:50]}`",
                                          f"{fn.fq}|{st.kind}|{norm(h)[:50]}|trim-after-escape",
                                          f"characters are removed after the escaping (`{norm(cut0)[:50]}`): an escape sequence can be cut in half (`\\\"\\\"\\\"` -> `\\\"\\\"\\`) and the "
                                          "dangling backslash escapes the quote that follows the hole - the docstring swallows the code after it", fn.loc(node))
                        continue  # not spec text (identifier-safe or constant): nothing to prove
                    esc = ft.escapes(h)
                    sub = f"{mod.relpath}:{fn.qualname} hole `{norm(h)[:40]}` in {st.kind} of `{t.text.replace(HOLE, '{}').strip()[:50]}`"
                    ok, why = _sanitized_for(st, esc, h)
                    if ok and st.kind == DOCSTRING:
                        # the hole ends directly at the closing delimiter (`"""Alias for {text}"""`): a final `"` of the text merges with it
                        after = t.text.split(HOLE)[[i_ for i_, (h_, _, ix_) in enumerate(holes) if ix_ == idx][0] + 1] if t.text.count(HOLE) == len(holes) else ""
                        if after.startswith('"""') and "final-quote" not in esc:
                            ok, why = False, ("the text ends directly at the closing `\"\"\"`: a description that ends with a double quote (`e.g. \"urgent\"`) makes four quotes "
                                              "in a row - the literal ends one character early and the file does not parse; the last quote has to be escaped as well")
                    if ok and st.kind == DOCSTRING:
                        cut = _trim_after_escape(fn, h)
                        if cut is not None:
                            ok, why = False, (f"characters are removed after the escaping (`{norm(cut)[:50]}`): an escape sequence can be cut in half "
                                              "(`\\\"\\\"\\\"` -> `\\\"\\\"\\`) and the dangling backslash escapes the quote that follows the hole")
                    if ok:
                        rep.ok("R15.1", sub, why, fn.loc(node))
                    else:
                        rep.violation("R15.1", sub, f"{fn.fq}|{st.kind}|{norm(h)[:50]}|{t.text.replace(HOLE, '{}').strip()[:40]}",
                                      f"spec text ({', '.join(tainted)[:80]}) is interpolated into a {st.kind} position without the escaping that context needs: {why}",
                                      fn.loc(node))
            # R15.2 DocumentationBlock construction sites
            for c in calls_in(fn.node):
                if dotted(c.func) == "DocumentationBlock":
                    ft = ft or FnTaint(fn)
                    tainted = []
                    for k in c.keywords:
                        o = ft.origins(k.value, DOCSTRING)
                        if any(kind == "taint" for kind, _ in o):
                            esc = ft.escapes(k.value)
                            if not ({"backslash", "triple-quote"} <= esc):
                                tainted.append(k.arg)
                    sub = f"{mod.relpath}:{fn.qualname} DocumentationBlock({', '.join(k.arg or '' for k in c.keywords)})"
                    if not tainted:
                        rep.ok("R15.2", sub, "no free spec text among the fields (or escaped locally)", fn.loc(c))
                    elif {"backslash", "triple-quote"} <= central_doc_escape:
                        rep.ok("R15.2", sub, f"fields {tainted} carry spec text; DocumentationWriter.render_docstring escapes backslashes and triple quotes centrally", fn.loc(c))
                    else:
                        rep.violation("R15.2", sub, f"{fn.fq}|docblock|{tainted}",
                                      f"fields {tainted} carry free spec text into a docstring and render_docstring applies no escaping "
                                      f"(has: {sorted(central_doc_escape)}): `\"\"\"` or a trailing backslash in a description ends the docstring early", fn.loc(c))
    # ---------------------------------------------------------------- R15.6 whole lines that are not templates
    # `writer.write_line(x)` / `write_block(x)` with x a plain value (a local, a call, a conditional) emits x as complete source lines;
    # the lexical context is whatever the preceding lines opened.  Free spec text is acceptable there only if it went through *some*
    # context's sanitizer on every way into x (docstring escaping, line-break removal, a literal maker, an identifier producer):
    # a value that is raw under every context - e.g. one arm of a conditional that skips the escaping - can close the docstring it sits in.
    n_bare = 0
    for mn in mods:
        mod = repo.modules[mn]
        if mn.endswith(("code_writer", "line_writer")):
            continue  # the writers themselves pass their argument through
        for fn in mod.functions.values():
            if "<locals>" in fn.qualname:
                continue
            ft6: Optional[FnTaint] = None
            for c in calls_in(fn.node):
                if not (isinstance(c.func, ast.Attribute) and c.func.attr in ("write_line", "write_block", "append_line") and c.args):
                    continue
                a = c.args[0]
                if isinstance(a, (ast.JoinedStr, ast.Constant)) or (isinstance(a, ast.BinOp) and isinstance(a.op, ast.Add)):
                    continue  # a template: R15.1
                # the value written out through plain local assignments / conditionals (no loops, no containers: what a list of lines holds
                # is judged where each line is built); a read of a free-text attribute that no call encloses is raw under every context
                L6 = Locals(fn.node)

                def _raw_reads(e: ast.AST, depth: int = 0, seen: Optional[Set[str]] = None) -> List[str]:
                    seen = seen or set()
                    if isinstance(e, ast.Attribute):
                        if e.attr in TAINT_ATTRS and norm(e.value) not in ("os", "self", "os.path"):
                            return [norm(e)]
                        return []
                    if isinstance(e, ast.Name):
                        if e.id in seen or depth > 4:
                            return []
                        out_: List[str] = []
                        for k_, v_, _ in L6.defs.get(e.id, []):
                            if k_ == "assign" and v_ is not None and not isinstance(v_, ast.JoinedStr):
                                out_ += _raw_reads(v_, depth + 1, seen | {e.id})
                        return out_
                    if isinstance(e, ast.IfExp):
                        return _raw_reads(e.body, depth, seen) + _raw_reads(e.orelse, depth, seen)
                    if isinstance(e, ast.BoolOp):
                        return [r_ for v_ in e.values for r_ in _raw_reads(v_, depth, seen)]
                    if isinstance(e, ast.Call) and dotted(e.func) == "str" and e.args:
                        return _raw_reads(e.args[0], depth, seen)
                    return []  # any other call / template / subscript: judged by the context-sensitive rules

                raw_everywhere = sorted(set(_raw_reads(a)))
                n_bare += 1
                sub = f"{mod.relpath}:{fn.qualname} emits `{norm(a)[:50]}` as whole line(s)"
                if raw_everywhere:
                    rep.violation("R15.6", sub, f"{fn.fq}|raw-line|{norm(a)[:40]}",
                                  f"spec text ({', '.join(raw_everywhere)[:80]}) can reach this emit without having passed any sanitizer (not on every way into `{norm(a)[:30]}`): "
                                  "inside the docstring the surrounding lines open, `\"\"\"` in a description ends the docstring and the rest is parsed as code", fn.loc(c))
                else:
                    rep.ok("R15.6", sub, "no unsanitised spec text reaches this whole-line emit", fn.loc(c))
    rep.count("R15.6:bare_value_emits", n_bare)
    rep.require(n_bare >= 10, f"R15.6: only {n_bare} whole-line emits of plain values found (floor 10)")
    rep.count("R15.1:template_holes", n_holes)
    rep.count("R15.1:holes_by_context", by_ctx)
    rep.require(n_holes >= 350, f"R15.1: only {n_holes} template holes found (floor 350)")
    rep.require(by_ctx[STRING] >= 15 and by_ctx[DOCSTRING] >= 10 and by_ctx[COMMENT] >= 3, f"R15.1: context classification collapsed: {by_ctx}")

    # ---------------------------------------------------------------- R15.4 the CODE-context sanitizers really produce identifiers
    # (string-shape abstract interpretation of C20 applied to the two sanitizers that guard CODE positions for free text:
    #  property / parameter names -> sanitize_method_name, schema names -> sanitize_class_name / sanitize_module_name)
    from rules import c20

    ns = repo.module("core.utils").classes.get("NameSanitizer")
    if ns is None:
        raise AnalysisError("anchor vanished: NameSanitizer")
    for fname in ("sanitize_method_name", "sanitize_class_name", "sanitize_module_name"):
        f = ns.methods.get(fname)
        if f is None:
            raise AnalysisError(f"anchor vanished: NameSanitizer.{fname}")
        c20._shape_rule(f, c20.SANITIZERS[fname], _Relabel(rep, "R15.4"))

    # ---------------------------------------------------------------- R15.5 literal makers keep non-BMP text intact
    # json.dumps() with its default ensure_ascii=True writes an astral character as a surrogate *pair* (\\ud83d\\udd25); a Python string
    # literal does not recombine the pair, so the emitted literal evaluates to two lone surrogates - a different (and un-encodable) string.
    n_dumps = 0
    for mn in mods:
        mod = repo.modules[mn]
        for fn in mod.functions.values():
            ft5: Optional[FnTaint] = None
            for c in calls_in(fn.node):
                if dotted(c.func) != "json.dumps" or not c.args or _is_log_or_raise_context(c):
                    continue
                ft5 = ft5 or FnTaint(fn)
                if not any(k == "taint" for k, _ in ft5.origins(c.args[0], STRING)):
                    continue
                n_dumps += 1
                sub = f"{mod.relpath}:{fn.qualname} json.dumps(<spec text>) #{sum(1 for x in calls_in(fn.node) if dotted(x.func) == 'json.dumps' and x.lineno <= c.lineno)}"
                ea = next((k.value for k in c.keywords if k.arg == "ensure_ascii"), None)
                if isinstance(ea, ast.Constant) and ea.value is False:
                    rep.ok("R15.5", sub, f"`{norm(c)[:60]}`: ensure_ascii=False, every character is written as itself", fn.loc(c))
                else:
                    rep.violation("R15.5", sub, f"{fn.fq}|dumps-ascii|{norm(c.args[0])[:30]}",
                                  f"`{norm(c)[:60]}` turns spec text into a Python literal with JSON's ASCII escaping: a character outside the BMP becomes a "
                                  "surrogate pair, which Python does not recombine - the literal no longer evaluates to the original string", fn.loc(c))
    rep.count("R15.5:json_dumps_of_spec_text", n_dumps)
    rep.require(n_dumps >= 6, f"R15.5: only {n_dumps} json.dumps(<spec text>) literal makers found (floor 6)")

    # ---------------------------------------------------------------- R15.9 an enum default names the member that has the default's value
    _guarded(rep, rule_enum_default_by_value, repo, rep, "R15.9")
    # ---------------------------------------------------------------- R15.8 the line funnel is the identity
    _guarded(rep, rule_writer_funnel_is_identity, repo, rep, "R15.8")
    # ---------------------------------------------------------------- R15.3 re-splitting of emitted code
    allowed_splitlines = {
        # (function, reason): assembling docstring/comment text, where every resulting line stays inside that docstring/comment
    }
    n_sl = 0
    for mn in mods:
        mod = repo.modules[mn]
        for fn in mod.functions.values():
            for c in calls_in(fn.node):
                if isinstance(c.func, ast.Attribute) and c.func.attr == "splitlines":
                    recv = norm(c.func.value)
                    n_sl += 1
                    sub = f"{mod.relpath}:{fn.qualname} splitlines() #{sum(1 for x in calls_in(fn.node) if isinstance(x.func, ast.Attribute) and x.func.attr == 'splitlines' and x.lineno <= c.lineno)}"
                    FL = Locals(fn.node)
                    src = FL.inline(c.func.value, stop=tuple(FL.params))
                    calls = [(dotted(x.func) or (x.func.attr if isinstance(x.func, ast.Attribute) else "")) for x in ast.walk(src) if isinstance(x, ast.Call)]
                    last = [d.split(".")[-1] for d in calls]
                    in_code_writer = fn.cls is not None and fn.cls.name == "CodeWriter"
                    # where does the text come from?
                    code_src = None
                    if any(l == "get_code" for l in last):
                        code_src = "the result of get_code()"
                    elif in_code_writer and fn.name != "write_block":
                        code_src = "text handled by the code writer"
                    elif in_code_writer and fn.name == "write_block":
                        # write_block is handed whatever its callers pass: finished method / class code among it
                        for mn2 in mods:
                            for f2 in repo.modules[mn2].functions.values():
                                for c2 in calls_in(f2.node):
                                    if isinstance(c2.func, ast.Attribute) and c2.func.attr == "write_block" and c2.args:
                                        a2 = c2.args[0]
                                        L2 = Locals(f2.node)
                                        src2 = L2.inline(a2, stop=tuple(L2.params))
                                        made = any(isinstance(x, ast.Call) and isinstance(x.func, ast.Attribute) and x.func.attr in ("generate", "get_code", "visit", "render") for x in ast.walk(src2))
                                        named = any(isinstance(x, ast.Name) and "code" in x.id.lower() for x in ast.walk(a2))
                                        if (made or named) and code_src is None:
                                            code_src = f"finished code handed to write_block by {f2.qualname}"
                    elif any(l in ("render_dataclass", "render_enum", "render_alias", "render_class", "generate", "visit") for l in last):
                        code_src = f"generated code returned by {[l for l in last if l in ('render_dataclass', 'render_enum', 'render_alias', 'render_class', 'generate', 'visit')][0]}()"
                    elif any(l == "getvalue" for l in last) and not mn.endswith("documentation_writer"):
                        code_src = "a code buffer (getvalue())"
                    # a probe: the pieces are only counted / tested (any / all / len / sum), never re-emitted
                    anc = parent(c)
                    probe = False
                    while anc is not None and not isinstance(anc, ast.stmt):
                        if isinstance(anc, ast.Call) and dotted(anc.func) in ("any", "all", "len", "sum", "bool"):
                            probe = True
                        anc = parent(anc)
                    if probe:
                        rep.ok("R15.3", sub, f"`{recv[:40]}.splitlines()` is only probed (any/all/len): nothing of it is emitted", fn.loc(c))
                        continue
                    if code_src is None:
                        why = ("docstring text produced by the documentation writer" if any(l in ("render_docstring",) for l in last) or mn.endswith("documentation_writer")
                               else "file / process output that is only compared or logged" if any(l in ("read_text", "read") for l in last) or "stdout" in recv
                               else "text handed in by the caller (docstring / comment / block assembly); its holes are subject to R15.1")
                        rep.ok("R15.3", sub, f"`{recv[:40]}.splitlines()`: {why}", fn.loc(c))
                    else:
                        rep.violation("R15.3", sub, f"{fn.fq}|resplit",
                                      f"generated code ({code_src}: `{recv[:40]}`) is re-split with str.splitlines(): it also splits at U+2028/U+2029/U+0085/FF/VT/FS-RS, which the "
                                      "Python tokenizer does not treat as line ends, so text inside a comment or string literal can become code", fn.loc(c))
    rep.count("R15.3:splitlines_sites", n_sl)
    _guarded(rep, rule_scanner_stops_at_signature, repo, rep, "R15.7")


def _sanitized_for(st: LexState, esc: Set[str], hole: ast.AST) -> Tuple[bool, str]:
    if st.kind == CODE:
        return False, "a CODE position needs an identifier/type producer or a complete literal (json.dumps/repr)"
    if st.kind == STRING:
        return False, f"between {st.quote} quotes only a complete literal producer (json.dumps / repr / !r) is safe; a quote or backslash in the text ends or corrupts the literal"
    if st.kind == DOCSTRING:
        if {"backslash", "triple-quote"} <= esc:
            return True, "backslashes and triple quotes are escaped before interpolation"
        return False, f"a docstring needs backslash and triple-quote escaping (applied: {sorted(esc) or 'none'})"
    if st.kind == COMMENT:
        if "splitlines" in esc or {"lf", "cr"} <= esc:
            return True, "all line boundaries are removed before the text is appended to a `#` comment"
        return False, f"a comment needs every line boundary removed (applied: {sorted(esc) or 'none'}); a bare CR starts a new source line"
    return False, "?"


def _render_docstring_escapes(repo: Repo) -> Set[str]:
    """Escapes applied by DocumentationWriter.render_docstring to *everything* between the quotes: an assignment
    `L[1:] = [helper(x) for x in L[1:]]` (or a join over such a comprehension) after which only constants are appended."""
    mod = repo.module("core.writers.documentation_writer")
    cls = mod.classes.get("DocumentationWriter")
    if cls is None or "render_docstring" not in cls.methods:
        raise AnalysisError("anchor vanished: DocumentationWriter.render_docstring")
    fn = cls.methods["render_docstring"]
    body = list(fn.node.body)  # type: ignore[attr-defined]
    rets = [n for n in body if isinstance(n, ast.Return) and n.value is not None]
    if len(rets) != 1:
        return set()
    ret = rets[0]
    lvars = {x.id for x in ast.walk(ret.value) if isinstance(x, ast.Name)}
    esc: Set[str] = set()
    for i, st in enumerate(body):
        if not (isinstance(st, ast.Assign) and isinstance(st.targets[0], ast.Subscript) and isinstance(st.targets[0].value, ast.Name)
                and st.targets[0].value.id in lvars and isinstance(st.value, ast.ListComp)):
            continue
        lv = st.targets[0].value.id
        comp = st.value
        sl = st.targets[0].slice
        covers = isinstance(sl, ast.Slice) and sl.upper is None and (sl.lower is None or (isinstance(sl.lower, ast.Constant) and sl.lower.value in (0, 1)))
        over_same = lv in norm(comp.generators[0].iter) and not comp.generators[0].ifs
        call = comp.elt if isinstance(comp.elt, ast.Call) else None
        if not (covers and over_same and call is not None):
            continue
        helper = (dotted(call.func) or "").split(".")[-1]
        got = HELPER_ESCAPES.get(helper, set())
        # after this statement only constants may be added and the result returned
        tail_ok = True
        for later in body[i + 1:]:
            if later is ret:
                continue
            if isinstance(later, ast.Expr) and isinstance(later.value, ast.Call) and isinstance(later.value.func, ast.Attribute) \
                    and later.value.func.attr == "append" and later.value.args and isinstance(later.value.args[0], ast.Constant):
                continue
            tail_ok = False
        if tail_ok:
            esc |= got
    if not esc:
        # second shape: `return "\n".join([quotes, *[helper(x) for x in body], quotes])` - every non-constant element of the
        # returned sequence goes through the escaping comprehension
        from sa.match import Locals as _L15

        RL = _L15(fn.node)
        rv = RL.inline(ret.value, stop=tuple(RL.params))
        if isinstance(rv, ast.Call) and isinstance(rv.func, ast.Attribute) and rv.func.attr == "join" and len(rv.args) == 1 and isinstance(rv.args[0], (ast.List, ast.Tuple)):
            per: List[Set[str]] = []
            ok = True
            for el in rv.args[0].elts:
                if isinstance(el, ast.Constant) and isinstance(el.value, str):
                    continue
                v = el.value if isinstance(el, ast.Starred) else None
                if isinstance(v, ast.ListComp) and not v.generators[0].ifs and len(v.generators) == 1 and isinstance(v.elt, ast.Call) and len(v.elt.args) == 1 \
                        and isinstance(v.elt.args[0], ast.Name) and isinstance(v.generators[0].target, ast.Name) and v.elt.args[0].id == v.generators[0].target.id:
                    per.append(set(HELPER_ESCAPES.get((dotted(v.elt.func) or "").split(".")[-1], set())))
                else:
                    ok = False
            if ok and per:
                esc = set.intersection(*per)
    return esc


class _Relabel:
    def __init__(self, rep, rule):
        self.rep, self.rule = rep, rule

    def ok(self, rule, *a, **k):
        self.rep.ok(self.rule, *a, **k)

    def violation(self, rule, *a, **k):
        self.rep.violation(self.rule, *a, **k)

    def require(self, *a, **k):
        self.rep.require(*a, **k)

    def error(self, *a, **k):
        self.rep.error(*a, **k)

    def count(self, *a, **k):
        pass


# ------------------------------------------------------------------------------------------------ R15.7 the line scanners over rendered methods stop at the signature
def rule_scanner_stops_at_signature(repo: Repo, rep, rule: str = "R15.7") -> None:
    """Protocol stubs and mock methods are cut out of the text EndpointMethodGenerator renders, by scanning it line by line for lines that
    *look like* code (`@overload`, `async def ...(`).  Everything after the implementation's signature is the docstring - spec text - and the
    body.  The scan is sound only because it ends there: once something has been written for the implementation signature, every way back
    to the head of the scanning loop sets the index to `len(lines)` (or leaves the loop).  A scan that merely steps on would take a
    description line `async def drop_all(...):` for a method and emit a stub for it."""
    from sa.cfg import CFG, guards

    sites = [("Protocol stubs", "visit.endpoint.endpoint_visitor:EndpointVisitor.generate_endpoint_protocol"),
             ("mock methods", "visit.endpoint.generators.mock_generator:MockGenerator._transform_to_mock")]
    n_ok = 0
    def _scans(f) -> bool:
        def _def_test(node) -> bool:
            return any(isinstance(c, ast.Call) and isinstance(c.func, ast.Attribute) and c.func.attr == "startswith" and c.args
                       and (const_str(c.args[0]) or "").startswith("async def") for c in ast.walk(node))
        if any(isinstance(w, ast.While) and isinstance(w.test, ast.Compare) and isinstance(w.test.comparators[0], ast.Call) and dotted(w.test.comparators[0].func) == "len"
               for w in own_nodes(f.node)) and f.cls is not None and any(
                isinstance(c, ast.Call) and isinstance(c.func, ast.Attribute) and c.func.attr in f.cls.methods and f.cls.methods[c.func.attr] is not f
                and isinstance(parent(c), (ast.If, ast.BoolOp, ast.UnaryOp)) and _def_test(f.cls.methods[c.func.attr].node) and not any(
                    isinstance(w2, (ast.While, ast.For)) for w2 in ast.walk(f.cls.methods[c.func.attr].node)) for c in ast.walk(f.node)):
            return True
        return any(isinstance(w, ast.While) and isinstance(w.test, ast.Compare) and isinstance(w.test.ops[0], ast.Lt) for w in own_nodes(f.node)) and any(isinstance(c, ast.Call) and isinstance(c.func, ast.Attribute) and c.func.attr == "startswith" and c.args
                                                       and any((const_str(a_) or "").startswith("async def") for a_ in (c.args[0].elts if isinstance(c.args[0], ast.Tuple) else [c.args[0]]))
                                                       for c in ast.walk(f.node))

    for label, spec in sites:
        fn0 = repo.func(spec)
        if not _scans(fn0) and fn0.cls is not None:
            # the scan was moved into a helper of the class (`self._write_protocol_stubs(writer, full_method_code)`): judge it where it is
            moved = [f for f in fn0.cls.methods.values() if f is not fn0 and _scans(f)]
            if len(moved) == 1:
                fn0 = moved[0]

        def body(fn, r, label=label):
            nonlocal n_ok
            L = Locals(fn.node)
            cfg = CFG(fn.node)
            dom = cfg.dominators()
            # the scanning loop: the outermost `while <i> < len(<lines>)` whose <lines> is a split of rendered code
            def _len_of(e: ast.AST) -> Optional[str]:
                """`len(<name>)`, directly or through a local (`total = len(source_lines)`) -> <name>"""
                ei = e
                if isinstance(e, ast.Name) and L.single(e.id) is not None:
                    ei = L.single(e.id)
                if isinstance(ei, ast.Call) and dotted(ei.func) == "len" and ei.args and isinstance(ei.args[0], ast.Name):
                    return ei.args[0].id
                return None

            whiles = [w for w in own_nodes(fn.node) if isinstance(w, ast.While) and isinstance(w.test, ast.Compare) and len(w.test.ops) == 1 and isinstance(w.test.ops[0], ast.Lt)
                      and isinstance(w.test.left, ast.Name) and _len_of(w.test.comparators[0]) is not None]
            outer = [w for w in whiles if not any(w is not o and any(x is w for x in ast.walk(o)) for o in whiles)]
            if not outer:
                # a `for` scan cannot step back: leaving the signature branch with `break` / `return` is the only way on
                fors = [f_ for f_ in own_nodes(fn.node) if isinstance(f_, ast.For) and any(isinstance(c, ast.Call) and isinstance(c.func, ast.Attribute) and c.func.attr == "startswith"
                                                                                              and c.args and (const_str(c.args[0]) or "").startswith("async def") for c in ast.walk(f_))]
                if fors:
                    raise AnalysisError(f"{rule}: {fn.qualname} scans the rendered method with a `for` loop - the stop condition of this form is not modelled")
                raise AnalysisError(f"{rule}: the line-scanning loop (`while i < len(lines)`) of {fn.qualname} was not found (anchor)")
            w = outer[0]
            idx, lines = w.test.left.id, _len_of(w.test.comparators[0])
            heads = [n.id for n in cfg.nodes if n.kind == "test" and n.stmt is w]
            if not heads:
                raise AnalysisError(f"{rule}: CFG node of the scanning loop of {fn.qualname} not found")
            # statements that end the scan: `i = len(lines)`
            ends = {n.id for n in cfg.nodes if n.kind == "stmt" and isinstance(n.ast, ast.Assign) and len(n.ast.targets) == 1 and isinstance(n.ast.targets[0], ast.Name)
                    and n.ast.targets[0].id == idx and _len_of(n.ast.value) == lines}
            # emissions made for the implementation signature: write_line calls under a positive `startswith("async def ")` test
            def _sees_def(t: ast.AST, depth: int = 0) -> bool:
                """the test looks for the start of a `def` / `async def` line - itself, or through a predicate helper of the class"""
                ti = L.inline(t, stop=tuple(L.params)) if depth == 0 else t
                for c in ast.walk(ti):
                    if isinstance(c, ast.Call) and isinstance(c.func, ast.Attribute) and c.func.attr == "startswith" and c.args and any(
                            (const_str(a_) or "").startswith(("async def", "def ")) for a_ in (c.args[0].elts if isinstance(c.args[0], ast.Tuple) else [c.args[0]])):
                        return True
                    if depth == 0 and isinstance(c, ast.Call) and isinstance(c.func, ast.Attribute) and fn.cls is not None and c.func.attr in fn.cls.methods and fn.cls.methods[c.func.attr] is not fn:
                        if _sees_def(fn.cls.methods[c.func.attr].node, 1):
                            return True
                return False

            def _sees_prefix(t: ast.AST, prefix: str) -> bool:
                ti = L.inline(t, stop=tuple(L.params))
                return any(isinstance(c, ast.Call) and isinstance(c.func, ast.Attribute) and c.func.attr == "startswith" and c.args and any(
                    (const_str(a_) or "").startswith(prefix) for a_ in (c.args[0].elts if isinstance(c.args[0], ast.Tuple) else [c.args[0]])) for c in ast.walk(ti))

            starts = []
            wnames = {a for a in L.params if "writer" in a} | {nm for nm, ds in L.defs.items() if any(v is not None and "CodeWriter" in norm(v) for _, v, _ in ds)}

            def _emits(a: ast.AST) -> bool:
                """writes a line itself, or hands the writer to a helper (`self._write_final_signature_stub(writer, lines, i)`)"""
                for c in calls_in(a):
                    if isinstance(c.func, ast.Attribute) and c.func.attr in ("write_line", "write_block"):
                        return True
                    if any(isinstance(x, ast.Name) and x.id in wnames for x in c.args) and not (isinstance(c.func, ast.Attribute) and isinstance(c.func.value, ast.Name) and c.func.value.id in wnames):
                        return True
                return False

            for n in cfg.nodes:
                if n.kind != "stmt" or n.ast is None or n.copy or not _emits(n.ast):
                    continue
                gs_ = [(g, pol) for g, pol in guards(cfg, n.id, dom) if g.kind == "test"]
                inside = any(g.stmt is w for g, _ in gs_) or any(x is n.ast for x in ast.walk(w))
                if not inside:
                    continue
                if any(pol is True and _sees_def(g.ast) for g, pol in gs_):
                    starts.append(n)
                elif not any(pol is True and _sees_prefix(g.ast, "@overload") for g, pol in gs_) and any(pol is False and _sees_prefix(g.ast, "@overload") for g, pol in gs_):
                    starts.append(n)  # reached by elimination: not an @overload line (that branch left the iteration), so the definition line
            if not starts:
                raise AnalysisError(f"{rule}: nothing is written under a `startswith('async def ')` test in {fn.qualname} (anchor)")
            # the index is not moved again once it has been set to the end (before the loop head is reached)
            idx_moves = {n.id for n in cfg.nodes if n.kind == "stmt" and n.id not in ends and isinstance(n.ast, (ast.Assign, ast.AugAssign)) and any(
                isinstance(t, ast.Name) and t.id == idx for t in (n.ast.targets if isinstance(n.ast, ast.Assign) else [n.ast.target]))}
            moved_after_end = any(cfg.reachable_from_without(e, set(heads)) & idx_moves for e in ends)
            wit = None
            for s_ in starts:
                p_ = cfg.must_pass(s_.id, ends, set(heads))
                if p_ is None:
                    continue
                # ... or the index was already set to the end on every way to this emission
                gnodes = [g for g, pol in guards(cfg, s_.id, dom) if g.kind == "test" and pol is True and _sees_def(g.ast)]
                set_before = bool(gnodes) and not moved_after_end and all(
                    cfg.must_pass(m, ends, {s_.id}) is None for g in gnodes for m, lab in cfg.succ[g.id] if lab == "true")
                if not set_before:
                    wit = (s_, p_)
                    break
            sub = f"{fn.module.relpath}:{fn.qualname} scan of the rendered method ends at the implementation signature"
            if wit is None:
                n_ok += 1
                r.ok(rule, sub, f"{len(starts)} emission(s) for the signature: every way back to `while {idx} < len({lines})` passes `{idx} = len({lines})`", fn.loc(w))
            else:
                r.violation(rule, sub, f"{fn.fq}|scan-continues-into-docstring",
                            f"after the {label} signature has been written the scan can go on with the next line ({cfg.describe_path(wit[1])[:160]}): the lines that follow are the "
                            "docstring, i.e. spec text - a description line that starts with `async def ` and contains `(` is copied into the generated class as a method",
                            fn.loc(wit[0].ast))

        from sa.report import with_flatten_fallback

        try:
            with_flatten_fallback(rep, fn0, body)
        except AnalysisError as e:
            rep.error(str(e))  # this rule lost its anchor: the other rules of the property go on
    rep.count(f"{rule}:scanners", len(sites))


# ------------------------------------------------------------------------------------------------ R15.8 the writer funnel hands lines on unchanged
def rule_writer_funnel_is_identity(repo: Repo, rep, rule: str = "R15.8") -> None:
    """Every emitted line - comments and docstrings, but also the lines that hold `json.dumps(...)` literals of enum values, wire keys, header and
    query names, discriminator values, media types - passes through `CodeWriter.write_line(line)` and `LineWriter.append(text)`.  Sanitising is
    the business of the code that knows the lexical context (R15.1); a transformation in the funnel (`re.sub`, `replace`, `translate`, `strip`,
    `encode`...) is applied to the meaningful literals as well and they no longer evaluate to the document's strings.  Decided: the text
    parameter reaches the store / the next funnel stage as the parameter itself (plain name, or prefixed by the indentation)."""
    cw = repo.module("core.writers.code_writer")
    lw = repo.module("core.writers.line_writer")
    sites = []
    wl = cw.classes["CodeWriter"].methods.get("write_line") if "CodeWriter" in cw.classes else None
    ap = lw.classes["LineWriter"].methods.get("append") if "LineWriter" in lw.classes else None
    if wl is None or ap is None:
        raise AnalysisError(f"{rule}: anchor vanished: CodeWriter.write_line / LineWriter.append")
    for fn in (wl, ap):
        p0 = [a for a in fn.params if a != "self"]
        if not p0:
            raise AnalysisError(f"{rule}: {fn.qualname} has no text parameter (anchor)")
        par = p0[0]
        sub = f"{fn.module.relpath}:{fn.qualname} hands `{par}` on unchanged"
        # any re-binding of the parameter, or any use of it as receiver / argument of a rewriting call
        rewrites = []
        for x in own_nodes(fn.node):
            if isinstance(x, (ast.Assign, ast.AugAssign, ast.AnnAssign)):
                tg = x.targets if isinstance(x, ast.Assign) else [x.target]
                if any(isinstance(t, ast.Name) and t.id == par for t in tg):
                    rewrites.append(x)
            if isinstance(x, ast.Call):
                recv = x.func.value if isinstance(x.func, ast.Attribute) else None
                if isinstance(recv, ast.Name) and recv.id == par and x.func.attr in ("replace", "translate", "strip", "rstrip", "lstrip", "encode", "expandtabs", "lower", "upper",
                                                                                      "casefold", "title", "format", "removeprefix", "removesuffix", "splitlines", "split"):
                    rewrites.append(x)
                d = dotted(x.func) or ""
                if d.split(".")[-1] in ("sub", "subn", "normalize", "fill", "wrap", "shorten", "dedent") and any(isinstance(a, ast.Name) and a.id == par for a in x.args):
                    rewrites.append(x)
        if rewrites:
            rep.violation(rule, sub, f"{fn.fq}|funnel-rewrites-lines|{norm(rewrites[0])[:40]}",
                          f"`{norm(rewrites[0])[:70]}`: every emitted line is rewritten here, the ones that carry `json.dumps` literals included - an enum value, wire key, header or query "
                          "name that contains such a character no longer evaluates to the document's string (the file still parses, nothing is reported)", fn.loc(rewrites[0]))
        else:
            rep.ok(rule, sub, "the text is stored / passed on as it was handed in", fn.loc())


# ------------------------------------------------------------------------------------------------ R15.9 enum defaults are resolved by value
def rule_enum_default_by_value(repo: Repo, rep, rule: str = "R15.9") -> None:
    """`EnumGenerator.generate` renames colliding members (`<`, `=` -> MEMBER_..., MEMBER_..._1; `DESC`, `desc` -> DESC, DESC_1).  A field default is
    emitted as `<Enum>.<MEMBER>`: if the member name is computed from the *text of the default* (free spec text) by the naming function alone, it is
    the first member of the collision group for every value of the group - `default: "="` evaluates to `"<"`.  Decided: in
    `DataclassGenerator._get_field_default` the name part of `f"{enum}.{member}"` is bound by iterating the generator's member list (or no
    member name is emitted at all, e.g. `Enum(value)`), never assigned from a `_generate_member_name_*` call."""
    dg = repo.module("visit.model.dataclass_generator")
    fn = dg.classes["DataclassGenerator"].methods.get("_get_field_default") if "DataclassGenerator" in dg.classes else None
    if fn is None:
        raise AnalysisError(f"{rule}: anchor vanished: DataclassGenerator._get_field_default")
    L = Locals(fn.node)
    n = 0
    for r in own_nodes(fn.node):
        if not (isinstance(r, ast.Return) and isinstance(r.value, ast.JoinedStr)):
            continue
        parts = r.value.values
        txt = "".join(v.value if isinstance(v, ast.Constant) else "{}" for v in parts)
        if txt != "{}.{}":
            continue
        holes = [v.value for v in parts if isinstance(v, ast.FormattedValue)]
        member = holes[1]
        n += 1
        sub = f"{dg.relpath}:_get_field_default `{norm(r.value)[:50]}`"
        bad = None
        if isinstance(member, ast.Name):
            for kind, v, _ in L.defs.get(member.id, []):
                if kind == "assign" and v is not None and any(isinstance(c, ast.Call) and isinstance(c.func, ast.Attribute) and c.func.attr.startswith("_generate_member_name") for c in ast.walk(v)):
                    bad = v
        elif any(isinstance(c, ast.Call) and isinstance(c.func, ast.Attribute) and c.func.attr.startswith("_generate_member_name") for c in ast.walk(member)):
            bad = member
        if bad is not None:
            rep.violation(rule, sub, f"{fn.fq}|enum-default-member-recomputed",
                          f"`{norm(bad)[:70]}`: the member name is recomputed from the text of the default, without the de-duplication `EnumGenerator.generate` applies - for enum values "
                          "whose names collide (`<` / `=`, `DESC` / `desc`, `m/s` / `ms`) the emitted default is another member than the document states", fn.loc(r))
        else:
            rep.ok(rule, sub, "the member is taken from the enum generator's own member list, by value", fn.loc(r))
    if n == 0:
        rep.ok(rule, f"{dg.relpath}:_get_field_default enum defaults", "no `<Enum>.<MEMBER>` default is emitted (defaults are not resolved to member names)", fn.loc())


_R1510_TRANSFORMS = {"strip", "lstrip", "rstrip", "lower", "upper", "title", "capitalize", "casefold", "swapcase", "replace", "translate", "expandtabs",
                     "removeprefix", "removesuffix", "split", "rsplit", "splitlines", "join", "partition", "encode", "zfill", "center", "ljust", "rjust", "sub"}
_R1510_EXAMPLE = '''
def _generate_members(self, schema):
    values = []
    for raw in schema.enum or []:
        member_value = str(raw).strip()
        name = self._name_for(member_value)
        values.append((name, member_value))
    return values
'''


def _r1510_members(fn_node: ast.AST) -> tuple[int, list[tuple[str, ast.AST]]]:
    """(value carriers found, [(name, transforming construct)]) for loops over `<schema>.enum` that collect (member name, member value) pairs."""
    n_val = 0
    bad: list[tuple[str, ast.AST]] = []
    for lp in ast.walk(fn_node):
        if not isinstance(lp, ast.For) or not any(isinstance(a, ast.Attribute) and a.attr == "enum" for a in ast.walk(lp.iter)):
            continue
        carriers: set[str] = set()
        for c in ast.walk(lp):
            pair = None
            if isinstance(c, ast.Call) and isinstance(c.func, ast.Attribute) and c.func.attr == "append" and c.args and isinstance(c.args[0], ast.Tuple) and len(c.args[0].elts) == 2:
                pair = c.args[0]
            elif isinstance(c, ast.Yield) and isinstance(c.value, ast.Tuple) and len(c.value.elts) == 2:
                pair = c.value
            elif isinstance(c, ast.Assign) and len(c.targets) == 1 and isinstance(c.targets[0], ast.Subscript):
                pair = ast.Tuple(elts=[c.targets[0].slice, c.value], ctx=ast.Load())  # members[name] = value
            if pair is not None:
                v = pair.elts[1]
                if isinstance(v, ast.Name):
                    carriers.add(v.id)
                else:
                    n_val += 1
                    bad += [("<pair>", x) for x in ast.walk(v) if _r1510_is_transform(x)]
        # chase plain copies backwards
        changed = True
        while changed:
            changed = False
            for st in ast.walk(lp):
                if isinstance(st, ast.Assign) and len(st.targets) == 1 and isinstance(st.targets[0], ast.Name) and st.targets[0].id in carriers:
                    for x in ast.walk(st.value):
                        if isinstance(x, ast.Name) and x.id not in carriers and not (isinstance(parent(x), ast.Call) and parent(x).func is x):
                            # only through builtin conversions / str methods, never through helper calls (those derive *names*)
                            up = parent(x)
                            through_helper = False
                            while up is not None and up is not st:
                                if isinstance(up, ast.Call) and not (isinstance(up.func, ast.Name) and up.func.id in ("str", "int", "float", "repr")) and not (
                                        isinstance(up.func, ast.Attribute) and up.func.attr in _R1510_TRANSFORMS):
                                    through_helper = True
                                up = parent(up)
                            if not through_helper and isinstance(lp.target, ast.Name) and x.id != lp.target.id and any(
                                    isinstance(s2, ast.Assign) and any(isinstance(t, ast.Name) and t.id == x.id for t in s2.targets) for s2 in ast.walk(lp)):
                                carriers.add(x.id)
                                changed = True
        n_val += len(carriers)
        for st in ast.walk(lp):
            tg = st.targets[0] if isinstance(st, ast.Assign) and len(st.targets) == 1 else st.target if isinstance(st, (ast.AnnAssign, ast.AugAssign)) else None
            if isinstance(tg, ast.Name) and tg.id in carriers and getattr(st, "value", None) is not None:
                bad += [(tg.id, x) for x in ast.walk(st.value) if _r1510_is_transform(x)]
    return n_val, bad


def _r1510_is_transform(x: ast.AST) -> bool:
    if isinstance(x, ast.Call) and isinstance(x.func, ast.Attribute) and x.func.attr in _R1510_TRANSFORMS:
        return True
    return isinstance(x, ast.Subscript) and isinstance(x.slice, ast.Slice)


def rule_enum_member_values_verbatim(repo: Repo, rep, rule: str = "R15.10") -> None:
    """The literal of an enum member is the document's value: between `schema.enum` and the value half of the (name, value) pairs there is a
    conversion to the base type and nothing else.  A trim / case fold / replace / slice on the way (`str(v).strip()`, reasonable for the member
    *name*) emits a different string than the API uses, and two values that differ only in what was removed collapse under `@unique`."""
    n, bad = _r1510_members(ast.parse(_R1510_EXAMPLE).body[0])
    rep.require(n >= 1 and len(bad) == 1, f"{rule}: the built-in positive example is no longer recognised - the rule is broken")
    total = 0
    hits = []
    anchor = None
    for mod in repo.modules.values():
        if not mod.name.endswith("enum_generator"):
            continue
        anchor = mod
        for q, fn in sorted(mod.functions.items()):
            if "<locals>" in q:
                continue
            k, bad = _r1510_members(fn.node)
            total += k
            hits += [(mod, q, fn, nm, x) for nm, x in bad]
    if anchor is None:
        raise AnalysisError(f"{rule}: anchor vanished: enum_generator")
    rep.count(f"{rule}:value_carriers", total)
    rep.require(total >= 1, f"{rule}: no (name, value) pair built from `schema.enum` found in {anchor.relpath}")
    for mod, q, fn, nm, x in hits:
        rep.violation(rule, f"{mod.relpath}:{q} value of an enum member (`{nm}`)", f"{mod.name}:{q}|enum-value-transformed|{norm(x)[:40]}",
                      f"`{norm(x)[:60]}` rewrites the value that becomes the member's literal: the generated enum no longer evaluates to the document's string "
                      "(outer whitespace, case, ...), and values that differ only there collide", fn.loc(x))
    if not hits:
        rep.ok(rule, f"{anchor.relpath}: enum member values reach the literal converted to the base type only", f"{total} value carriers", f"{anchor.relpath}:1")
