"""Memo tables local to one function call: `T = {}` ... `if K not in T: T[K] = f(...)` ... `use T[K]`.

The entry computed for one key is served for every later occurrence of that key, so the key must determine everything that varies
between occurrences: every loop variable (or name assigned inside a loop) the stored value is computed from must occur in the key.
Function parameters do not vary during the table's lifetime and are not required in the key."""
from __future__ import annotations

import ast
from typing import List, Set, Tuple

from sa.match import Locals
from sa.model import Repo, dotted, norm, own_nodes

_EXAMPLE = '''
def load(items, ctx):
    seen = {}
    out = []
    for code, node in items:
        name = node["$ref"].split("/")[-1]
        if name not in seen:
            seen[name] = parse(str(code), node, ctx)
        out.append(seen[name])
    return out
'''


def _loop_varying(fn: ast.AST) -> Set[str]:
    """names bound by a loop header or assigned inside a loop body"""
    out: Set[str] = set()
    for lp in ast.walk(fn):
        if isinstance(lp, (ast.For, ast.AsyncFor)):
            out |= {x.id for x in ast.walk(lp.target) if isinstance(x, ast.Name)}
        if isinstance(lp, (ast.For, ast.AsyncFor, ast.While)):
            for st in ast.walk(lp):
                if isinstance(st, ast.Assign):
                    for t in st.targets:
                        out |= {x.id for x in ast.walk(t) if isinstance(x, ast.Name) and isinstance(x.ctx, ast.Store)}
                elif isinstance(st, (ast.AnnAssign, ast.AugAssign)) and isinstance(st.target, ast.Name):
                    out.add(st.target.id)
    return out


def local_memo_hazards(fn: ast.AST) -> Tuple[List[Tuple[str, str, List[str], ast.AST]], int]:
    """([(table, key text, loop-varying names missing from the key, store node)], number of local memo tables)"""
    L = Locals(fn)
    tables = {n for n, ds in L.defs.items() if ds and all(
        k == "assign" and v is not None and ((isinstance(v, ast.Dict) and not v.keys) or (isinstance(v, ast.Call) and dotted(v.func) in ("dict", "OrderedDict") and not v.args and not v.keywords))
        for k, v, _ in ds)}
    varying = _loop_varying(fn)
    out = []
    n_tables = 0
    for st in own_nodes(fn):
        if not (isinstance(st, ast.Assign) and len(st.targets) == 1 and isinstance(st.targets[0], ast.Subscript) and isinstance(st.targets[0].value, ast.Name)
                and st.targets[0].value.id in tables):
            continue
        t = st.targets[0].value.id
        if not any(isinstance(x, ast.Call) for x in ast.walk(st.value)):
            continue  # a plain registration
        reads = [n for n in own_nodes(fn) if (
            (isinstance(n, ast.Compare) and len(n.ops) == 1 and isinstance(n.ops[0], (ast.In, ast.NotIn)) and isinstance(n.comparators[0], ast.Name) and n.comparators[0].id == t)
            or (isinstance(n, ast.Subscript) and isinstance(n.ctx, ast.Load) and isinstance(n.value, ast.Name) and n.value.id == t)
            or (isinstance(n, ast.Call) and isinstance(n.func, ast.Attribute) and n.func.attr == "get" and isinstance(n.func.value, ast.Name) and n.func.value.id == t))]
        if not reads:
            continue
        n_tables += 1
        stop = tuple(L.params) + tuple(varying & {n for n, ds in L.defs.items() if any(k.startswith("for") for k, _, _ in ds)})
        key = L.inline(st.targets[0].slice, stop=stop)
        val = L.inline(st.value, stop=stop)
        key_names = {x.id for x in ast.walk(key) if isinstance(x, ast.Name)}
        used = [x.id for x in ast.walk(val) if isinstance(x, ast.Name) and x.id in varying and x.id not in L.params]
        missing = sorted({u for u in used if u not in key_names and u != t})
        if missing:
            out.append((t, norm(st.targets[0].slice), missing, st))
    return out, n_tables


def local_memo_rule(repo: Repo, rep, rule: str, prefixes: Tuple[str, ...], why: str) -> None:
    ex = ast.parse(_EXAMPLE).body[0]
    hz, _ = local_memo_hazards(ex)
    rep.require(len(hz) == 1 and hz[0][2] == ["code"], f"{rule}: the built-in positive example is no longer recognised - the rule is broken")
    n_fn = n_tab = n_bad = 0
    for m in repo.modules.values():
        if not any(("." + m.name + ".").find("." + p + ".") >= 0 for p in prefixes):
            continue
        for q, f in m.functions.items():
            n_fn += 1
            hz, nt = local_memo_hazards(f.node)
            n_tab += nt
            for t, key, missing, st in hz:
                n_bad += 1
                rep.violation(rule, f"{m.relpath}:{q} memo `{t}`", f"{m.name}:{q}|local-memo-key-incomplete|{t}|{','.join(missing)}",
                              f"`{norm(st)[:90]}`: the entry is computed from {missing} as well, which change from one occurrence of `{key}` to the next, but it is "
                              f"stored and re-used under `{key}` alone. {why}", f"{m.relpath}:{st.lineno}")
    rep.count(f"{rule}:functions", n_fn)
    rep.count(f"{rule}:local_memo_tables", n_tab)
    rep.require(n_fn >= 5, f"{rule}: only {n_fn} functions analysed under {prefixes} (floor 5)")
    if not n_bad:
        rep.ok(rule, f"functions under {', '.join(prefixes)}", f"{n_fn} functions, {n_tab} call-local memo table(s): every key covers the loop-varying inputs of the stored value",
               "src/pyopenapi_gen:1")


# ------------------------------------------------------------------------------------------------ memo tables that outlive the call
_EXAMPLE2 = '''
def render(self, op, context):
    code = self._cache.get(op.operation_id)
    if code is None:
        code = self._cache[op.operation_id] = build(op, context)
    return code
'''


def _deps(fn: ast.AST, roots: Set[str], params: Set[str]) -> Set[str]:
    """parameters the given local names (transitively) depend on: right-hand sides of their assignments, arguments of method calls and
    subscript stores on them, iterables of the loops that bind them"""
    defs = {}
    for st in ast.walk(fn):
        if isinstance(st, ast.Assign):
            for t in st.targets:
                for x in ast.walk(t):
                    if isinstance(x, ast.Name) and isinstance(x.ctx, ast.Store):
                        defs.setdefault(x.id, []).append(st.value)
                    if isinstance(x, ast.Subscript) and isinstance(x.value, ast.Name):
                        defs.setdefault(x.value.id, []).append(st.value)
                        defs.setdefault(x.value.id, []).append(x.slice)
        elif isinstance(st, (ast.AnnAssign, ast.AugAssign)) and isinstance(st.target, ast.Name) and st.value is not None:
            defs.setdefault(st.target.id, []).append(st.value)
        elif isinstance(st, (ast.For, ast.AsyncFor, ast.comprehension)):
            for x in ast.walk(st.target):
                if isinstance(x, ast.Name):
                    defs.setdefault(x.id, []).append(st.iter)
        elif isinstance(st, ast.Call) and isinstance(st.func, ast.Attribute) and isinstance(st.func.value, ast.Name) and st.func.attr in ("append", "extend", "add", "update", "setdefault", "insert"):
            for a in st.args:
                defs.setdefault(st.func.value.id, []).append(a)
        elif isinstance(st, ast.withitem) and st.optional_vars is not None:
            for x in ast.walk(st.optional_vars):
                if isinstance(x, ast.Name):
                    defs.setdefault(x.id, []).append(st.context_expr)
    seen: Set[str] = set()
    out: Set[str] = set()
    work = list(roots)
    while work:
        n = work.pop()
        if n in seen:
            continue
        seen.add(n)
        if params is not None and n in params:
            out.add(n)
        for v in defs.get(n, []):
            for x in ast.walk(v):
                if isinstance(x, ast.Name) and x.id not in seen:
                    work.append(x.id)
    return out if params is not None else seen


def name_closure(fn: ast.AST, roots: Set[str]) -> Set[str]:
    """every local / parameter name the given names transitively depend on (see _deps)"""
    return _deps(fn, roots, None)  # type: ignore[arg-type]


def persistent_memo_hazards(fn: ast.AST, private_attr) -> Tuple[List[Tuple[str, str, List[str], ast.AST]], int]:
    """Memo tables kept on an object (`self._cache`, `context.parsed_x`) and used by this function only (`private_attr(name)`):
    ([(table, key text, parameters the stored value depends on that the key does not mention, store node)], number of such tables)."""
    a = fn.args
    params = {x.arg for x in a.args + a.kwonlyargs}
    out = []
    n_tables = 0
    for st in own_nodes(fn):
        if not isinstance(st, ast.Assign):
            continue
        subs = [t for t in st.targets if isinstance(t, ast.Subscript) and isinstance(t.value, ast.Attribute) and isinstance(t.value.value, ast.Name)]
        if not subs:
            continue
        t = subs[0]
        owner, attr = t.value.value.id, t.value.attr
        if not private_attr(attr):
            continue
        if isinstance(st.value, ast.Name) and st.value.id in params:
            continue  # a plain registration of an argument (`table[name] = node`): nothing computed is being cached
        reads = [n for n in own_nodes(fn) if (
            (isinstance(n, ast.Compare) and len(n.ops) == 1 and isinstance(n.ops[0], (ast.In, ast.NotIn)) and isinstance(n.comparators[0], ast.Attribute) and n.comparators[0].attr == attr)
            or (isinstance(n, ast.Subscript) and isinstance(n.ctx, ast.Load) and isinstance(n.value, ast.Attribute) and n.value.attr == attr)
            or (isinstance(n, ast.Call) and isinstance(n.func, ast.Attribute) and n.func.attr == "get" and isinstance(n.func.value, ast.Attribute) and n.func.value.attr == attr))]
        if not reads:
            continue
        n_tables += 1
        key_names = _deps(fn, {x.id for x in ast.walk(t.slice) if isinstance(x, ast.Name)}, params)
        val_names = _deps(fn, {x.id for x in ast.walk(st.value) if isinstance(x, ast.Name)}, params)
        missing = sorted(val_names - key_names - {owner, "self", "cls"})
        if missing:
            out.append((f"{owner}.{attr}", norm(t.slice), missing, st))
    return out, n_tables


def persistent_memo_rule(repo: Repo, rep, rule: str, prefixes: Tuple[str, ...], why: str) -> None:
    """A table that lives on the visitor / parsing context serves its entries to *later calls* of the function that fills it, so its key
    must mention every parameter of that function the stored value is computed from (the object that owns the table excepted).
    Only tables used by a single function are memo tables in this sense; attributes other code reads are registries with their own rules."""
    ex = ast.parse(_EXAMPLE2).body[0]
    hz, _ = persistent_memo_hazards(ex, lambda a: True)
    rep.require(len(hz) == 1 and hz[0][2] == ["context"], f"{rule}: the built-in positive example is no longer recognised - the rule is broken")
    # attribute name -> set of functions (fq) in which it occurs, package-wide (initialisation `x.attr = {}` / class-level fields excepted)
    users = {}
    for m in repo.modules.values():
        for q, f in m.functions.items():
            for n in own_nodes(f.node):
                if isinstance(n, ast.Attribute):
                    p = getattr(n, "_parent", None)
                    users.setdefault(n.attr, set()).add(f"{m.name}:{q}")
    inits = set()
    for m in repo.modules.values():
        for q, f in m.functions.items():
            for n in own_nodes(f.node):
                if isinstance(n, (ast.Assign, ast.AnnAssign)):
                    tg = n.targets[0] if isinstance(n, ast.Assign) else n.target
                    v = n.value
                    if isinstance(tg, ast.Attribute) and v is not None and ((isinstance(v, ast.Dict) and not v.keys) or (isinstance(v, ast.Call) and dotted(v.func) in ("dict", "OrderedDict", "field"))):
                        inits.add((tg.attr, f"{m.name}:{q}"))
    n_fn = n_tab = n_bad = 0
    for m in repo.modules.values():
        if not any(("." + m.name + ".").find("." + p + ".") >= 0 for p in prefixes):
            continue
        for q, f in m.functions.items():
            n_fn += 1
            me = f"{m.name}:{q}"

            def private(attr: str, me=me) -> bool:
                others = {u for u in users.get(attr, set()) if u != me and (attr, u) not in inits}
                return not others

            hz, nt = persistent_memo_hazards(f.node, private)
            n_tab += nt
            for t, key, missing, st in hz:
                n_bad += 1
                rep.violation(rule, f"{m.relpath}:{q} memo `{t}`", f"{m.name}:{q}|memo-key-incomplete|{t}|{','.join(missing)}",
                              f"`{norm(st)[:90]}`: the stored value is computed from the parameter(s) {missing} as well, but it is kept in `{t}` and served to later calls "
                              f"under `{key}` alone. {why}", f"{m.relpath}:{st.lineno}")
    rep.count(f"{rule}:functions", n_fn)
    rep.count(f"{rule}:persistent_memo_tables", n_tab)
    rep.require(n_fn >= 5, f"{rule}: only {n_fn} functions analysed under {prefixes} (floor 5)")
    if not n_bad:
        rep.ok(rule, f"functions under {', '.join(prefixes)}", f"{n_fn} functions, {n_tab} single-function memo table(s) kept on an object: every key covers the parameters the stored value depends on",
               "src/pyopenapi_gen:1")
