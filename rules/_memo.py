"""Memo tables local to one function call: `T = {}` ... `if K not in T: T[K] = f(...)` ... `use T[K]`.

The entry computed for one key is served for every later occurrence of that key, so the key must determine everything that varies
between occurrences: every loop variable (or name assigned inside a loop) the stored value is computed from must occur in the key.
Function parameters do not vary during the table's lifetime and are not required in the key."""
from __future__ import annotations

import ast
from typing import List, Set, Tuple

from sa.match import Locals
from sa.model import Repo, dotted, norm, own_nodes

_EXAMPLE = '''
def load(items, ctx):
    seen = {}
    out = []
    for code, node in items:
        name = node["$ref"].split("/")[-1]
        if name not in seen:
            seen[name] = parse(str(code), node, ctx)
        out.append(seen[name])
    return out
'''


def _loop_varying(fn: ast.AST) -> Set[str]:
    """names bound by a loop header or assigned inside a loop body"""
    out: Set[str] = set()
    for lp in ast.walk(fn):
        if isinstance(lp, (ast.For, ast.AsyncFor)):
            out |= {x.id for x in ast.walk(lp.target) if isinstance(x, ast.Name)}
        if isinstance(lp, (ast.For, ast.AsyncFor, ast.While)):
            for st in ast.walk(lp):
                if isinstance(st, ast.Assign):
                    for t in st.targets:
                        out |= {x.id for x in ast.walk(t) if isinstance(x, ast.Name) and isinstance(x.ctx, ast.Store)}
                elif isinstance(st, (ast.AnnAssign, ast.AugAssign)) and isinstance(st.target, ast.Name):
                    out.add(st.target.id)
    return out


def local_memo_hazards(fn: ast.AST) -> Tuple[List[Tuple[str, str, List[str], ast.AST]], int]:
    """([(table, key text, loop-varying names missing from the key, store node)], number of local memo tables)"""
    L = Locals(fn)
    tables = {n for n, ds in L.defs.items() if ds and all(
        k == "assign" and v is not None and ((isinstance(v, ast.Dict) and not v.keys) or (isinstance(v, ast.Call) and dotted(v.func) in ("dict", "OrderedDict") and not v.args and not v.keywords))
        for k, v, _ in ds)}
    varying = _loop_varying(fn)
    out = []
    n_tables = 0
    for st in own_nodes(fn):
        if not (isinstance(st, ast.Assign) and len(st.targets) == 1 and isinstance(st.targets[0], ast.Subscript) and isinstance(st.targets[0].value, ast.Name)
                and st.targets[0].value.id in tables):
            continue
        t = st.targets[0].value.id
        if not any(isinstance(x, ast.Call) for x in ast.walk(st.value)):
            continue  # a plain registration
        reads = [n for n in own_nodes(fn) if (
            (isinstance(n, ast.Compare) and len(n.ops) == 1 and isinstance(n.ops[0], (ast.In, ast.NotIn)) and isinstance(n.comparators[0], ast.Name) and n.comparators[0].id == t)
            or (isinstance(n, ast.Subscript) and isinstance(n.ctx, ast.Load) and isinstance(n.value, ast.Name) and n.value.id == t)
            or (isinstance(n, ast.Call) and isinstance(n.func, ast.Attribute) and n.func.attr == "get" and isinstance(n.func.value, ast.Name) and n.func.value.id == t))]
        if not reads:
            continue
        n_tables += 1
        stop = tuple(L.params) + tuple(varying & {n for n, ds in L.defs.items() if any(k.startswith("for") for k, _, _ in ds)})
        key = L.inline(st.targets[0].slice, stop=stop)
        val = L.inline(st.value, stop=stop)
        key_names = {x.id for x in ast.walk(key) if isinstance(x, ast.Name)}
        used = [x.id for x in ast.walk(val) if isinstance(x, ast.Name) and x.id in varying and x.id not in L.params]
        missing = sorted({u for u in used if u not in key_names and u != t})
        if missing:
            out.append((t, norm(st.targets[0].slice), missing, st))
    return out, n_tables


def local_memo_rule(repo: Repo, rep, rule: str, prefixes: Tuple[str, ...], why: str) -> None:
    ex = ast.parse(_EXAMPLE).body[0]
    hz, _ = local_memo_hazards(ex)
    rep.require(len(hz) == 1 and hz[0][2] == ["code"], f"{rule}: the built-in positive example is no longer recognised - the rule is broken")
    n_fn = n_tab = n_bad = 0
    for m in repo.modules.values():
        if not any(("." + m.name + ".").find("." + p + ".") >= 0 for p in prefixes):
            continue
        for q, f in m.functions.items():
            n_fn += 1
            hz, nt = local_memo_hazards(f.node)
            n_tab += nt
            for t, key, missing, st in hz:
                n_bad += 1
                rep.violation(rule, f"{m.relpath}:{q} memo `{t}`", f"{m.name}:{q}|local-memo-key-incomplete|{t}|{','.join(missing)}",
                              f"`{norm(st)[:90]}`: the entry is computed from {missing} as well, which change from one occurrence of `{key}` to the next, but it is "
                              f"stored and re-used under `{key}` alone. {why}", f"{m.relpath}:{st.lineno}")
    rep.count(f"{rule}:functions", n_fn)
    rep.count(f"{rule}:local_memo_tables", n_tab)
    rep.require(n_fn >= 5, f"{rule}: only {n_fn} functions analysed under {prefixes} (floor 5)")
    if not n_bad:
        rep.ok(rule, f"functions under {', '.join(prefixes)}", f"{n_fn} functions, {n_tab} call-local memo table(s): every key covers the loop-varying inputs of the stored value",
               "src/pyopenapi_gen:1")
