"""Recognition of import registrations (`context.add_import(...)` & co.) independent of call style."""
from __future__ import annotations

import ast
from typing import Dict, List, Optional, Set

from sa.cfg import CFG
from sa.match import Locals
from sa.model import calls_in, const_str, parent


def import_names(c: ast.Call, L: Locals) -> List[str]:
    """Symbol names registered by an add_import-like call: positional or keyword, a constant or a loop variable over constants."""
    a = c.func.attr  # type: ignore[union-attr]
    arg: Optional[ast.AST] = None
    if a == "add_import":
        arg = c.args[1] if len(c.args) >= 2 else next((k.value for k in c.keywords if k.arg == "name"), None)
    elif a == "add_conditional_import":
        arg = c.args[2] if len(c.args) >= 3 else next((k.value for k in c.keywords if k.arg == "name"), None)
    elif a == "add_plain_import":
        arg = c.args[0] if c.args else next((k.value for k in c.keywords if k.arg == "module"), None)
    if arg is None:
        return []
    if const_str(arg):
        return [const_str(arg) or ""]
    if isinstance(arg, ast.Name):
        out = []
        for kind, v, _ in L.defs.get(arg.id, []):
            if kind == "for" and isinstance(v, (ast.Tuple, ast.List, ast.Set)):
                out += [const_str(e) or "" for e in v.elts if const_str(e)]
            elif kind == "assign" and v is not None and const_str(v):
                out.append(const_str(v) or "")
        return out
    return []


def registration_nodes(cfg: CFG, n, c: ast.Call) -> Set[int]:
    """CFG nodes credited with the registration made by call c in statement node n: the statement itself and, when it is the direct
    body of a `for` over a non-empty literal (which always runs), the loop header."""
    out = {n.id}
    st = n.ast
    p = parent(st) if st is not None else None
    if isinstance(p, ast.For) and st in p.body and isinstance(p.iter, (ast.Tuple, ast.List)) and p.iter.elts and not p.orelse:
        out |= {x.id for x in cfg.nodes if x.kind == "iter" and x.stmt is p}
    return out
