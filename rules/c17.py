"""C17 - transport applies defaults, per-request headers and auth as documented.

R17.1  key flow: every request_args key a bundled plugin writes is read back from the plugin's result
       by the transport and forwarded into the request kwargs
R17.2  layering in _prepare_headers: fresh dict <- defaults <- per-request headers <- auth, in that order;
       the transport's own default dict is never aliased/mutated
R17.3  pass-through: request() forwards every caller kwarg except `headers`, unchanged
R17.4  CompositeAuth threads the result through self.plugins in order
R17.5  ApiKeyAuth location switch is total and writes self.name -> self.key into the right container
R17.13 the caller's mapping `params` is never flattened into (name, value) pairs (list values = repeated names only in mapping form)
R17.7  where plugin-added params / cookies are merged into the caller's value, that value is converted with dict() only under a type test
R17.8  the credential a bundled plugin writes is built from its stored state, never from the raw result of an awaited callback
R17.10 every header store after the first layer is case-insensitive (no `authorization` next to `Authorization`)
R17.11 plugin-added query parameters are merged onto the query of the request URL (httpx replaces the URL's query by a non-empty `params`)
R17.12 plugin-added cookies extend a Cookie header that is already among the prepared headers (httpx drops `cookies=` next to a Cookie header)
R17.9  the case-insensitive header write `set_header(headers, name, value)` removes only other spellings of `name` and then stores the value (writes
       through it are read as the plain header writes R17.2 / R17.5 / R17.6 look for)
R17.6  bundled plugins extend (copy-then-update) the container they write and return request_args
"""
from __future__ import annotations

import ast
from typing import Dict, List, Optional, Set, Tuple

from sa.cfg import CFG, guards
from sa.model import AnalysisError, Class, Function, Repo, calls_in, const_str, dotted, norm, own_nodes, parent
from sa.match import Locals, canon_compare, conjuncts, match
from sa.report import Report

TRANSPORT = "core.http_transport"
PLUGIN_MODS = ["core.auth.plugins", "core.auth.base"]


def _const_keys_of_subscript(node: ast.AST, loop_consts: Dict[str, List[str]]) -> List[str]:
    if isinstance(node, ast.Constant) and isinstance(node.value, str):
        return [node.value]
    if isinstance(node, ast.Name) and node.id in loop_consts:
        return loop_consts[node.id]
    return []


_MODULE_SEQ_CONSTS: Dict[str, ast.AST] = {}


def _loop_consts(fn_node: ast.AST) -> Dict[str, List[str]]:
    out: Dict[str, List[str]] = {}
    for n in own_nodes(fn_node):
        it = n.iter if isinstance(n, ast.For) else None
        if isinstance(it, ast.Name) and it.id in _MODULE_SEQ_CONSTS:
            it = _MODULE_SEQ_CONSTS[it.id]  # a module-level tuple / list constant of the transport module (`_AUTH_FORWARDED_KEYS`)
        if isinstance(n, ast.For) and isinstance(n.target, ast.Name) and isinstance(it, (ast.Tuple, ast.List)):
            vals = [const_str(e) for e in it.elts]
            if all(v is not None for v in vals):
                out[n.target.id] = vals  # type: ignore[assignment]
    return out


def plugin_written_keys(repo: Repo) -> Dict[str, List[Tuple[str, Function, ast.AST]]]:
    """key -> [(class, method, node)] for `request_args[K] = ...` in bundled authenticate_request methods."""
    out: Dict[str, List[Tuple[str, Function, ast.AST]]] = {}
    for mn in PLUGIN_MODS:
        mod = repo.module(mn)
        for cls in mod.classes.values():
            m = cls.methods.get("authenticate_request")
            if m is None:
                continue
            p = m.params[1] if len(m.params) > 1 else "request_args"
            lc = _loop_consts(m.node)
            for n in own_nodes(m.node):
                if isinstance(n, ast.Assign):
                    for t in n.targets:
                        if isinstance(t, ast.Subscript) and isinstance(t.value, ast.Name) and t.value.id == p:
                            for k in _const_keys_of_subscript(t.slice, lc):
                                out.setdefault(k, []).append((cls.name, m, n))
                elif isinstance(n, ast.Call) and isinstance(n.func, ast.Attribute) and isinstance(n.func.value, ast.Name) \
                        and n.func.value.id == p and n.func.attr in ("setdefault", "update"):
                    if n.func.attr == "setdefault" and n.args and const_str(n.args[0]):
                        out.setdefault(const_str(n.args[0]), []).append((cls.name, m, n))  # type: ignore[arg-type]
    return out


# ------------------------------------------------------------------------------------------------ the case-insensitive header write, read as a header write
def _set_header_helper(repo: Repo):
    """(function, problem): the helper `set_header(headers, name, value)` of core/auth/base.py if it is what its name says - it deletes only keys that
    equal `name` ignoring case and then stores `headers[name] = value`, touching nothing else - else (fn, what is wrong); (None, None) when absent."""
    try:
        base = repo.module("core.auth.base")
    except AnalysisError:
        return None, None
    fn = base.functions.get("set_header")
    if fn is None:
        return None, None
    ps = fn.params
    if len(ps) != 3:
        return fn, "does not take (headers, name, value)"
    h, n, v = ps
    body = [st for st in fn.node.body if not (isinstance(st, ast.Expr) and isinstance(st.value, ast.Constant))]  # type: ignore[attr-defined]
    if not body or not (isinstance(body[-1], ast.Assign) and norm(body[-1].targets[0]) == f"{h}[{n}]" and norm(body[-1].value) == v):
        return fn, f"does not end in `{h}[{n}] = {v}`"
    def _ci(c: ast.AST) -> bool:
        return isinstance(c, ast.Compare) and len(c.ops) == 1 and isinstance(c.ops[0], ast.Eq) and all(
            isinstance(s_, ast.Call) and isinstance(s_.func, ast.Attribute) and s_.func.attr in ("lower", "casefold", "upper") for s_ in (c.left, c.comparators[0])) and n in norm(c)

    collected: Set[str] = set()  # locals that hold exactly the keys equal to `name` ignoring case
    for st in body[:-1]:
        if isinstance(st, (ast.Assign, ast.AnnAssign)) and isinstance(getattr(st, "value", None), (ast.List, ast.ListComp, ast.Call)):
            tg = st.targets[0] if isinstance(st, ast.Assign) else st.target
            v_ = st.value
            if isinstance(tg, ast.Name) and isinstance(v_, ast.List) and not v_.elts:
                collected.add(tg.id)
                continue
            if isinstance(tg, ast.Name) and isinstance(v_, ast.ListComp) and any(_ci(c) for g in v_.generators for c in g.ifs):
                collected.add(tg.id)
                continue
            return fn, f"`{norm(st)[:50]}` is neither the removal loop nor the store"
        if not isinstance(st, ast.For):
            return fn, f"`{norm(st)[:50]}` is neither the removal loop nor the store"
        dels = [x for x in ast.walk(st) if isinstance(x, ast.Delete)]
        if not dels:
            # the collecting loop: `for k in headers: if k.lower() == name.lower(): <collected>.append(k)`
            apps = [c for c in calls_in(st) if isinstance(c.func, ast.Attribute) and c.func.attr == "append" and isinstance(c.func.value, ast.Name) and c.func.value.id in collected]
            guarded_ = all(isinstance(b, ast.If) and _ci(b.test) and not b.orelse for b in st.body)
            other = [x for b in st.body for x in ast.walk(b) if isinstance(x, (ast.Assign, ast.AugAssign, ast.Delete))]
            if apps and guarded_ and not other and norm(st.iter) in (h, f"{h}.keys()", f"list({h})"):
                continue
            return fn, "a loop in front of the store neither collects nor removes the other spellings"
        it = st.iter
        conds = [c for x in ast.walk(it) if isinstance(x, (ast.ListComp, ast.GeneratorExp, ast.SetComp)) for g in x.generators for c in g.ifs]
        ci = any(_ci(c) for c in conds) or (isinstance(it, ast.Name) and it.id in collected)
        others = [x for b in st.body for x in ast.walk(b) if isinstance(x, (ast.Assign, ast.AugAssign, ast.Call)) and not isinstance(b, ast.Delete)]
        if not ci or others or not all(norm(t).startswith(f"{h}[") for d in dels for t in d.targets):
            return fn, "removes other keys than the ones equal to the name ignoring case"
    return fn, None


def _desugar_header_writes(repo: Repo, rep=None) -> None:
    """HTTP field names are case-insensitive: a write through `set_header(D, name, value)` is the header write `D[name] = value` that also removes
    other spellings of the name.  Once the helper is verified (R17.9) the rules read such calls as the plain writes they looked for before:
    `set_header(D, n, v)` as `D[n] = v`, and `for a, b in S.items(): set_header(D, a, f(b))` as `D.update({a: f(b) for a, b in S.items()})`.
    The syntax trees of the transport and plugin modules are rewritten in place, once per run (analysis only)."""
    for mn_ in ("core.http_transport", "core.auth.plugins", "core.auth.base"):
        try:
            for st_ in repo.module(mn_).tree.body:
                if isinstance(st_, (ast.Assign, ast.AnnAssign)) and isinstance(getattr(st_, "value", None), (ast.Tuple, ast.List)):
                    tg_ = st_.targets[0] if isinstance(st_, ast.Assign) else st_.target
                    if isinstance(tg_, ast.Name):
                        _MODULE_SEQ_CONSTS[tg_.id] = st_.value
        except AnalysisError:
            pass
    if getattr(repo, "_c17_desugared", False):
        return
    repo._c17_desugared = True  # type: ignore[attr-defined]
    repo._c17_plain_stores = _plain_header_stores(repo)  # type: ignore[attr-defined]
    fn, problem = _set_header_helper(repo)
    if fn is None:
        return
    sub = f"{fn.module.relpath}:set_header is a header write"
    if problem is not None:
        if rep is not None:
            rep.violation("R17.9", sub, f"{fn.fq}|set-header-helper", f"the header-write helper {problem}: writes through it are not the layered overrides the transport documents", fn.loc())
        return
    if rep is not None:
        rep.ok("R17.9", sub, "removes the other spellings of the name (case-insensitive comparison), then stores `headers[name] = value`; nothing else is touched", fn.loc())
    from sa.model import set_parents

    def is_call(st: ast.stmt) -> Optional[ast.Call]:
        if isinstance(st, ast.Expr) and isinstance(st.value, ast.Call) and (dotted(st.value.func) or "").split(".")[-1] == "set_header" and len(st.value.args) == 3 and not st.value.keywords:
            return st.value
        return None

    def rewrite(stmts: List[ast.stmt]) -> None:
        for i, st in enumerate(list(stmts)):
            c = is_call(st)
            if c is not None:
                new = ast.Assign(targets=[ast.Subscript(value=c.args[0], slice=c.args[1], ctx=ast.Store())], value=c.args[2])
                stmts[i] = ast.copy_location(new, st)
                ast.fix_missing_locations(stmts[i])
                continue
            if isinstance(st, ast.For) and len(st.body) == 1 and not st.orelse and is_call(st.body[0]) is not None and isinstance(st.iter, ast.Call) \
                    and isinstance(st.iter.func, ast.Attribute) and st.iter.func.attr == "items" and isinstance(st.target, ast.Tuple) and len(st.target.elts) == 2:
                c = is_call(st.body[0])
                assert c is not None
                if isinstance(c.args[1], ast.Name) and isinstance(st.target.elts[0], ast.Name) and c.args[1].id == st.target.elts[0].id:
                    comp = ast.DictComp(key=c.args[1], value=c.args[2], generators=[ast.comprehension(target=st.target, iter=st.iter, ifs=[], is_async=0)])
                    # `D.update(S)` when the value is handed on unchanged
                    arg: ast.AST = comp
                    if isinstance(c.args[2], ast.Name) and isinstance(st.target.elts[1], ast.Name) and c.args[2].id == st.target.elts[1].id:
                        arg = st.iter.func.value
                    new2 = ast.Expr(value=ast.Call(func=ast.Attribute(value=c.args[0], attr="update", ctx=ast.Load()), args=[arg], keywords=[]))
                    stmts[i] = ast.copy_location(new2, st)
                    ast.fix_missing_locations(stmts[i])
                    continue
            for fld in ("body", "orelse", "finalbody"):
                sub_ = getattr(st, fld, None)
                if isinstance(sub_, list) and sub_ and isinstance(sub_[0], ast.stmt):
                    rewrite(sub_)
            for hd in getattr(st, "handlers", []):
                rewrite(hd.body)

    for mn in ("core.http_transport", "core.auth.plugins", "core.auth.base"):
        try:
            m = repo.module(mn)
        except AnalysisError:
            continue
        for f in m.functions.values():
            if f is fn:
                continue
            rewrite(f.node.body)  # type: ignore[attr-defined]
        set_parents(m.tree)


def _plain_header_stores(repo: Repo):
    """Before the rewriting above: stores into a headers mapping that do not go through the case-insensitive helper.  A headers mapping is the dict
    `_prepare_headers` returns / a dict a plugin puts under request_args["headers"].  The first layer into a mapping created empty in the same
    function is exempt (nothing to collide with), and so is a store under a key that was looked up in the mapping itself."""
    out = []
    n_maps = 0
    for mn in ("core.http_transport", "core.auth.plugins"):
        try:
            m = repo.module(mn)
        except AnalysisError:
            continue
        for f in m.functions.values():
            if "<locals>" in f.qualname or f.name == "set_header":
                continue
            L = Locals(f.node)
            maps: Set[str] = set()
            for st in own_nodes(f.node):
                if isinstance(st, ast.Return) and isinstance(st.value, ast.Name) and f.name == "_prepare_headers":
                    maps.add(st.value.id)
                if isinstance(st, ast.Assign) and any(isinstance(t, ast.Subscript) and const_str(t.slice) == "headers" for t in st.targets) and isinstance(st.value, ast.Name):
                    maps.add(st.value.id)
            n_maps += len(maps)
            for D in maps:
                defs = [v for _, v, dn in sorted(L.defs.get(D, []), key=lambda d: getattr(d[2], "lineno", 0)) if v is not None]
                fresh = bool(defs) and all((isinstance(v, ast.Dict) and not v.keys) or (isinstance(v, ast.Call) and isinstance(v.func, ast.Name) and v.func.id == "dict" and not v.args) for v in defs[:1])
                stores = []
                for st in own_nodes(f.node):
                    if isinstance(st, ast.Assign) and any(isinstance(t, ast.Subscript) and isinstance(t.value, ast.Name) and t.value.id == D for t in st.targets):
                        key = next(t.slice for t in st.targets if isinstance(t, ast.Subscript))
                        # a key found in the mapping itself (`next(name for name in D if name.lower() == "cookie")`) replaces that very field
                        kd = [v for _, v, _ in L.defs.get(key.id, [])] if isinstance(key, ast.Name) else []
                        if kd and all(v is not None and any(isinstance(x, ast.Name) and x.id == D for x in ast.walk(v)) for v in kd):
                            continue
                        stores.append(st)
                    if isinstance(st, ast.Expr) and isinstance(st.value, ast.Call) and isinstance(st.value.func, ast.Attribute) and st.value.func.attr in ("update", "setdefault") \
                            and isinstance(st.value.func.value, ast.Name) and st.value.func.value.id == D:
                        stores.append(st)
                stores.sort(key=lambda x: x.lineno)
                if fresh and stores:
                    stores = stores[1:]  # the first layer into an empty mapping
                out += [(f, D, st) for st in stores]
    return out, n_maps


def rule_httpx_merge_semantics(repo: Repo, rep, plain_stores, n_maps) -> None:
    """R17.10 header fields are merged case-insensitively (a plain dict store of `authorization` next to `Authorization` sends both); R17.11 where the
    transport creates `params` for a request because a plugin added a query key, the merge takes the query of the request URL along (httpx replaces
    the URL's own query by a non-empty `params`); R17.12 where plugin cookies are forwarded, a Cookie header already among the prepared headers is
    taken into account (httpx drops `cookies=` when the request has a Cookie header).  The two httpx behaviours are part of the trusted base."""
    rep.require(n_maps >= 3, f"R17.10: only {n_maps} header mapping(s) found in the transport and the bundled plugins (floor 3)")
    if plain_stores:
        for f, D, st in plain_stores:
            rep.violation("R17.10", f"{f.module.relpath}:{f.qualname} header store `{norm(st)[:50]}`", f"{f.fq}|case-sensitive-header-store|{norm(st)[:40]}",
                          f"`{D}` may already hold the same field in another spelling (`authorization` / `Authorization`, `x-trace` / `X-Trace`): a plain dict store keeps both, httpx sends both, "
                          "and the value that was to be overridden still leaves the transport", f.loc(st))
    else:
        rep.ok("R17.10", "header stores of the transport and the bundled plugins", f"{n_maps} header mappings: every store after the first layer goes through the case-insensitive helper", "src/pyopenapi_gen/core/http_transport.py:1")
    tmod = repo.module(TRANSPORT)
    tcls = tmod.classes.get("HttpxTransport")
    fns = [m for m in (tcls.methods.values() if tcls else []) if any(isinstance(c.func, ast.Attribute) and c.func.attr == "authenticate_request" for c in calls_in(m.node))]
    if not fns:
        raise AnalysisError("R17.11: HttpxTransport never calls authenticate_request (anchor)")
    f = fns[0]
    forwards_params = any(const_str(x) == "params" for x in ast.walk(f.node) if isinstance(x, ast.Constant))
    forwards_cookies = any(const_str(x) == "cookies" for x in ast.walk(f.node) if isinstance(x, ast.Constant))
    sub11 = f"{tmod.relpath}:{f.qualname} plugin-added query parameters vs. the query of the request URL"
    if not forwards_params:
        rep.ok("R17.11", sub11, "plugin params are not forwarded here", f.loc())
    else:
        url_seen = any(isinstance(c, ast.Call) and (dotted(c.func) or "").split(".")[-1] in ("URL", "urlsplit", "urlparse", "parse_qsl", "parse_qs") for c in ast.walk(f.node)) or any(
            isinstance(x, ast.Attribute) and x.attr in ("params", "query") and isinstance(x.value, ast.Call) for x in ast.walk(f.node))
        if url_seen:
            rep.ok("R17.11", sub11, "the query of the request URL is the base the caller's and the plugin's parameters are merged onto", f.loc())
        else:
            rep.violation("R17.11", sub11, f"{f.fq}|url-query-replaced",
                          "when the caller passed no `params`, the plugin's query key becomes the whole `params` argument - and httpx replaces the query of the request URL by a non-empty `params`: "
                          "`/items?cursor=abc` goes out as `/items?api_key=K` (the caller's query parameters do not pass through)", f.loc())
    sub12 = f"{tmod.relpath}:{f.qualname} plugin-added cookies vs. a Cookie header"
    if not forwards_cookies:
        rep.ok("R17.12", sub12, "plugin cookies are not forwarded here", f.loc())
    else:
        looks = any(isinstance(c, ast.Compare) and any(const_str(x) == "cookie" for x in ast.walk(c)) for c in ast.walk(f.node))
        if looks:
            rep.ok("R17.12", sub12, "a Cookie field among the prepared headers (any spelling) is extended with the plugin's cookies", f.loc())
        else:
            rep.violation("R17.12", sub12, f"{f.fq}|cookie-key-dropped",
                          "the plugin's cookies are forwarded as `cookies=` whatever the headers contain - httpx ignores `cookies=` when the request already has a Cookie header (a default or "
                          "per-request `Cookie`): the API key configured for the cookie location never leaves the transport", f.loc())


def layering_rule(repo: Repo, rep, rule: str = "R17.2") -> None:
    """Header layering of HttpxTransport._prepare_headers (fresh dict <- defaults <- per-request <- auth)."""
    _desugar_header_writes(repo)
    tmod = repo.module(TRANSPORT)
    tcls = tmod.classes.get("HttpxTransport")
    if tcls is None:
        raise AnalysisError("anchor vanished: HttpxTransport")
    prep = tcls.methods.get("_prepare_headers")
    # ---------------------------------------------------------------- R17.2 layering
    if prep is None:
        raise AnalysisError("anchor vanished: HttpxTransport._prepare_headers")
    from sa.report import with_flatten_fallback as _wff

    # the layering may be split over private helpers of the transport (`_merge_base_headers`, `_forward_auth_extras`): the function is
    # examined as written and, if that does not show the pattern, with those helpers written out
    _wff(rep, prep, lambda f_, r_: _layering_body(tmod, f_, r_, rule))


def _layering_body(tmod, prep: Function, rep, rule: str) -> None:
    cfg = CFG(prep.node)
    sub0 = f"{tmod.relpath}:HttpxTransport._prepare_headers"
    # the working dict
    init = [n for n in own_nodes(prep.node) if isinstance(n, (ast.Assign, ast.AnnAssign)) and isinstance(
        (n.targets[0] if isinstance(n, ast.Assign) else n.target), ast.Name)]
    upd = [c for c in calls_in(prep.node) if isinstance(c.func, ast.Attribute) and c.func.attr == "update" and isinstance(c.func.value, ast.Name)]
    work_vars = {c.func.value.id for c in upd}  # type: ignore[attr-defined]
    rep.require(len(work_vars) == 1, f"R17.2: expected one working header dict in _prepare_headers, found {sorted(work_vars)}")
    wv = next(iter(work_vars)) if work_vars else "prepared_headers"
    defs = [n for n in init if (n.targets[0] if isinstance(n, ast.Assign) else n.target).id == wv]  # type: ignore[union-attr]
    first = min(defs, key=lambda n: n.lineno) if defs else None
    fresh = first is not None and first.value is not None and (
        (isinstance(first.value, ast.Dict) and not first.value.keys) or
        (isinstance(first.value, ast.Call) and dotted(first.value.func) == "dict"))
    alias = [n for n in init if n.value is not None and any(
        isinstance(x, ast.Attribute) and x.attr == "_default_headers" for x in ast.walk(n.value)) and not (
        isinstance(n.value, ast.Call) and dotted(n.value.func) in ("dict",)) and not any(
        isinstance(x, ast.Call) and isinstance(x.func, ast.Attribute) and x.func.attr == "copy" for x in ast.walk(n.value))
        and not isinstance(n.value, ast.Dict)]
    if fresh and not alias:
        rep.ok(rule, sub0 + " fresh dict", f"`{wv}` starts as a new dict; the transport's default dict is never aliased", prep.loc(first))
    else:
        bad = alias[0] if alias else first
        rep.violation(rule, sub0 + " fresh dict", f"{prep.fq}|aliases-defaults|{norm(bad) if bad is not None else ''}",
                      f"the per-request header dict is not a fresh copy (`{norm(bad) if bad is not None else '?'}`): per-request headers and auth "
                      "mutate the transport defaults and leak into later requests", prep.loc(bad or prep.node))

    def node_of(call: ast.Call) -> Optional[int]:
        for n in cfg.nodes:
            if n.ast is not None and n.kind == "stmt" and not n.copy and any(c is call for c in calls_in(n.ast)):
                return n.id
        return None

    d_upd = [c for c in upd if c.args and any(isinstance(x, ast.Attribute) and x.attr == "_default_headers" for x in ast.walk(c.args[0]))]
    _PL = Locals(prep.node)
    r_upd = [c for c in upd if c.args and any(const_str(x) == "headers" for x in ast.walk(_PL.inline(c.args[0])))]
    a_calls = [c for c in calls_in(prep.node) if isinstance(c.func, ast.Attribute) and c.func.attr == "authenticate_request"]
    rep.require(bool(d_upd) and bool(r_upd) and bool(a_calls),
                f"R17.2: layering anchors missing (defaults-update={len(d_upd)}, request-update={len(r_upd)}, auth-call={len(a_calls)})")
    if d_upd and r_upd and a_calls:
        nd, nr, na = node_of(d_upd[0]), node_of(r_upd[0]), node_of(a_calls[0])
        order_ok = nd is not None and nr is not None and na is not None and \
            nd not in cfg.reachable(nr) and nr not in cfg.reachable(na) and nd not in cfg.reachable(na) and \
            nr in cfg.reachable(nd) and na in cfg.reachable(nr)
        # both updates use plain dict.update with the source as the argument (later wins)
        if order_ok:
            rep.ok(rule, sub0 + " order", "defaults.update -> per-request.update -> auth: no path runs them in another order", prep.loc(d_upd[0]))
        else:
            rep.violation(rule, sub0 + " order", f"{prep.fq}|layering-order",
                          "defaults / per-request headers / auth are not applied in that order on every path", prep.loc(d_upd[0]))
        # the dict handed to the plugin derives from the working dict
        arg = a_calls[0].args[0] if a_calls[0].args else None
        src_ok = False
        cand_dicts = []
        if isinstance(arg, ast.Dict):
            cand_dicts.append(arg)  # the dict display passed directly
        if isinstance(arg, ast.Name):
            for n in own_nodes(prep.node):
                if isinstance(n, (ast.Assign, ast.AnnAssign)):
                    t = n.targets[0] if isinstance(n, ast.Assign) else n.target
                    if isinstance(t, ast.Name) and t.id == arg.id and n.value is not None and isinstance(n.value, ast.Dict):
                        cand_dicts.append(n.value)
        # plain copies of the working dict's name (`prepared = merged`, e.g. the result of an inlined helper) are the same dict
        aliases = {wv}
        for _ in range(3):
            for n in own_nodes(prep.node):
                if isinstance(n, (ast.Assign, ast.AnnAssign)) and isinstance(getattr(n, "value", None), ast.Name) and n.value.id in aliases:
                    t = n.targets[0] if isinstance(n, ast.Assign) else n.target
                    if isinstance(t, ast.Name):
                        aliases.add(t.id)
        for dct in cand_dicts:
            for k, v in zip(dct.keys, dct.values):
                if k is not None and const_str(k) == "headers" and any(isinstance(x, ast.Name) and x.id in aliases for x in ast.walk(v)):
                    src_ok = True
        if src_ok:
            rep.ok(rule, sub0 + " auth sees layered headers", f"the plugin receives {{'headers': {wv}.copy()}}", prep.loc(a_calls[0]))
        else:
            rep.violation(rule, sub0 + " auth sees layered headers", f"{prep.fq}|auth-input",
                          "the dict handed to the auth plugin does not carry the layered headers under 'headers'", prep.loc(a_calls[0]))
    # the credential layer comes last: the transport's own `bearer_token` shortcut is "auth" (documented as add/overwrite Authorization),
    # so the item assignment that writes it must not be overwritable by the per-request update - it lies after it on every path
    if r_upd:
        nr2 = node_of(r_upd[0])
        for n_ in cfg.nodes:
            if n_.kind != "stmt" or n_.ast is None or n_.copy or not isinstance(n_.ast, ast.Assign):
                continue
            tg = n_.ast.targets[0]
            if isinstance(tg, ast.Subscript) and isinstance(tg.value, ast.Name) and tg.value.id == wv and any(
                    isinstance(x, ast.Attribute) and "token" in x.attr for x in ast.walk(n_.ast.value)):
                subb = sub0 + f" credential `{norm(tg)[:40]}`"
                if nr2 is not None and nr2 in cfg.reachable(n_.id):
                    rep.violation(rule, subb, f"{prep.fq}|credential-before-request-headers",
                                  f"`{norm(n_.ast)[:70]}` runs before the per-request headers are merged: a per-request `Authorization` header (e.g. a declared header "
                                  "parameter) replaces the configured token, unlike with the equivalent auth plugin", prep.loc(n_.ast))
                else:
                    rep.ok(rule, subb, "written after the per-request headers were merged: the configured credential wins, like a plugin's contribution", prep.loc(n_.ast))
    # no other mutation of the working dict between layers than update / Authorization for bearer token
    for n in own_nodes(prep.node):
        if isinstance(n, ast.Assign) and isinstance(n.targets[0], ast.Name) and n.targets[0].id == wv and n is not first:
            from sa.match import Locals as _L172

            v = _L172(prep.node).inline(n.value, stop=tuple(prep.params))  # `plugin_headers = auth_result.get("headers")`; `headers = plugin_headers`
            from_auth = (isinstance(v, ast.Subscript) and const_str(v.slice) == "headers") or (
                isinstance(v, ast.Call) and isinstance(v.func, ast.Attribute) and v.func.attr == "get" and v.args and const_str(v.args[0]) == "headers")
            if from_auth:
                rep.ok(rule, sub0 + f" reassignment `{norm(n)[:50]}`", "takes the plugin's result headers", prep.loc(n))
            else:
                rep.violation(rule, sub0 + " reassignment", f"{prep.fq}|reassign|{norm(n)}",
                              f"`{norm(n)}` replaces the layered header dict (precedence of per-request over defaults is no longer given by update order)", prep.loc(n))



def run(repo: Repo, rep: Report, tier: str) -> None:
    _desugar_header_writes(repo, rep)
    rule_httpx_merge_semantics(repo, rep, *getattr(repo, "_c17_plain_stores", ([], 0)))
    tmod = repo.module(TRANSPORT)
    tcls = tmod.classes.get("HttpxTransport")
    if tcls is None:
        raise AnalysisError("anchor vanished: HttpxTransport")
    from sa.flatten import flatten as _flatten

    prep = tcls.methods.get("_prepare_headers")
    req = tcls.methods.get("request")
    if prep is not None:
        prep = _flatten(prep)  # forwarding may live in a private helper of the transport
    if req is not None:
        req = _flatten(req)
    if req is None:
        raise AnalysisError("anchor vanished: HttpxTransport.request")

    # ---------------------------------------------------------------- R17.1
    W = plugin_written_keys(repo)
    rep.count("R17.1:keys_written_by_plugins", {k: sorted({c for c, _, _ in v}) for k, v in W.items()})
    rep.require("headers" in W, "R17.1: no bundled plugin writes request_args['headers'] (anchor vanished)")
    # functions of the transport that call authenticate_request
    auth_fns = [_flatten(m) for m in tcls.methods.values() if any(
        isinstance(c.func, ast.Attribute) and c.func.attr == "authenticate_request" for c in calls_in(m.node))]
    rep.require(bool(auth_fns), "R17.1: HttpxTransport never calls authenticate_request")
    R: Set[str] = set()
    fwd: Set[str] = set()
    partial: Set[str] = set()
    for fn in auth_fns:
        lc = _loop_consts(fn.node)
        res_vars = set()
        for n in own_nodes(fn.node):
            tg_ = n.targets[0] if isinstance(n, ast.Assign) else n.target if isinstance(n, ast.AnnAssign) else None
            if isinstance(tg_, ast.Name) and getattr(n, "value", None) is not None:
                v = n.value.value if isinstance(n.value, ast.Await) else n.value
                if isinstance(v, ast.Call) and isinstance(v.func, ast.Attribute) and v.func.attr == "authenticate_request":
                    res_vars.add(tg_.id)
        # reads of result[K] / result.get(K)
        reads: Dict[str, List[ast.AST]] = {}
        for n in own_nodes(fn.node):
            if isinstance(n, ast.Subscript) and isinstance(n.ctx, ast.Load) and isinstance(n.value, ast.Name) and n.value.id in res_vars:
                for k in _const_keys_of_subscript(n.slice, lc):
                    reads.setdefault(k, []).append(n)
            if isinstance(n, ast.Call) and isinstance(n.func, ast.Attribute) and n.func.attr == "get" and isinstance(n.func.value, ast.Name) \
                    and n.func.value.id in res_vars and n.args:
                for k in _const_keys_of_subscript(n.args[0], lc):
                    reads.setdefault(k, []).append(n)
        R |= set(reads)
        # forwarding: the read value reaches a `return` or a store into a parameter dict under the same key
        params = set(fn.params)
        for k, nodes in reads.items():
            tainted: Set[str] = set()
            for n in own_nodes(fn.node):
                if isinstance(n, ast.Assign) and isinstance(n.targets[0], ast.Name):
                    if any(any(x is r for x in ast.walk(n.value)) for r in nodes):
                        tainted.add(n.targets[0].id)
                elif isinstance(n, ast.AnnAssign) and isinstance(n.target, ast.Name) and n.value is not None:
                    if any(any(x is r for x in ast.walk(n.value)) for r in nodes):
                        tainted.add(n.target.id)
            forwarded = False
            for n in own_nodes(fn.node):
                if isinstance(n, ast.Return) and n.value is not None and any(isinstance(x, ast.Name) and x.id in tainted for x in ast.walk(n.value)):
                    forwarded = True
                if isinstance(n, ast.Assign):
                    uses = any((isinstance(x, ast.Name) and x.id in tainted) or any(x is r for r in nodes) for x in ast.walk(n.value))
                    for t in n.targets:
                        if uses and isinstance(t, ast.Subscript) and isinstance(t.value, ast.Name) and t.value.id in params:
                            if k in _const_keys_of_subscript(t.slice, lc):
                                forwarded = True
                        if uses and isinstance(t, ast.Name):
                            tainted.add(t.id)
            # second pass for returns after taint growth
            for n in own_nodes(fn.node):
                if isinstance(n, ast.Return) and n.value is not None and any(isinstance(x, ast.Name) and x.id in tainted for x in ast.walk(n.value)):
                    forwarded = True
            if forwarded and not _store_on_all_paths(fn, k, tainted, params, lc):
                forwarded = False
                partial.add(k)
            if forwarded:
                fwd.add(k)
    rep.count("R17.1:keys_read_back_by_transport", sorted(R))
    rep.count("R17.1:keys_forwarded", sorted(fwd))
    for k in sorted(W):
        who = sorted({c for c, _, _ in W[k]})
        _, m0, n0 = W[k][0]
        sub = f"request_args[{k!r}] written by {who}"
        if k in fwd:
            rep.ok("R17.1", sub, "transport reads the key back from the plugin result and forwards it into the request", m0.loc(n0))
        else:
            rep.violation("R17.1", sub, f"key-discarded|{k}",
                          f"bundled plugin(s) {who} put their contribution under request_args[{k!r}], but HttpxTransport "
                          f"{'forwards it only on some paths' if k in partial else 'reads it and drops it' if k in R else 'never reads that key from the authenticated arguments'}: the credential never reaches the wire",
                          m0.loc(n0))

    layering_rule(repo, rep)

    # ---------------------------------------------------------------- R17.7 caller-supplied params / cookies keep their shape
    # httpx accepts `params` as a mapping *or* as a sequence of (name, value) pairs (repeated names!).  Where the transport merges what a
    # plugin added into the caller's value, a dict() conversion of that value must be guarded by a test of its type.
    tmod7 = repo.module(TRANSPORT)
    prep7 = tmod7.classes["HttpxTransport"].methods.get("_prepare_headers")
    if prep7 is None:
        raise AnalysisError("anchor vanished: HttpxTransport._prepare_headers")
    cfg7 = CFG(prep7.node)
    dom7 = cfg7.dominators()
    P7 = Locals(prep7.node)
    kw_param = prep7.params[-1] if prep7.params else ""
    # caller values: locals bound from <request kwargs param>.get(...) / [..]
    caller_vals = {name for name, ds in P7.defs.items() for k, v, _ in ds if v is not None and any(
        isinstance(x, ast.Name) and x.id in prep7.params and x.id != "self" for x in ast.walk(v)) and any(
        isinstance(x, (ast.Subscript, ast.Call)) for x in ast.walk(v)) and not any(isinstance(x, ast.Name) and x.id.startswith("authenticated") for x in ast.walk(v))}
    n7 = 0
    for nd in cfg7.nodes:
        if nd.kind != "stmt" or nd.ast is None or nd.copy:
            continue
        for c in calls_in(nd.ast):
            if dotted(c.func) == "dict" and c.args and any(isinstance(x, ast.Name) and x.id in caller_vals for x in ast.walk(c.args[0])):
                var = [x.id for x in ast.walk(c.args[0]) if isinstance(x, ast.Name) and x.id in caller_vals][0]
                n7 += 1
                typed = [g for g, pol in guards(cfg7, nd.id, dom7) if g.kind == "test" and pol is not None and any(
                    isinstance(x, ast.Call) and dotted(x.func) == "isinstance" and x.args and isinstance(x.args[0], ast.Name) and x.args[0].id == var for x in ast.walk(g.ast))]
                # ... or by the test of an enclosing conditional expression
                anc = parent(c)
                while anc is not None and not isinstance(anc, ast.stmt):
                    if isinstance(anc, ast.IfExp) and any(isinstance(x, ast.Call) and dotted(x.func) == "isinstance" and x.args and isinstance(x.args[0], ast.Name)
                                                          and x.args[0].id == var for x in ast.walk(anc.test)):
                        typed.append(type("G", (), {"ast": anc.test})())
                    anc = parent(anc)
                sub = f"{tmod7.relpath}:HttpxTransport._prepare_headers dict() of the caller's `{var}`"
                if typed:
                    rep.ok("R17.7", sub, f"converted only where `{norm(typed[0].ast)[:50]}` has settled its type (pair sequences keep their repeated names)", prep7.loc(c))
                else:
                    rep.violation("R17.7", sub, f"{prep7.fq}|caller-value-dict-unguarded",
                                  f"`{norm(c)[:50]}` turns whatever the caller passed into a dict: a sequence of (name, value) pairs with a repeated name "
                                  "(`[('tag','a'),('tag','b')]`) loses all but the last value as soon as a plugin adds a query parameter or cookie", prep7.loc(c))
    rep.count("R17.7:dict_conversions_of_caller_values", n7)

    # ---------------------------------------------------------------- R17.13 (= R4.23) a caller's mapping is not flattened into pairs
    # In httpx's mapping form a list value means "repeat the name" (`tags=a&tags=b`, the form/explode encoding the generated methods rely on);
    # in the pair form the second element is one primitive and a list is rendered with str().  `<caller value>.items()` spliced into a
    # list of pairs therefore changes what array-valued query parameters put on the wire.
    n13 = 0
    bad13 = 0
    for nd in cfg7.nodes:
        if nd.kind != "stmt" or nd.ast is None or nd.copy:
            continue
        for c in calls_in(nd.ast):
            if isinstance(c.func, ast.Attribute) and c.func.attr in ("items", "multi_items"):
                n13 += 1
                src13 = [x.id for x in ast.walk(c.func.value) if isinstance(x, ast.Name) and x.id in caller_vals]
                if c.func.attr == "items" and src13:
                    up = parent(c)
                    spliced = isinstance(up, ast.Starred) or (isinstance(up, ast.Call) and dotted(up.func) in ("list", "tuple"))
                    if spliced:
                        bad13 += 1
                        rep.violation("R17.13", f"{tmod7.relpath}:HttpxTransport._prepare_headers pairs made of the caller's `{src13[0]}`",
                                      f"{prep7.fq}|caller-mapping-flattened-to-pairs",
                                      f"`{norm(up)[:60]}` turns the caller's mapping into (name, value) pairs: a list value - an array query parameter, which httpx "
                                      "repeats per element in mapping form - becomes one pair whose value is rendered with str() (`tags=%5B%27a%27%2C+%27b%27%5D`)", prep7.loc(c))
    rep.count("R17.13:items_calls_in_merge", n13)
    if not bad13:
        rep.ok("R17.13", f"{tmod7.relpath}:HttpxTransport._prepare_headers caller mappings keep mapping form",
               f"{n13} `.items()`/`.multi_items()` calls: none flattens a caller-supplied mapping into a pair list (plugin dicts and URL queries only)", prep7.loc(prep7.node))

    # ---------------------------------------------------------------- R17.3 pass-through
    sub3 = f"{tmod.relpath}:HttpxTransport.request"
    kwname = req.node.args.kwarg.arg if req.node.args.kwarg else None  # type: ignore[attr-defined]
    rep.require(kwname is not None, "R17.3: request() has no **kwargs")
    sends = [c for c in calls_in(req.node) if isinstance(c.func, ast.Attribute) and c.func.attr == "request"
             and isinstance(c.func.value, ast.Attribute) and c.func.value.attr == "_client"]
    rep.require(len(sends) == 1, f"R17.3: expected one self._client.request call, found {len(sends)}")
    if sends and kwname:
        s = sends[0]
        pos_ok = len(s.args) >= 2 and all(isinstance(a, ast.Name) for a in s.args[:2]) and [a.id for a in s.args[:2]] == req.params[1:3]  # type: ignore[attr-defined]
        star = [k for k in s.keywords if k.arg is None]
        extra_kw = [k.arg for k in s.keywords if k.arg is not None]
        if pos_ok and len(star) == 1 and isinstance(star[0].value, ast.Name) and not extra_kw:
            rep.ok("R17.3", sub3 + " send", f"`{norm(s)}`: method and url unchanged, one **dict", req.loc(s))
            dv = star[0].value.id
            ddefs = [n for n in own_nodes(req.node) if isinstance(n, (ast.Assign, ast.AnnAssign)) and isinstance(
                (n.targets[0] if isinstance(n, ast.Assign) else n.target), ast.Name) and (n.targets[0] if isinstance(n, ast.Assign) else n.target).id == dv]  # type: ignore[union-attr]
            okc = False
            popped_headers = False
            why = f"`{dv}` is not built by a comprehension over {kwname}.items()"

            def _key_exclusions(test: ast.AST, kvar: str) -> Optional[Set[str]]:
                """keys a keep-filter drops, when every conjunct is a pure key exclusion (`k != 'x'`, `k not in ('x',)`, `not k == 'x'`); None otherwise"""
                out: Set[str] = set()
                for cj in conjuncts(test):
                    neg = False
                    while isinstance(cj, ast.UnaryOp) and isinstance(cj.op, ast.Not):
                        cj, neg = cj.operand, not neg
                    cj = canon_compare(cj)
                    if not (isinstance(cj, ast.Compare) and len(cj.ops) == 1 and isinstance(cj.left, ast.Name) and cj.left.id == kvar):
                        return None
                    op, rhs = cj.ops[0], cj.comparators[0]
                    if (isinstance(op, ast.NotEq) and not neg) or (isinstance(op, ast.Eq) and neg):
                        if const_str(rhs) is None:
                            return None
                        out.add(const_str(rhs) or "")
                    elif (isinstance(op, ast.NotIn) and not neg) or (isinstance(op, ast.In) and neg):
                        if not isinstance(rhs, (ast.Tuple, ast.List, ast.Set)) or not all(const_str(e) is not None for e in rhs.elts):
                            return None
                        out |= {const_str(e) or "" for e in rhs.elts}
                    else:
                        return None
                return out

            dval = ddefs[0].value if len(ddefs) == 1 else None
            # `{k: v for ... if k != "headers"} | {"headers": prepared}`: the union only (re)fills the headers slot
            merged_headers_slot = False
            if isinstance(dval, ast.BinOp) and isinstance(dval.op, ast.BitOr) and isinstance(dval.right, ast.Dict) and len(dval.right.keys) == 1 \
                    and dval.right.keys[0] is not None and const_str(dval.right.keys[0]) == "headers":
                dval, merged_headers_slot = dval.left, True
            if dval is not None and isinstance(dval, ast.DictComp):
                dc = dval
                g = dc.generators[0]
                it_ok = norm(g.iter) == f"{kwname}.items()" and len(dc.generators) == 1
                kv_ok = isinstance(g.target, ast.Tuple) and len(g.target.elts) == 2 and norm(dc.key) == norm(g.target.elts[0]) and norm(dc.value) == norm(g.target.elts[1])
                excl = _key_exclusions(g.ifs[0], norm(dc.key)) if len(g.ifs) == 1 else (set() if not g.ifs else None)
                flt_ok = excl is not None and excl <= {"headers"}
                popped_headers = excl == {"headers"}
                okc = it_ok and kv_ok and flt_ok
                why = f"`{norm(dc)}`"
            elif dval is not None and norm(dval) in (f"dict({kwname})", f"{kwname}.copy()", f"{{**{kwname}}}"):
                okc, why = True, f"`{norm(ddefs[0].value)}`"
            if okc:
                rep.ok("R17.3", sub3 + " kwargs copy", f"every caller kwarg except 'headers' is forwarded unchanged: {why}", req.loc(ddefs[0]))
            else:
                rep.violation("R17.3", sub3 + " kwargs copy", f"{req.fq}|kwargs-copy",
                              f"the forwarded argument dict filters or rewrites caller arguments: {why}", req.loc(ddefs[0] if ddefs else req.node))
            # later edits of the dict: only ["headers"] = <prepared>
            for n in own_nodes(req.node):
                if isinstance(n, ast.Assign):
                    for t in n.targets:
                        if isinstance(t, ast.Subscript) and isinstance(t.value, ast.Name) and t.value.id == dv:
                            if const_str(t.slice) == "headers":
                                rep.ok("R17.3", sub3 + " headers slot", f"`{norm(n)}`", req.loc(n))
                            else:
                                rep.violation("R17.3", sub3 + " extra write", f"{req.fq}|extra-write|{norm(t)}",
                                              f"`{norm(n)}` overrides a caller argument", req.loc(n))
                if isinstance(n, ast.Call) and isinstance(n.func, ast.Attribute) and isinstance(n.func.value, ast.Name) and n.func.value.id == dv \
                        and n.func.attr == "pop" and n.args and const_str(n.args[0]) == "headers":
                    continue  # the headers slot is replaced by the prepared headers anyway
                if isinstance(n, ast.Call) and isinstance(n.func, ast.Attribute) and isinstance(n.func.value, ast.Name) and n.func.value.id == dv \
                        and n.func.attr in ("pop", "clear", "popitem", "update", "setdefault"):
                    rep.violation("R17.3", sub3 + " extra mutation", f"{req.fq}|mutation|{norm(n)}", f"`{norm(n)}` changes what the caller passed", req.loc(n))
                if isinstance(n, ast.Delete):
                    rep.violation("R17.3", sub3 + " extra mutation", f"{req.fq}|mutation|{norm(n)}", f"`{norm(n)}` drops a caller argument", req.loc(n))
        else:
            rep.violation("R17.3", sub3 + " send", f"{req.fq}|send-shape|{norm(s)}",
                          f"`{norm(s)}` does not forward (method, url, **args) as received", req.loc(s))

    # ---------------------------------------------------------------- R17.4 CompositeAuth
    base = repo.module("core.auth.base")
    comp = base.classes.get("CompositeAuth")
    if comp is None or "authenticate_request" not in comp.methods:
        raise AnalysisError("anchor vanished: CompositeAuth.authenticate_request")
    m = comp.methods["authenticate_request"]
    p = m.params[1]
    loops = [n for n in own_nodes(m.node) if isinstance(n, ast.For)]
    sub4 = f"{base.relpath}:CompositeAuth.authenticate_request"
    ok4 = False
    why4 = "no loop over self.plugins"
    if len(loops) == 1:
        lp = loops[0]
        it_ok = norm(lp.iter) == "self.plugins"
        body_ok = len(lp.body) == 1 and isinstance(lp.body[0], ast.Assign) and isinstance(lp.body[0].targets[0], ast.Name)
        sv = lp.body[0].targets[0].id if body_ok else None  # the threaded state: the parameter itself or a local initialised with it
        if body_ok and sv != p:
            inits = [n for n in own_nodes(m.node) if isinstance(n, (ast.Assign, ast.AnnAssign)) and n.value is not None
                     and isinstance(n.targets[0] if isinstance(n, ast.Assign) else n.target, ast.Name)
                     and (n.targets[0] if isinstance(n, ast.Assign) else n.target).id == sv and not _inside(n, lp)]
            body_ok = len(inits) == 1 and isinstance(inits[0].value, ast.Name) and inits[0].value.id == p and inits[0].lineno < lp.lineno
        call = None
        if body_ok:
            v = lp.body[0].value
            v = v.value if isinstance(v, ast.Await) else v
            call = v if isinstance(v, ast.Call) else None
        thread_ok = call is not None and isinstance(call.func, ast.Attribute) and call.func.attr == "authenticate_request" \
            and isinstance(call.func.value, ast.Name) and isinstance(lp.target, ast.Name) and call.func.value.id == lp.target.id \
            and len(call.args) == 1 and isinstance(call.args[0], ast.Name) and call.args[0].id == sv
        rets = [n for n in own_nodes(m.node) if isinstance(n, ast.Return)]
        ret_ok = len(rets) == 1 and isinstance(rets[0].value, ast.Name) and rets[0].value.id == sv and not _inside(rets[0], lp)
        ok4 = it_ok and body_ok and thread_ok and ret_ok
        why4 = f"iter={norm(lp.iter)} body-threads={thread_ok} returns-result-after-loop={ret_ok}"
    init = comp.methods.get("__init__")
    def _as_given(v: ast.AST, va: str) -> bool:
        if isinstance(v, ast.Call) and dotted(v.func) in ("tuple", "list") and len(v.args) == 1:
            v = v.args[0]
        return isinstance(v, ast.Name) and v.id == va

    store_ok = init is not None and init.node.args.vararg is not None and any(  # type: ignore[attr-defined]
        isinstance(n, (ast.Assign, ast.AnnAssign)) and norm(n.targets[0] if isinstance(n, ast.Assign) else n.target) == "self.plugins" and n.value is not None
        and _as_given(n.value, init.node.args.vararg.arg) for n in own_nodes(init.node))  # type: ignore[attr-defined]
    if ok4 and store_ok:
        rep.ok("R17.4", sub4, "each plugin receives the previous plugin's result, in constructor order; the last result is returned", m.loc())
    else:
        rep.violation("R17.4", sub4, f"{m.fq}|composition|{why4}|stored={store_ok}",
                      f"CompositeAuth does not thread request_args through self.plugins in composition order ({why4}; plugins stored as given={store_ok})", m.loc())

    # ---------------------------------------------------------------- R17.5 / R17.6 plugins
    plugs = repo.module("core.auth.plugins")
    n_plug = 0
    for cls in plugs.classes.values():
        m = cls.methods.get("authenticate_request")
        if m is None:
            continue
        n_plug += 1
        from sa.flatten import flatten as _fl176

        m = _fl176(m)  # shared helpers (`merge_into_request_headers`, possibly imported from the base module) are written out
        _plugin_rules(cls, m, rep)
        _credential_from_state(cls, m, rep)
    rep.count("R17.6:bundled_plugins", n_plug)
    rep.require(n_plug >= 4, f"R17.6: only {n_plug} bundled plugins found (floor 4)")
    ak = plugs.classes.get("ApiKeyAuth")
    if ak is None:
        raise AnalysisError("anchor vanished: ApiKeyAuth")
    _apikey_rules(ak, rep)


def _store_on_all_paths(fn: Function, k: str, tainted: Set[str], params: Set[str], lc: Dict[str, List[str]]) -> bool:
    # When the read value is forwarded by a store `param_dict[K] = ...` (not by `return`), that store must lie
    # on every path from the truth test of the read value back to the loop head / the exit.
    cfg = CFG(fn.node)
    stores = set()
    for n in cfg.nodes:
        if n.kind == "stmt" and isinstance(n.ast, ast.Assign):
            for t in n.ast.targets:
                if isinstance(t, ast.Subscript) and isinstance(t.value, ast.Name) and t.value.id in params \
                        and k in _const_keys_of_subscript(t.slice, lc):
                    stores.add(n.id)
    if not stores:
        return True  # forwarded through `return` (checked by the caller)
    dom = cfg.dominators()
    tests = [n for n in cfg.nodes if n.kind == "test" and any(isinstance(x, ast.Name) and x.id in tainted for x in ast.walk(n.ast))
             and any(n.id in dom[s] for s in stores)]
    if not tests:
        return False
    t = min(tests, key=lambda n: n.lineno)
    targets = {cfg.exit} | {n.id for n in cfg.nodes if n.kind == "iter"}
    # the branch on which the value is present: the true branch, or the false branch of a negated test (`if not (...): continue`)
    present = "true"
    te = t.ast
    while isinstance(te, ast.UnaryOp) and isinstance(te.op, ast.Not):
        te, present = te.operand, ("false" if present == "true" else "true")
    if isinstance(te, ast.BoolOp) and isinstance(te.op, ast.Or) and all(isinstance(v, ast.UnaryOp) and isinstance(v.op, ast.Not) for v in te.values):
        present = "false" if present == "true" else "true"  # `not A or not B` = not (A and B)
    for m, lab in cfg.succ[t.id]:
        if lab != present or m in stores:
            continue
        if cfg.must_pass(m, stores, targets) is not None:
            return False
    return True


def _inside(node: ast.AST, anc: ast.AST) -> bool:
    p: Optional[ast.AST] = node
    while p is not None:
        if p is anc:
            return True
        p = parent(p)
    return False


def _credential_from_state(cls: Class, m: Function, rep: Report, rule: str = "R17.8") -> None:
    """The credential a plugin writes into the request comes from the plugin's *state* (`self.<attr>`), not from the raw result of an
    awaited callback: a refresh hook that answers "nothing new" (empty / None) must leave the stored token in the header."""
    from sa.match import Locals as _L

    L = _L(m.node)
    sub = f"{cls.module.relpath}:{cls.name}.authenticate_request credential source"
    n_w = 0
    bad = None
    for n in own_nodes(m.node):
        if not (isinstance(n, ast.Assign) and len(n.targets) == 1 and isinstance(n.targets[0], ast.Subscript) and isinstance(n.targets[0].value, ast.Name)):
            continue
        if n.targets[0].value.id in L.params:
            continue  # `request_args["headers"] = headers`: the container, not a credential
        n_w += 1
        v = L.inline(n.value, stop=tuple(L.params))
        for x in ast.walk(v):
            if isinstance(x, ast.Await):
                bad = bad or (n, "the awaited result itself")
            if isinstance(x, ast.Name) and x.id not in ("self",) and x.id not in L.params:
                defs = L.defs.get(x.id, [])
                def _raw(val: Optional[ast.AST]) -> bool:
                    if val is None or not any(isinstance(y, ast.Await) for y in ast.walk(val)):
                        return False
                    # `await cb(...) or self.token`: an empty answer falls back to the stored credential
                    if isinstance(val, ast.BoolOp) and isinstance(val.op, ast.Or) and not any(isinstance(y, ast.Await) for y in ast.walk(val.values[-1])):
                        return False
                    return True

                if any(_raw(val) for _, val, _ in defs):
                    bad = bad or (n, f"local `{x.id}`, which can hold the raw result of an awaited callback")
    if bad:
        rep.violation(rule, sub, f"{m.fq}|credential-from-callback-result",
                      f"`{norm(bad[0])[:70]}` writes {bad[1]} into the request instead of the plugin's stored credential: when the refresh hook returns an empty value "
                      "('nothing new') the request leaves with `Bearer ` / `Bearer None` although a valid token is stored", m.loc(bad[0]))
    elif n_w:
        rep.ok(rule, sub, f"{n_w} credential write(s) are built from self.<attr> / constants (an awaited callback only updates the stored value under a guard)", m.loc())


def _plugin_rules(cls: Class, m: Function, rep: Report) -> None:
    p = m.params[1]
    sub = f"{cls.module.relpath}:{cls.name}.authenticate_request"
    # every normal exit returns the request_args parameter
    rets = [n for n in own_nodes(m.node) if isinstance(n, ast.Return)]
    if rets and all(isinstance(r.value, ast.Name) and r.value.id == p for r in rets):
        rep.ok("R17.6", sub + " returns args", f"returns `{p}` (so a composite can thread it on)", m.loc(rets[0]))
    else:
        rep.violation("R17.6", sub + " returns args", f"{m.fq}|return", "does not return the (augmented) request_args on every path", m.loc())
    # copy-then-extend
    for n in own_nodes(m.node):
        if not isinstance(n, ast.Assign):
            continue
        for t in n.targets:
            if isinstance(t, ast.Subscript) and isinstance(t.value, ast.Name) and t.value.id == p:
                k = const_str(t.slice)
                v = n.value
                def existing(e: ast.AST) -> bool:
                    """<p>.get(k, ...) / <p>.get(k) or {} / <p>[k]"""
                    if isinstance(e, ast.BoolOp) and isinstance(e.op, ast.Or):
                        e = e.values[0]
                    if isinstance(e, ast.Call) and isinstance(e.func, ast.Attribute) and e.func.attr == "get" and norm(e.func.value) == p and e.args and const_str(e.args[0]) == k:
                        return True
                    return isinstance(e, ast.Subscript) and norm(e.value) == p and const_str(e.slice) == k

                def from_existing(e: ast.AST) -> bool:
                    """a fresh container that starts with the existing entries, later entries (the plugin's) winning"""
                    if isinstance(e, ast.Call) and dotted(e.func) == "dict" and e.args and existing(e.args[0]):
                        return True
                    if isinstance(e, ast.Call) and isinstance(e.func, ast.Attribute) and e.func.attr == "copy" and not e.args and existing(e.func.value):
                        return True
                    if isinstance(e, ast.Dict) and e.keys and e.keys[0] is None and (existing(e.values[0]) or from_existing(e.values[0])):
                        return True
                    if isinstance(e, ast.BinOp) and isinstance(e.op, ast.BitOr) and existing(e.left):
                        return True
                    return False

                ok = False
                if isinstance(v, ast.Name):
                    defs = [d for d in own_nodes(m.node) if isinstance(d, (ast.Assign, ast.AnnAssign)) and isinstance(d.targets[0] if isinstance(d, ast.Assign) else d.target, ast.Name)
                            and (d.targets[0] if isinstance(d, ast.Assign) else d.target).id == v.id and d.value is not None]
                    ok = bool(defs) and all(from_existing(d.value) for d in defs)
                else:
                    ok = from_existing(v)
                if ok:
                    rep.ok("R17.6", sub + f" extends [{k!r}]", f"starts from a copy of the existing {p}[{k!r}] (earlier layers are kept)", m.loc(n))
                else:
                    rep.violation("R17.6", sub + f" extends [{k!r}]", f"{m.fq}|overwrites|{k}",
                                  f"`{norm(n)}` does not start from the existing {p}[{k!r}]: headers set by defaults, the request or earlier plugins are lost", m.loc(n))


def _apikey_rules(cls: Class, rep: Report) -> None:
    m = cls.methods["authenticate_request"]
    p = m.params[1]
    sub = f"{cls.module.relpath}:ApiKeyAuth.authenticate_request"
    want = {"header": "headers", "query": "params", "cookie": "cookies"}
    cfg = CFG(m.node)
    found: Dict[str, str] = {}
    AL = Locals(m.node)
    # table-driven form: a constant (location -> request-argument key) table of the module, looked up by self.location (in the method or
    # a helper of the class that raises ValueError when nothing matches); the method writes {self.name: self.key} into request_args[<that key>]
    table = None
    for st in cls.module.tree.body:
        if isinstance(st, (ast.Assign, ast.AnnAssign)) and getattr(st, "value", None) is not None:
            v = st.value
            pairs = None
            if isinstance(v, ast.Dict) and all(k is not None and const_str(k) is not None and const_str(x) is not None for k, x in zip(v.keys, v.values)):
                pairs = {const_str(k): const_str(x) for k, x in zip(v.keys, v.values)}
            elif isinstance(v, (ast.Tuple, ast.List)) and v.elts and all(isinstance(e, (ast.Tuple, ast.List)) and len(e.elts) == 2 and all(const_str(y) is not None for y in e.elts) for e in v.elts):
                pairs = {const_str(e.elts[0]): const_str(e.elts[1]) for e in v.elts}
            if pairs and set(want) & set(pairs):
                tg = st.targets[0] if isinstance(st, ast.Assign) else st.target
                table = (tg.id if isinstance(tg, ast.Name) else "?", pairs)
    def _explicit_switch(t_: ast.AST) -> bool:
        """`self.location == "<literal>"` somewhere in the test (an if-chain over the locations, not a test of a looked-up value)"""
        return any(isinstance(x, ast.Compare) and len(x.ops) == 1 and isinstance(x.ops[0], (ast.Eq, ast.In)) and norm(AL.inline(x.left)) == "self.location"
                   and all(isinstance(y, ast.Constant) for y in ast.walk(x.comparators[0]) if isinstance(y, (ast.Constant, ast.Name))) for x in ast.walk(t_))

    if table is not None and not any(isinstance(s_, ast.If) and _explicit_switch(s_.test) for s_ in m.node.body):  # type: ignore[attr-defined]
        tname, pairs = table
        scope = [m] + [h for hn, h in cls.methods.items() if any(isinstance(c.func, ast.Attribute) and c.func.attr == hn for c in calls_in(m.node))]
        scope += [h for hn, h in cls.module.functions.items() if "." not in hn and any(isinstance(c.func, ast.Name) and c.func.id == hn for c in calls_in(m.node))]
        looks_up = any(isinstance(x, ast.Name) and x.id == tname for f_ in scope for x in ast.walk(f_.node)) and any(
            "self.location" in norm(x) for f_ in scope for x in ast.walk(f_.node) if isinstance(x, (ast.Compare, ast.Subscript, ast.Call)))
        raises = any(isinstance(x, ast.Raise) and x.exc is not None and "ValueError" in norm(x.exc) for f_ in scope for x in ast.walk(f_.node))
        writes_named = any(isinstance(n, ast.Assign) and any(isinstance(tg, ast.Subscript) and norm(tg.slice) == "self.name" for tg in n.targets) and norm(n.value) == "self.key"
                           for n in own_nodes(m.node)) or any(
            isinstance(n, ast.Dict) and any(k is not None and norm(k) == "self.name" and norm(x) == "self.key" for k, x in zip(n.keys, n.values)) for n in own_nodes(m.node))
        writes_container = any(isinstance(n, ast.Assign) and any(isinstance(tg, ast.Subscript) and isinstance(tg.value, ast.Name) and tg.value.id == p and not const_str(tg.slice)
                                                                 for tg in n.targets) for n in own_nodes(m.node))
        if looks_up and writes_container:
            for loc_val, exp in want.items():
                got = pairs.get(loc_val)
                if got == exp and writes_named:
                    rep.ok("R17.5", sub + f" location={loc_val!r}", f"table `{tname}` routes it to request_args[{got!r}], written as {{self.name: self.key}}", m.loc())
                else:
                    rep.violation("R17.5", sub + f" location={loc_val!r}", f"{m.fq}|location|{loc_val}|{[got]}|{writes_named}",
                                  f"location {loc_val!r} writes into {[got]} (expected [{exp!r}]) / uses configured name+key: {writes_named}", m.loc())
            if raises:
                rep.ok("R17.5", sub + " unknown location", "an unknown location raises ValueError", m.loc())
            else:
                rep.violation("R17.5", sub + " unknown location", f"{m.fq}|unknown-location-silent", "an unknown location does not raise: the key is silently not sent", m.loc())
            return
    # a `match self.location:` statement is the same switch: rewritten as the equivalent if/elif chain
    for mi, st in enumerate(list(m.node.body)):  # type: ignore[attr-defined]
        if isinstance(st, ast.Match) and norm(AL.inline(st.subject)) == "self.location":
            chain_head = None
            tail: list = []
            for cs in reversed(st.cases):
                pat_ = cs.pattern
                if isinstance(pat_, ast.MatchValue) and const_str(pat_.value) is not None and cs.guard is None:
                    node = ast.If(test=ast.Compare(left=st.subject, ops=[ast.Eq()], comparators=[pat_.value]), body=cs.body, orelse=tail)
                    ast.copy_location(node, cs.body[0])
                    tail = [node]
                    chain_head = node
                elif isinstance(pat_, ast.MatchAs) and pat_.pattern is None and cs.guard is None:
                    tail = list(cs.body)
            if chain_head is not None:
                m.node.body[mi] = tail[0] if tail else chain_head  # type: ignore[attr-defined]
    # guard-clause form: `if self.location == "header": ...; return x` / `if ... "query": ...; return x` / ... / `raise ValueError` is the same switch:
    # rewritten as the equivalent if/elif/else chain (analysis only)
    body_ = m.node.body  # type: ignore[attr-defined]
    ifs_ = [i_ for i_, st_ in enumerate(body_) if isinstance(st_, ast.If) and not st_.orelse and st_.body and isinstance(st_.body[-1], (ast.Return, ast.Raise)) and _explicit_switch(st_.test)]
    if len(ifs_) >= 2 and ifs_ == list(range(ifs_[0], ifs_[0] + len(ifs_))):
        rest_ = body_[ifs_[-1] + 1:]
        for a_, b_ in zip(ifs_, ifs_[1:]):
            body_[a_].orelse = [body_[b_]]
        body_[ifs_[-1]].orelse = list(rest_)
        del body_[ifs_[0] + 1:]
    top = [s for s in m.node.body if isinstance(s, ast.If)]  # type: ignore[attr-defined]
    chain = top[0] if top else None
    last_else: List[ast.stmt] = []
    while chain is not None:
        t = chain.test
        loc_val = None
        mt = match("ANY_l == STR_v", t)
        if mt is not None and norm(AL.inline(mt["ANY_l"])) == "self.location":
            loc_val = mt["STR_v"]
        if loc_val is not None:
            # container key written in this branch
            keys = []
            name_ok = key_ok = False
            for st in chain.body:
                for n in ast.walk(st):
                    if isinstance(n, ast.Assign):
                        for tg in n.targets:
                            if isinstance(tg, ast.Subscript) and isinstance(tg.value, ast.Name) and tg.value.id == p and const_str(tg.slice):
                                keys.append(const_str(tg.slice))
                            if isinstance(tg, ast.Subscript) and norm(tg.slice) == "self.name" and norm(n.value) == "self.key":
                                name_ok = key_ok = True
                    if isinstance(n, ast.Dict) and any(k is not None and norm(k) == "self.name" and norm(v) == "self.key" for k, v in zip(n.keys, n.values)):
                        name_ok = key_ok = True  # {**existing, self.name: self.key}
            found[loc_val] = keys[0] if keys else "?"
            if keys == [want.get(loc_val)] and name_ok and key_ok:
                rep.ok("R17.5", sub + f" location={loc_val!r}", f"writes {{self.name: self.key}} into request_args[{keys[0]!r}]", m.loc(chain))
            else:
                rep.violation("R17.5", sub + f" location={loc_val!r}", f"{m.fq}|location|{loc_val}|{keys}|{name_ok}",
                              f"location {loc_val!r} writes into {keys} (expected [{want.get(loc_val)!r}]) / uses configured name+key: {name_ok}", m.loc(chain))
        nxt = chain.orelse
        if len(nxt) == 1 and isinstance(nxt[0], ast.If):
            chain = nxt[0]
        else:
            last_else = nxt
            chain = None
    for loc_val in want:
        if loc_val not in found:
            rep.violation("R17.5", sub + f" location={loc_val!r}", f"{m.fq}|location-missing|{loc_val}",
                          f"documented location {loc_val!r} has no branch", m.loc())
    if last_else and any(isinstance(s, ast.Raise) for s in last_else):
        rep.ok("R17.5", sub + " unknown location", "else-branch raises", m.loc(last_else[0]))
    else:
        rep.violation("R17.5", sub + " unknown location", f"{m.fq}|location-else", "an unknown location is silently accepted (no key is sent)", m.loc())
