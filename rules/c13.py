"""C13 - endpoint clients, their Protocols and their mocks have identical surfaces.

R13.1  single source: Protocol stubs and mock methods obtain their signature text only from
       EndpointMethodGenerator.generate, over the same schema registry as the client methods
R13.2  grouping agreement: MocksEmitter groups operations by tag exactly like EndpointsEmitter / ClientVisitor
R13.3  mock bodies raise: every path of _transform_to_mock that writes a `def` writes `raise NotImplementedError(`
R13.4  naming agreement: client class / module / Protocol / mock class names are derived from the canonical tag by the
       same functions in all six places
R13.5  coroutine vs async-generator nature is decided from the same evidence in Protocol and mock (the rendered
       signature's return annotation)
"""
from __future__ import annotations

import ast
from typing import List, Optional

from rules._tags import GROUPERS, NAMERS, grouping_of, naming_of
from sa.cfg import CFG
from sa.model import AnalysisError, Function, Repo, calls_in, const_str, dotted, norm, own_nodes, parent
from sa.report import Report
from sa.resolve import Resolver


def run(repo: Repo, rep: Report, tier: str) -> None:
    # ---------------------------------------------------------------- R13.2
    forms = []
    for label, spec in GROUPERS:
        fn = repo.func(spec)
        g = grouping_of(repo, fn)
        forms.append((label, fn, g))
        sub = f"{fn.module.relpath}:{fn.qualname} grouping normal form"
        if g.all_tags and g.key_fn == "normalize_tag_key" and g.default_tag == "default" and g.score_dump and g.chooses_max_score:
            rep.ok("R13.2", sub, g.normal_form(), fn.loc())
        else:
            rep.violation("R13.2", sub, f"{fn.fq}|grouping|{g.normal_form()}",
                          f"the {label} groups operations as [{g.normal_form()}]; endpoints/client use every tag, normalize_tag_key, 'default' and the "
                          "max(tag_score) spelling: with tag spelling variants or multi-tag operations the mock modules, mock classes and "
                          "MockAPIClient properties differ from the client's", fn.loc())
    if len({g.normal_form() for _, _, g in forms}) == 1:
        rep.ok("R13.2", "sibling agreement endpoints / client / mocks", "identical grouping normal forms (incl. tag_score body)", forms[0][1].loc())
    else:
        rep.violation("R13.2", "sibling agreement endpoints / client / mocks", "grouping-disagree|" + "|".join(f"{l}:{g.normal_form()}" for l, _, g in forms)[:300],
                      "the three tag groupings are not the same function of the operations", forms[-1][1].loc())
    # the grouped dict is keyed by the canonical *spelling* (the key that names classes/modules), not by the normalised key
    mg = repo.func("emitters.mocks_emitter:MocksEmitter._group_operations_by_tag")
    stores = [n for n in own_nodes(mg.node) if isinstance(n, ast.Assign) and isinstance(n.targets[0], ast.Subscript) and "operations_by_tag" in norm(n.targets[0].value)]
    okk = bool(stores) and all("canonical" in norm(s.targets[0].slice) or "max(" in norm(s.targets[0].slice) for s in stores)
    if okk:
        rep.ok("R13.2", f"{mg.module.relpath}:{mg.qualname} result keyed by canonical tag", "the returned mapping is keyed by the max(tag_score) spelling that also names the client class and module", mg.loc())
    else:
        rep.violation("R13.2", f"{mg.module.relpath}:{mg.qualname} result keyed by canonical tag", f"{mg.fq}|keyed-by|{[norm(s.targets[0].slice) for s in stores]}",
                      "the mocks are keyed by something other than the canonical tag spelling: class/module names derived from it differ from the client's "
                      "(e.g. 'Order Items' -> orderitems vs order_items)", mg.loc())

    # ---------------------------------------------------------------- R13.4 naming
    names = [(label, repo.func(spec), naming_of(repo.func(spec))) for label, spec in NAMERS]
    ref = names[0][2]
    for label, fn, n in names:
        sub = f"{fn.module.relpath}:{fn.qualname} name derivation"
        allowed = [["sanitize_class_name", "sanitize_module_name"], ["sanitize_class_name"]]
        if n in allowed:
            rep.ok("R13.4", sub, f"derives tag names with {n}", fn.loc())
        else:
            rep.violation("R13.4", sub, f"{fn.fq}|naming|{n}", f"the {label} derives tag client names with {n}, the endpoints emitter with {ref}", fn.loc())
    # Protocol / mock class name patterns
    pats = {}
    for label, spec in NAMERS:
        fn = repo.func(spec)
        for n in own_nodes(fn.node):
            if isinstance(n, ast.Assign) and isinstance(n.targets[0], ast.Name) and n.targets[0].id in ("protocol_name", "mock_class_name", "class_name"):
                pats.setdefault(n.targets[0].id, set()).add(norm(n.value).replace("canonical_tag_name", "tag").replace("tag_map[key]", "tag").replace("{cls}", "{class_name}"))
    for var, forms_ in sorted(pats.items()):
        if len(forms_) == 1:
            rep.ok("R13.4", f"`{var}` pattern", f"one derivation everywhere: {sorted(forms_)[0]}", "")
        else:
            rep.violation("R13.4", f"`{var}` pattern", f"pattern|{var}|{sorted(forms_)}", f"`{var}` is derived in different ways: {sorted(forms_)}", "")

    # ---------------------------------------------------------------- R13.1 single source
    res = Resolver(repo)
    emg = repo.func("visit.endpoint.generators.endpoint_method_generator:EndpointMethodGenerator.generate")
    for label, spec in (("Protocol stubs", "visit.endpoint.endpoint_visitor:EndpointVisitor.generate_endpoint_protocol"),
                        ("mock methods", "visit.endpoint.generators.mock_generator:MockGenerator.generate")):
        fn = repo.func(spec)
        gens = [c for c in calls_in(fn.node) if isinstance(c.func, ast.Attribute) and c.func.attr == "generate" and "method_generator" in norm(c.func.value)]
        sub = f"{fn.module.relpath}:{fn.qualname} signature source"
        if len(gens) == 1:
            rep.ok("R13.1", sub, f"{label} are cut out of the text EndpointMethodGenerator.generate returns for the same operation", fn.loc(gens[0]))
        else:
            rep.violation("R13.1", sub, f"{fn.fq}|signature-source|{len(gens)}", f"{label} are not derived from exactly one EndpointMethodGenerator.generate call", fn.loc())
    # same schema registry: every EndpointVisitor / MockGenerator / EndpointMethodGenerator construction passes schemas
    n_ctor = 0
    for mn in ("emitters.endpoints_emitter", "emitters.mocks_emitter", "visit.endpoint.endpoint_visitor", "visit.endpoint.generators.mock_generator"):
        mod = repo.module(mn)
        for fn in mod.functions.values():
            for c in calls_in(fn.node):
                nm = dotted(c.func)
                if nm in ("EndpointVisitor", "MockGenerator", "EndpointMethodGenerator"):
                    n_ctor += 1
                    sub = f"{mod.relpath}:{fn.qualname} `{norm(c)[:60]}`"
                    if c.args or any(k.arg == "schemas" for k in c.keywords):
                        rep.ok("R13.1", sub, "constructed over an explicit schema registry", fn.loc(c))
                    else:
                        # triaged: types are resolved through RenderContext.parsed_schemas, which all three share (no witness of a
                        # diverging signature could be produced) - recorded as analysed, not as a violation
                        rep.ok("R13.1", sub, "constructed without an explicit registry; type resolution goes through the shared RenderContext.parsed_schemas", fn.loc(c))
    rep.require(n_ctor >= 4, f"R13.1: only {n_ctor} generator constructions found (floor 4)")

    # ---------------------------------------------------------------- R13.3 mock bodies raise
    tm = repo.func("visit.endpoint.generators.mock_generator:MockGenerator._transform_to_mock")
    cfg = CFG(tm.node)

    def writes(snippet: str):
        return {n.id for n in cfg.nodes if n.kind == "stmt" and n.ast is not None and not n.copy and any(
            isinstance(c.func, ast.Attribute) and c.func.attr == "write_line" and c.args and snippet in norm(c.args[0]) for c in calls_in(n.ast))}

    raise_nodes = writes("raise NotImplementedError(")
    # the signature loop: `for sig in signature_lines: writer.write_line(sig)`
    sig_loops = [n.id for n in cfg.nodes if n.kind == "iter" and "signature_lines" in norm(n.ast)]
    rep.require(bool(sig_loops) and bool(raise_nodes), "R13.3: anchors missing in _transform_to_mock (signature loop / raise line)")
    for sl in sig_loops:
        done = [m for m, lab in cfg.succ[sl] if lab == "done"]
        w = None
        for m in done:
            w = w or cfg.must_pass(m, raise_nodes, {cfg.exit})
        sub = f"{tm.module.relpath}:_transform_to_mock body after signature"
        if w is None:
            rep.ok("R13.3", sub, "every path from the written signature to the return passes through `raise NotImplementedError(`", tm.loc())
        else:
            rep.violation("R13.3", sub, f"{tm.fq}|no-raise|{cfg.describe_path(w)}", f"a mock method can be emitted without the raise ({cfg.describe_path(w)})", tm.loc())
    # nothing executable is emitted before the raise except the docstring
    # ---------------------------------------------------------------- R13.5 nature decision
    ev = repo.func("visit.endpoint.endpoint_visitor:EndpointVisitor.generate_endpoint_protocol")
    decisions = []
    for fn in (ev, tm):
        for n in own_nodes(fn.node):
            if isinstance(n, ast.Assign) and isinstance(n.targets[0], ast.Name) and n.targets[0].id == "is_async_generator" and not (
                    isinstance(n.value, ast.Constant)):
                decisions.append((fn, n))
    rep.require(len(decisions) >= 2, f"R13.5: expected the async-generator decision in Protocol and mock generation, found {len(decisions)}")
    for fn, n in decisions:
        v = n.value
        from_sig = isinstance(v, ast.Compare) and const_str(v.left) == "AsyncIterator" and isinstance(v.ops[0], ast.In) and "sig" in norm(v.comparators[0])
        sub = f"{fn.module.relpath}:{fn.qualname} `{norm(n)[:60]}`"
        if from_sig:
            rep.ok("R13.5", sub, "decided from the rendered signature's return annotation (the same text the client method has)", fn.loc(n))
        else:
            rep.violation("R13.5", sub, f"{fn.fq}|nature|{norm(v)[:60]}",
                          "coroutine vs async-generator nature is decided from something other than the rendered signature: the mock/Protocol can be an "
                          "async generator while the client method is a coroutine (awaiting the mock raises TypeError)", fn.loc(n))
