"""C13 - endpoint clients, their Protocols and their mocks have identical surfaces.

R13.1  single source: Protocol stubs and mock methods obtain their signature text only from
       EndpointMethodGenerator.generate, over the same schema registry as the client methods
R13.2  grouping agreement: MocksEmitter groups operations by tag exactly like EndpointsEmitter / ClientVisitor
R13.3  mock bodies raise: every path of _transform_to_mock that writes a `def` writes `raise NotImplementedError(`
R13.4  naming agreement: client class / module / Protocol / mock class names are derived from the canonical tag by the
       same functions in all six places
R13.8  no function of visit/endpoint changes its IROperation (or an alias of one of its attributes) in place: the three renderings see one operation
R13.14 a success arm returns None only where the strategy's return type is None (no other shortcut removes the yield loop of a streaming method)        [= R5.5]
R13.13 a model class never takes the name `Protocol` (or another name the tag modules use): client / Protocol module importable next to the mock   [= R20.13]
R13.12 a stream declared under `default` (the primary response when nothing else is declared) is yielded by the client method: the flag that lets the
       wildcard arm write the strategy's return evaluates to true for a streaming strategy with a default response that has content
R13.11 the emitter that renames colliding operation ids in the shared IR runs before every emitter that derives method names from them (the mocks see the final names)
R13.10 a streamed primary response declared as `2XX` gets its `yield` loop in the client method (Protocol and mock are async generators)   [= R5.18]
R13.9  the resolver's "this is the model's own module" decision compares the directory / package of the current file, not just its name
R13.7  an instance-level memo table in the visit/endpoint generators is keyed by every parameter its value is computed from
R13.6  a consumer that reads the nature from the one line closing a rendered signature obliges CodeWriter.write_function_signature to put the
       whole return annotation on that line (producer/consumer contract; not armed when every consumer joins the signature lines)
R13.5  coroutine vs async-generator nature is decided from the same evidence in Protocol and mock (the rendered
       signature's return annotation)
"""
from __future__ import annotations

import ast
from typing import List, Optional

from rules._tags import GROUPERS, NAMERS, grouping_of, naming_of
from sa.cfg import CFG
from sa.model import AnalysisError, Function, Repo, calls_in, const_str, dotted, norm, own_nodes, parent
from sa.match import Locals
from sa.report import Report
from sa.resolve import Resolver


def run(repo: Repo, rep: Report, tier: str) -> None:
    from sa.report import guarded as _guarded

    # ---------------------------------------------------------------- R13.2
    forms = []
    for label, spec in GROUPERS:
        fn = repo.func(spec)
        g = grouping_of(repo, fn)
        forms.append((label, fn, g))
        sub = f"{fn.module.relpath}:{fn.qualname} grouping normal form"
        if g.all_tags and g.key_fn == "normalize_tag_key" and g.default_tag == "default" and g.score_dump and g.chooses_max_score:
            rep.ok("R13.2", sub, g.normal_form(), fn.loc())
        else:
            rep.violation("R13.2", sub, f"{fn.fq}|grouping|{g.normal_form()}",
                          f"the {label} groups operations as [{g.normal_form()}]; endpoints/client use every tag, normalize_tag_key, 'default' and the "
                          "max(tag_score) spelling: with tag spelling variants or multi-tag operations the mock modules, mock classes and "
                          "MockAPIClient properties differ from the client's", fn.loc())
    if len({g.normal_form() for _, _, g in forms}) == 1:
        rep.ok("R13.2", "sibling agreement endpoints / client / mocks", "identical grouping normal forms (incl. tag_score body)", forms[0][1].loc())
    else:
        rep.violation("R13.2", "sibling agreement endpoints / client / mocks", "grouping-disagree|" + "|".join(f"{l}:{g.normal_form()}" for l, _, g in forms)[:300],
                      "the three tag groupings are not the same function of the operations", forms[-1][1].loc())
    # the grouped dict is keyed by the canonical *spelling* (the key that names classes/modules), not by the normalised key
    mg = repo.func("emitters.mocks_emitter:MocksEmitter._group_operations_by_tag")
    from sa.flatten import flatten as _fl132

    mg = _fl132(mg)  # `canonical_tag_spelling(candidates)` = `max(candidates, key=score)` may be a shared (imported) helper
    ML = Locals(mg.node)
    returned = {x.id for r in own_nodes(mg.node) if isinstance(r, ast.Return) and r.value is not None for x in ast.walk(r.value) if isinstance(x, ast.Name)}
    stores = [n for n in own_nodes(mg.node) if isinstance(n, ast.Assign) and isinstance(n.targets[0], ast.Subscript) and isinstance(n.targets[0].value, ast.Name)
              and ML.root(n.targets[0].value.id) in returned]
    okk = bool(stores) and all(any(isinstance(c, ast.Call) and dotted(c.func) == "max" for c in ast.walk(ML.inline(s.targets[0].slice))) for s in stores)
    if not stores:
        # the mapping is built by a dict comprehension: its key expression must be the canonical spelling
        comps = [x for r in own_nodes(mg.node) if isinstance(r, ast.Return) and r.value is not None for x in ast.walk(ML.inline(r.value)) if isinstance(x, ast.DictComp)]
        okk = bool(comps) and all(any(isinstance(c, ast.Call) and dotted(c.func) == "max" for c in ast.walk(ML.inline(x.key))) for x in comps)
    if okk:
        rep.ok("R13.2", f"{mg.module.relpath}:{mg.qualname} result keyed by canonical tag", "the returned mapping is keyed by the max(tag_score) spelling that also names the client class and module", mg.loc())
    else:
        rep.violation("R13.2", f"{mg.module.relpath}:{mg.qualname} result keyed by canonical tag", f"{mg.fq}|keyed-by-non-canonical",
                      "the mocks are keyed by something other than the canonical tag spelling: class/module names derived from it differ from the client's "
                      "(e.g. 'Order Items' -> orderitems vs order_items)", mg.loc())

    # ---------------------------------------------------------------- R13.4 naming
    names = [(label, repo.func(spec), naming_of(repo.func(spec))) for label, spec in NAMERS]
    ref = names[0][2]
    for label, fn, n in names:
        sub = f"{fn.module.relpath}:{fn.qualname} name derivation"
        allowed = [["sanitize_class_name", "sanitize_module_name"], ["sanitize_class_name"]]
        if n in allowed:
            rep.ok("R13.4", sub, f"derives tag names with {n}", fn.loc())
        else:
            rep.violation("R13.4", sub, f"{fn.fq}|naming|{n}", f"the {label} derives tag client names with {n}, the endpoints emitter with {ref}", fn.loc())
    # Protocol / mock class name patterns
    pats: dict = {}
    for label, spec in NAMERS:
        fn = repo.func(spec)
        FL = Locals(fn.node)
        for n in own_nodes(fn.node):
            if isinstance(n, ast.Assign) and isinstance(n.targets[0], ast.Name):
                nf = _name_pattern(n.value)
                if nf is not None:
                    # grouped by the constant affix that identifies the kind of name (…Client, …Protocol, Mock…)
                    pats.setdefault(nf[0], set()).add(nf[1])
    for kind, forms_ in sorted(pats.items()):
        if len(forms_) == 1:
            rep.ok("R13.4", f"`{kind}` name pattern", f"one derivation everywhere: {sorted(forms_)[0]}", "")
        else:
            rep.violation("R13.4", f"`{kind}` name pattern", f"pattern|{kind}|{sorted(forms_)}", f"`{kind}` names are derived in different ways: {sorted(forms_)}", "")

    # ---------------------------------------------------------------- R13.1 single source
    res = Resolver(repo)
    emg = repo.func("visit.endpoint.generators.endpoint_method_generator:EndpointMethodGenerator.generate")
    for label, spec in (("Protocol stubs", "visit.endpoint.endpoint_visitor:EndpointVisitor.generate_endpoint_protocol"),
                        ("mock methods", "visit.endpoint.generators.mock_generator:MockGenerator.generate")):
        fn = repo.func(spec)
        gens = [c for c in calls_in(fn.node) if isinstance(c.func, ast.Attribute) and c.func.attr == "generate" and _is_method_generator(fn, c.func.value)]
        sub = f"{fn.module.relpath}:{fn.qualname} signature source"
        if len(gens) == 1:
            rep.ok("R13.1", sub, f"{label} are cut out of the text EndpointMethodGenerator.generate returns for the same operation", fn.loc(gens[0]))
        else:
            rep.violation("R13.1", sub, f"{fn.fq}|signature-source|{len(gens)}", f"{label} are not derived from exactly one EndpointMethodGenerator.generate call", fn.loc())
    # same schema registry: every EndpointVisitor / MockGenerator / EndpointMethodGenerator construction passes schemas
    n_ctor = 0
    for mn in ("emitters.endpoints_emitter", "emitters.mocks_emitter", "visit.endpoint.endpoint_visitor", "visit.endpoint.generators.mock_generator"):
        mod = repo.module(mn)
        for fn in mod.functions.values():
            for c in calls_in(fn.node):
                nm = dotted(c.func)
                if nm in ("EndpointVisitor", "MockGenerator", "EndpointMethodGenerator"):
                    n_ctor += 1
                    sub = f"{mod.relpath}:{fn.qualname} `{norm(c)[:60]}`"
                    if c.args or any(k.arg == "schemas" for k in c.keywords):
                        rep.ok("R13.1", sub, "constructed over an explicit schema registry", fn.loc(c))
                    elif nm == "EndpointVisitor":
                        rep.violation("R13.1", sub, f"{fn.fq}|visitor-without-registry",
                                      "an EndpointVisitor built without the schema registry resolves inline / anonymous item types differently from the one the "
                                      "endpoint clients are generated with: e.g. the client returns `List[AnonymousArrayItem]`, the mock `List[Any]`", fn.loc(c))
                    else:
                        rep.ok("R13.1", sub, "constructed inside a visitor that already holds the registry", fn.loc(c))
    rep.require(n_ctor >= 4, f"R13.1: only {n_ctor} generator constructions found (floor 4)")

    # ---------------------------------------------------------------- R13.3 mock bodies raise
    tm0 = repo.func("visit.endpoint.generators.mock_generator:MockGenerator._transform_to_mock")
    from sa.report import with_flatten_fallback as _wff133

    def _mock_raises(tm, rep) -> None:
        cfg = CFG(tm.node)

        def writes(snippet: str):
            return {n.id for n in cfg.nodes if n.kind == "stmt" and n.ast is not None and not n.copy and any(
                isinstance(c.func, ast.Attribute) and c.func.attr == "write_line" and c.args and snippet in norm(c.args[0]) for c in calls_in(n.ast))}

        raise_nodes = writes("raise NotImplementedError(")
        # the signature loop: `for sig in signature_lines: writer.write_line(sig)`
        sig_loops = [n.id for n in cfg.nodes if n.kind == "iter" and isinstance(n.stmt, ast.For) and isinstance(n.stmt.target, ast.Name) and any(
            isinstance(c.func, ast.Attribute) and c.func.attr == "write_line" and c.args and isinstance(c.args[0], ast.Name) and c.args[0].id == n.stmt.target.id
            for st in n.stmt.body for c in calls_in(st))]
        rep.require(bool(sig_loops) and bool(raise_nodes), "R13.3: anchors missing in _transform_to_mock (signature loop / raise line)")
        for sl in sig_loops:
            done = [m for m, lab in cfg.succ[sl] if lab == "done"]
            w = None
            for m in done:
                w = w or cfg.must_pass(m, raise_nodes, {cfg.exit})
            sub = f"{tm.module.relpath}:_transform_to_mock body after signature"
            if w is None:
                rep.ok("R13.3", sub, "every path from the written signature to the return passes through `raise NotImplementedError(`", tm.loc())
            else:
                rep.violation("R13.3", sub, f"{tm.fq}|no-raise|{cfg.describe_path(w)}", f"a mock method can be emitted without the raise ({cfg.describe_path(w)})", tm.loc())

    _wff133(rep, tm0, _mock_raises)  # signature collection / body writing may be helpers of the generator: written out
    tm = tm0
    # nothing executable is emitted before the raise except the docstring
    # ---------------------------------------------------------------- R13.5 nature decision
    from sa.flatten import flatten as _fl13

    ev = _fl13(repo.func("visit.endpoint.endpoint_visitor:EndpointVisitor.generate_endpoint_protocol"))
    IR_ATTRS = {"responses", "stream", "is_streaming", "content", "return_type", "stream_format"}
    def _closure(fn0: Function) -> List[Function]:
        """fn0 plus the helpers of its own class / module it calls (transitively, bounded): the decision may live in an extracted helper."""
        out, todo = [fn0], [fn0]
        while todo and len(out) < 12:
            f = todo.pop()
            for c in calls_in(f.node):
                nm = c.func.attr if isinstance(c.func, ast.Attribute) and isinstance(c.func.value, ast.Name) else c.func.id if isinstance(c.func, ast.Name) else None
                if nm is None:
                    continue
                cls = f.qualname.rsplit(".", 1)[0] if "." in f.qualname else None
                h = f.module.functions.get(f"{cls}.{nm}") if cls else None
                h = h or f.module.functions.get(nm)
                if h is not None and all(h is not x for x in out):
                    out.append(h)
                    todo.append(h)
        return out

    def _sniffs(fn0: Function):
        return [(f, n) for f in _closure(fn0) for n in own_nodes(f.node)
                if isinstance(n, ast.Compare) and len(n.ops) == 1 and isinstance(n.ops[0], ast.In) and const_str(n.left) == "AsyncIterator"]

    for fn0 in (ev, tm):
        found = _sniffs(fn0)
        fn = fn0
        tests = [t for _, t in found]
        sub = f"{fn.module.relpath}:{fn.qualname} coroutine / async-generator decision"
        if not tests:
            rep.violation("R13.5", sub, f"{fn.fq}|nature|not-from-signature",
                          "coroutine vs async-generator nature is decided from something other than the rendered signature: the mock/Protocol can be an "
                          "async generator while the client method is a coroutine (awaiting the mock raises TypeError)", fn.loc())
            continue
        for hf, t in found:
            FL = Locals(hf.node)
            src = FL.inline(t.comparators[0], stop=tuple(FL.params))
            from_ir = sorted({x.attr for x in ast.walk(src) if isinstance(x, ast.Attribute) and x.attr in IR_ATTRS})
            # the sniff is the whole decision: a conjunct / disjunct over other state (a flag set while copying @overload stubs, a counter)
            # makes Protocol and mock - which evaluate the same text - disagree for the operations where that state differs
            extra: List[str] = []
            par = parent(t)
            while isinstance(par, ast.UnaryOp):
                par = parent(par)
            if isinstance(par, ast.BoolOp):
                # (a name that only selects *which* line is looked at - the index of `lines[i]` - is a position, not the text the decision is read
                # from: it is neither evidence nor extra state; the same name used outside a subscript - `i > 0` - is state)
                def _plain_names(e: ast.AST) -> set:
                    in_slice = {id(y) for sb in ast.walk(e) if isinstance(sb, ast.Subscript) for y in ast.walk(sb.slice)}
                    return {x.id for x in ast.walk(e) if isinstance(x, ast.Name) and id(x) not in in_slice}

                evidence = {x.id for x in ast.walk(t.comparators[0]) if isinstance(x, ast.Name)} | _plain_names(src)
                for other in par.values:
                    if other is t or any(y is t for y in ast.walk(other)):
                        continue
                    oi = FL.inline(other, stop=tuple(FL.params))
                    extra += sorted(_plain_names(oi) - evidence - {"self"})
            if extra:
                rep.violation("R13.5", sub, f"{fn.fq}|nature|extra-condition|{extra[0]}",
                              f"`{norm(par)[:80]}`: besides the rendered signature the decision reads {extra}; the Protocol stub and the mock method of the same operation "
                              "can then differ in nature (`async def` coroutine stub for an async-generator method: neither client nor mock satisfies the Protocol)", fn.loc(t))
            elif not from_ir:
                rep.ok("R13.5", sub, f"`{norm(t)[:60]}`: decided from the rendered signature's return annotation (the same text the client method has)", fn.loc(t))
            else:
                rep.violation("R13.5", sub, f"{fn.fq}|nature|from-ir|{from_ir}",
                              f"the decision text derives from the IR ({from_ir}) instead of the rendered signature", fn.loc(t))

    _guarded(rep, rule_memo_keys, repo, rep, "R13.7")
    _guarded(rep, rule_ir_not_mutated, repo, rep, "R13.8")
    _guarded(rep, rule_self_import_compares_the_package, repo, rep, "R13.9")
    from rules.c05 import rule_range_primary_gets_an_arm

    _guarded(rep, rule_range_primary_gets_an_arm, repo, rep, "R13.10")
    _guarded(rep, rule_mocks_after_the_renamer, repo, rep, "R13.11")
    _guarded(rep, rule_streamed_default_is_yielded, repo, rep, "R13.12")
    # R13.14: a success arm writes `return None` only under the test that the strategy's return type is None - any other shortcut (by HTTP method, by
    # content) takes the `yield` loop out of a streaming method while its Protocol stub and mock stay async generators              [= R5.5]
    from rules._reuse import reuse as _reuse1314

    _reuse1314(repo, rep, "c05", {"R5.5": "R13.14"})
    from rules.c20 import rule_models_spare_endpoint_names

    _guarded(rep, rule_models_spare_endpoint_names, repo, rep, "R13.13")
    # ---------------------------------------------------------------- R13.6 one-line sniffing obliges the signature writer
    # A consumer that looks for the return annotation in ONE rendered line (the line that closes the signature) relies on the
    # signature writer putting the whole annotation on that line; a consumer that joins the collected lines does not.
    from sa.match import truthiness as _truth

    one_line = []
    for fn0 in (ev, tm):
        for fn, t in _sniffs(fn0):
            FL = Locals(fn.node)
            def _shape(e: ast.AST, depth: int = 0) -> str:
                """'element' (one entry of a sequence of lines), 'joined' (several lines glued together) or 'other'."""
                e = FL.inline(e, stop=tuple(FL.params))
                if any(isinstance(x, ast.Call) and isinstance(x.func, ast.Attribute) and x.func.attr == "join" for x in ast.walk(e)):
                    return "joined"
                if any(isinstance(x, ast.Subscript) and not isinstance(x.slice, ast.Slice) for x in ast.walk(e)):
                    return "element"
                shapes = set()
                for x in ast.walk(e):
                    if isinstance(x, ast.Name) and x.id not in FL.params and depth < 4:
                        for k, v, _ in FL.defs.get(x.id, []):
                            shapes.add("element" if k.startswith("for") else _shape(v, depth + 1) if v is not None else "other")
                if shapes == {"element"}:
                    return "element"
                return "joined" if "joined" in shapes else "other"

            if _shape(t.comparators[0]) == "element":
                one_line.append((fn, t))
    rep.count("R13.6:one_line_consumers", [f"{fn.qualname}: {norm(t)[:60]}" for fn, t in one_line])
    if one_line:
        wf = repo.func("core.writers.code_writer:CodeWriter.write_function_signature")
        WL = Locals(wf.node)
        wcalls = [(c, WL.inline(c.args[0], stop=tuple(WL.params))) for c in calls_in(wf.node) if isinstance(c.func, ast.Attribute) and c.func.attr == "write_line" and c.args]
        # the return-annotation parameter by role: the name formatted right after "->" in a written line
        rt = None
        for _, a in wcalls:
            if isinstance(a, ast.JoinedStr):
                for i, part in enumerate(a.values[:-1]):
                    nxt = a.values[i + 1]
                    if isinstance(part, ast.Constant) and str(part.value).rstrip().endswith("->") and isinstance(nxt, ast.FormattedValue) and isinstance(nxt.value, ast.Name):
                        rt = nxt.value.id
        rep.require(rt is not None and rt in WL.params, "R13.6: cannot identify the return-annotation parameter of CodeWriter.write_function_signature (anchor)")
        par = {}
        for n in ast.walk(wf.node):
            for fld in ("body", "orelse"):
                for ch in getattr(n, fld, []) if isinstance(n, ast.If) else []:
                    par[id(ch)] = (n, fld)
            for ch in ast.iter_child_nodes(n):
                par.setdefault(id(ch), (n, None))

        def under_rt(node: ast.AST) -> bool:
            cur = node
            while id(cur) in par:
                p_, fld = par[id(cur)]
                if isinstance(p_, ast.If) and fld in ("body", "orelse"):
                    for cj in ([p_.test] if not (isinstance(p_.test, ast.BoolOp) and isinstance(p_.test.op, ast.And)) else p_.test.values):
                        tr = _truth(cj)
                        if tr and isinstance(tr[0], ast.Name) and tr[0].id == rt and tr[1] == (fld == "body"):
                            return True
                cur = p_
            return False

        n_close = 0
        for c, a in wcalls:
            last = a.values[-1] if isinstance(a, ast.JoinedStr) and a.values else a
            if not (isinstance(last, ast.Constant) and isinstance(last.value, str) and last.value.rstrip().endswith(":")):
                continue
            if not under_rt(c):
                continue
            n_close += 1
            sub = f"{wf.module.relpath}:{wf.qualname} closing line `{norm(a)[:50]}`"
            has = any(isinstance(x, ast.FormattedValue) and isinstance(x.value, ast.Name) and x.value.id == rt for x in ast.walk(a))
            if has:
                rep.ok("R13.6", sub, f"the whole return annotation is on the line that closes the signature (what {len(one_line)} one-line consumer(s) inspect)", wf.loc(c))
            else:
                fn0, t0 = one_line[0]
                rep.violation("R13.6", sub, f"{wf.fq}|closing-line-without-annotation",
                              f"a signature with a return annotation can end in a line that does not contain it, but `{fn0.qualname}` decides coroutine vs async "
                              f"generator from that one line (`{norm(t0)[:50]}`): for a wrapped `AsyncIterator[...]` annotation the Protocol keeps `async def` "
                              "while client and mock are async generators", wf.loc(c))
        rep.require(n_close >= 1, "R13.6: no signature-closing write under a truthy return annotation found in write_function_signature (anchor)")


def _name_pattern(v: ast.AST):
    """('Client'|'Protocol'|'Mock…', normal form) for expressions that build a name from one hole and a constant affix:
    f'{x}Protocol', x + 'Protocol', f'Mock{x}', NameSanitizer.sanitize_class_name(t) + 'Client' ...; None otherwise."""
    parts = []

    def flat(e: ast.AST) -> bool:
        if isinstance(e, ast.JoinedStr):
            for p in e.values:
                if isinstance(p, ast.Constant):
                    parts.append(("c", str(p.value)))
                elif isinstance(p, ast.FormattedValue):
                    parts.append(("h", _hole(p.value)))
            return True
        if isinstance(e, ast.BinOp) and isinstance(e.op, ast.Add):
            return flat(e.left) and flat(e.right)
        if isinstance(e, ast.Constant) and isinstance(e.value, str):
            parts.append(("c", e.value))
            return True
        if isinstance(e, (ast.Name, ast.Call, ast.Subscript, ast.Attribute)):
            parts.append(("h", _hole(e)))
            return True
        return False

    def _hole(e: ast.AST) -> str:
        if isinstance(e, ast.Call) and (dotted(e.func) or "").startswith("NameSanitizer."):
            return (dotted(e.func) or "") + "($)"
        return "$"

    if not isinstance(v, (ast.JoinedStr, ast.BinOp)) or not flat(v):
        return None
    consts = [t for k, t in parts if k == "c" and t]
    holes = [t for k, t in parts if k == "h"]
    if len(holes) != 1 or len(consts) != 1 or not consts[0].isidentifier():
        return None
    kind = consts[0]
    if kind not in ("Client", "Protocol", "Mock"):
        return None
    return kind, "".join(t if k == "c" else "{" + t + "}" for k, t in parts)


def _is_method_generator(fn: Function, recv: ast.AST) -> bool:
    """the receiver is an EndpointMethodGenerator: a local bound to its constructor, or a self attribute assigned from it in __init__"""
    L = Locals(fn.node)
    if isinstance(recv, ast.Name):
        v = L.single(recv.id)
        return isinstance(v, ast.Call) and (dotted(v.func) or "").split(".")[-1] == "EndpointMethodGenerator"
    if isinstance(recv, ast.Attribute) and isinstance(recv.value, ast.Name) and recv.value.id == "self" and fn.cls is not None:
        for m in fn.cls.methods.values():
            for n in own_nodes(m.node):
                if isinstance(n, (ast.Assign, ast.AnnAssign)):
                    tg = n.targets[0] if isinstance(n, ast.Assign) else n.target
                    if isinstance(tg, ast.Attribute) and tg.attr == recv.attr and isinstance(n.value, ast.Call) and (dotted(n.value.func) or "").split(".")[-1] == "EndpointMethodGenerator":
                        return True
    return False


# ------------------------------------------------------------------------------------------------ R13.7 memo keys in the shared generators
_R137_EXAMPLE = '''
class G:
    def __init__(self):
        self._memo = {}

    def get(self, content_type, schema, context):
        if content_type not in self._memo:
            self._memo[content_type] = self._map(content_type, schema, context)
        return self._memo[content_type]
'''


def _memo_hazards(cls_node: ast.ClassDef):
    """(method, table attr, key text, missing params, store node) for every instance-level memo table whose key omits a parameter
    the memoised value is computed from."""
    out = []
    n_tables = 0
    for fn in cls_node.body:
        if not isinstance(fn, (ast.FunctionDef, ast.AsyncFunctionDef)) or fn.name == "__init__":
            continue
        L = Locals(fn)
        params = [p for p in L.params if p not in ("self", "cls")]
        for st in own_nodes(fn):
            if not (isinstance(st, ast.Assign) and len(st.targets) == 1 and isinstance(st.targets[0], ast.Subscript)):
                continue
            tg = st.targets[0]
            if not (isinstance(tg.value, ast.Attribute) and isinstance(tg.value.value, ast.Name) and tg.value.value.id == "self"):
                continue
            table = tg.value.attr
            # a memo table: the same function also reads the table under a key (membership, subscript load, .get)
            reads = [n for n in own_nodes(fn) if (
                (isinstance(n, ast.Compare) and len(n.ops) == 1 and isinstance(n.ops[0], (ast.In, ast.NotIn)) and dotted(n.comparators[0]) == f"self.{table}")
                or (isinstance(n, ast.Subscript) and isinstance(n.ctx, ast.Load) and dotted(n.value) == f"self.{table}")
                or (isinstance(n, ast.Call) and isinstance(n.func, ast.Attribute) and n.func.attr == "get" and dotted(n.func.value) == f"self.{table}"))]
            if not reads:
                continue
            n_tables += 1
            key = L.inline(tg.slice, stop=tuple(L.params))
            val = L.inline(st.value, stop=tuple(L.params))
            key_names = {x.id for x in ast.walk(key) if isinstance(x, ast.Name)}
            used = [p for p in params if any(isinstance(x, ast.Name) and x.id == p for x in ast.walk(val))]
            if not any(isinstance(x, ast.Call) for x in ast.walk(val)):
                continue  # a plain registration (table[k] = v), not a memoised computation
            missing = [p for p in used if p not in key_names]
            if missing:
                out.append((fn, table, norm(tg.slice), missing, st))
    return out, n_tables


def rule_memo_keys(repo: Repo, rep: Report, rule: str = "R13.7") -> None:
    ex = ast.parse(_R137_EXAMPLE).body[0]
    hz, _ = _memo_hazards(ex)  # type: ignore[arg-type]
    rep.require(len(hz) == 1 and hz[0][3] == ["schema", "context"], f"{rule}: the built-in positive example is no longer recognised - the rule is broken")
    n_cls = n_tab = n_bad = 0
    for m in repo.modules.values():
        if ".visit.endpoint." not in "." + m.name + ".":
            continue
        for c in m.classes.values():
            n_cls += 1
            hz, nt = _memo_hazards(c.node)
            n_tab += nt
            for fn, table, key, missing, st in hz:
                n_bad += 1
                rep.violation(rule, f"{m.relpath}:{c.name}.{fn.name} memo `self.{table}`", f"{m.name}:{c.name}.{fn.name}|memo-key-incomplete|{table}|{','.join(missing)}",
                              f"`{norm(st)[:90]}`: the value is computed from {missing} as well, but the table is keyed by `{key}` only. Generator instances are "
                              "re-used across operations (and the mock emitter re-uses one instance for a whole tag): a later operation with the same key gets the "
                              "earlier operation's answer, so client, Protocol and mock signatures diverge", f"{m.relpath}:{st.lineno}")
    rep.require(n_cls >= 8, f"{rule}: only {n_cls} classes under visit/endpoint were analysed (floor 8)")
    rep.count(f"{rule}:classes", n_cls)
    rep.count(f"{rule}:memo_tables", n_tab)
    if not n_bad:
        rep.ok(rule, "visit/endpoint generator and processor classes", f"{n_cls} classes, {n_tab} instance-level memo table(s): every memo key covers the parameters "
               "the value is computed from", "src/pyopenapi_gen/visit/endpoint:1")


# ------------------------------------------------------------------------------------------------ R13.8 rendering does not mutate the IR
def rule_ir_not_mutated(repo: Repo, rep: Report, rule: str = "R13.8") -> None:
    """Client method, Protocol stub and mock method are three separate renderings of one IROperation.  They agree only if a rendering
    leaves the operation as it found it: in the visit/endpoint package no function changes an object reached from its IROperation
    parameter in place (sort / append / item or attribute assignment on `op.<attr>` or on a local that is an alias of it)."""
    MUT = ("sort", "append", "extend", "insert", "pop", "remove", "reverse", "clear", "update", "setdefault", "popitem", "add", "discard")
    n_fn = 0
    bad = []
    for m in repo.modules.values():
        if ".visit.endpoint." not in "." + m.name + ".":
            continue
        for q, fn in m.functions.items():
            a = fn.node.args  # type: ignore[attr-defined]
            ops = [x.arg for x in a.posonlyargs + a.args + a.kwonlyargs if x.annotation is not None and "IROperation" in norm(x.annotation)]
            if not ops:
                continue
            n_fn += 1
            L = Locals(fn.node)

            def rooted(e: ast.AST) -> Optional[str]:
                """the IROperation parameter `e` is an alias path of (attribute chain, no call / copy in between)"""
                cur = e
                depth = 0
                for _ in range(6):
                    while isinstance(cur, (ast.Attribute, ast.Subscript)):
                        cur = cur.value
                        depth += 1
                    if isinstance(cur, ast.Name) and cur.id not in L.params:
                        ds = L.defs.get(cur.id, [])
                        # an alias: every binding of the local is a plain attribute path (no call, no copy)
                        if ds and all(k == "assign" and isinstance(v, (ast.Attribute, ast.Subscript, ast.Name)) for k, v, _ in ds) and len(ds) == 1:
                            cur = ds[0][1]
                            continue
                        # an element: the variable of a loop over such a path (`for param in op.parameters`) - copies of the *container*
                        # (list / sorted / enumerate / reversed / .values()) still hold the same element objects
                        if len(ds) == 1 and ds[0][0].startswith("for") and ds[0][1] is not None:
                            it = ds[0][1]
                            for _ in range(3):
                                if isinstance(it, ast.Call) and isinstance(it.func, ast.Name) and it.func.id in ("enumerate", "list", "sorted", "reversed", "tuple") and it.args:
                                    it = it.args[0]
                                elif isinstance(it, ast.Call) and isinstance(it.func, ast.Attribute) and it.func.attr in ("values", "items") and not it.args:
                                    it = it.func.value
                            if isinstance(it, (ast.Attribute, ast.Subscript)):
                                cur = it
                                depth += 1
                                continue
                    break
                if isinstance(cur, ast.Name) and cur.id in ops and depth >= 1:
                    return cur.id
                return None

            for n in own_nodes(fn.node):
                if isinstance(n, ast.Call) and isinstance(n.func, ast.Attribute) and n.func.attr in MUT and rooted(n.func.value):
                    bad.append((m, fn, n))
                elif isinstance(n, (ast.Assign, ast.AugAssign, ast.AnnAssign, ast.Delete)):
                    tgs = n.targets if isinstance(n, (ast.Assign, ast.Delete)) else [n.target]
                    for t in tgs:
                        if isinstance(t, (ast.Attribute, ast.Subscript)) and (rooted(t.value) or (isinstance(t.value, ast.Name) and t.value.id in ops)):
                            bad.append((m, fn, n))
    rep.count(f"{rule}:functions_with_operation_parameter", n_fn)
    rep.require(n_fn >= 15, f"{rule}: only {n_fn} functions taking an IROperation found under visit/endpoint (floor 15)")
    for m, fn, n in bad:
        rep.violation(rule, f"{m.relpath}:{fn.qualname} mutates its operation", f"{fn.fq}|ir-mutated|{n.__class__.__name__}",
                      f"`{norm(n)[:70]}` changes the IROperation in place while rendering: the next rendering of the same operation (Protocol stub, mock) sees a "
                      "different operation - e.g. after sorting `responses` the fallback 'first declared response' is another one and the return annotations differ",
                      fn.loc(n))
    if not bad:
        rep.ok(rule, "visit/endpoint", f"{n_fn} functions receive an IROperation; none changes it (or an alias of one of its attributes) in place", "src/pyopenapi_gen/visit/endpoint:1")


# ------------------------------------------------------------------------------------------------ R13.9 "same file" means the same file
def rule_self_import_compares_the_package(repo: Repo, rep, rule: str = "R13.9") -> None:
    """`_resolve_named_schema` leaves out the import of a model (and quotes its name) when the module being rendered *is* that model's module.
    Tag modules (`endpoints/pets.py`), mock modules (`mocks/endpoints/mock_pets.py`) and model modules (`models/pets.py`) share stems - the
    Petstore has tag `pets` and schema `Pets`.  Decided on the file name alone, the endpoint module is taken for the model module: the
    client and its Protocol get `"Pets"` without an import (and `cast("Pets", response.json())` hands back raw dicts) while the mock, rendered
    into another file name, gets the real class.  The decision must also look at where the current file lives (its directory / package)."""
    sr = repo.module("types.resolvers.schema_resolver")
    fn = sr.classes["OpenAPISchemaResolver"].methods.get("_resolve_named_schema") if "OpenAPISchemaResolver" in sr.classes else None
    if fn is None:
        raise AnalysisError(f"{rule}: anchor vanished: OpenAPISchemaResolver._resolve_named_schema")
    L = Locals(fn.node)
    # the flag that guards the `is_forward_ref=True` return
    rets = [r for r in own_nodes(fn.node) if isinstance(r, ast.Return) and r.value is not None and any(
        isinstance(k, ast.keyword) and k.arg == "is_forward_ref" and isinstance(k.value, ast.Constant) and k.value.value is True for c in ast.walk(r.value) if isinstance(c, ast.Call) for k in c.keywords)]
    flags = set()
    for r in rets:
        p = parent(r)
        while p is not None and not isinstance(p, ast.If):
            p = parent(p)
        if isinstance(p, ast.If):
            flags |= {x.id for x in ast.walk(p.test) if isinstance(x, ast.Name)}
    defs = [v for f_ in flags for _, v, _ in L.defs.get(f_, []) if v is not None and not isinstance(v, ast.Constant)]
    if not rets or not defs:
        raise AnalysisError(f"{rule}: the self-import decision of _resolve_named_schema (flag guarding the forward-reference return) was not found (anchor)")
    sub = f"{sr.relpath}:_resolve_named_schema self-import decision"
    ok = False
    anywhere = None
    for v in defs:
        vi = L.inline(v, depth=5, stop=tuple(L.params))
        txt = norm(vi)
        looks_at_dir = any(isinstance(c, ast.Call) and (dotted(c.func) or "").split(".")[-1] in ("dirname", "samefile", "relpath", "resolve", "abspath", "realpath") for c in ast.walk(vi)) \
            or any(isinstance(a, ast.Attribute) and a.attr in ("parent", "parents", "parts") for a in ast.walk(vi)) or any(
                isinstance(c, ast.Constant) and isinstance(c.value, str) and "models" in c.value for c in ast.walk(vi))
        if looks_at_dir:
            ok = True
        # ... and it is the file's *own* directory that is compared: `"models" in path.parts` / `"models" in current_file` also holds for a project
        # that merely lives below some directory called `models` (the decision - and with it the generated bytes - would depend on the output location)
        for c in ast.walk(vi):
            if isinstance(c, ast.Compare) and len(c.ops) == 1 and isinstance(c.ops[0], (ast.In, ast.NotIn)) and isinstance(c.left, ast.Constant) and isinstance(c.left.value, str):
                rhs = c.comparators[0]
                whole_path = (isinstance(rhs, ast.Attribute) and rhs.attr in ("parts", "parents")) or isinstance(rhs, ast.Name) or \
                    (isinstance(rhs, ast.Call) and (dotted(rhs.func) or "").split(".")[-1] in ("str", "as_posix", "abspath", "dirname", "split"))
                if whole_path:
                    anywhere = c
    if anywhere is not None:
        rep.violation(rule, sub, f"{fn.fq}|self-import-by-any-ancestor",
                      f"`{norm(anywhere)[:70]}` holds for every file below *some* directory of that name, not only for files of the models package: generated into `/x/models/proj` the "
                      "tag module `endpoints/user.py` is taken for `models/user.py` (quoted name, no import, raw dicts) - and the same document gives other bytes than under `/x/work/proj`", fn.loc(anywhere))
    elif ok:
        rep.ok(rule, sub, "the current file's directory / package is part of the comparison", fn.loc(defs[0]))
    else:
        rep.violation(rule, sub, f"{fn.fq}|self-import-by-basename",
                      f"`{norm(defs[0])[:70]}`: only the file *name* is compared - a tag module `endpoints/pets.py` is taken for the model module `models/pets.py`: client and Protocol "
                      "are annotated with the quoted name and no import (the client returns raw dicts through `cast`), the mock with the real class", fn.loc(defs[0]))


# ------------------------------------------------------------------------------------------------ R13.11 one IR, renamed once, before anybody reads the names
def rule_mocks_after_the_renamer(repo: Repo, rep, rule: str = "R13.11") -> None:
    """Colliding operation ids (`getItem` / `get_item`) are told apart by *renaming the operation in the shared IR in place* - and only one
    emitter does that (the one whose `emit` reaches an assignment to `<op>.operation_id`).  Client, Protocol and mock agree on the method names
    only if every emitter that derives names from the operations runs after it, in the compare-only branch and in the direct branch alike.
    Decided on ClientGenerator's generation function: the renamer's `emit` call dominates the `emit` calls of the other operation-reading
    emitters (not armed for an emitter that renames itself)."""
    from rules.c10 import generation_function
    from sa.cfg import CFG as _C
    from sa.resolve import CallGraph

    gen = generation_function(repo)
    live = repo.import_closure(["generator.client_generator"])
    mods = [m for m in live if m.startswith(("pyopenapi_gen.emitters", "pyopenapi_gen.visit"))]
    cg = CallGraph(repo, mods, by_name=False)

    def renames(fq: str) -> bool:
        for f in cg.reachable([fq]):
            fn = cg.funcs.get(f)
            node = fn.node if fn is not None else None
            if node is None:
                continue
            for st in ast.walk(node):
                if isinstance(st, (ast.Assign, ast.AugAssign)):
                    tg = st.targets if isinstance(st, ast.Assign) else [st.target]
                    if any(isinstance(t, ast.Attribute) and t.attr == "operation_id" for t in tg):
                        return True
        return False

    emitters = {}
    for mn in mods:
        m = repo.modules[mn]
        for cn, c in m.classes.items():
            if cn.endswith("Emitter") and "emit" in c.methods:
                emitters[cn] = c.methods["emit"]
    reads_ops = {cn for cn, e in emitters.items() if any(isinstance(x, ast.Attribute) and x.attr == "operation_id" for f in cg.reachable([e.fq])
                                                             for x in (ast.walk(cg.funcs[f].node) if f in cg.funcs else []))}
    renamers = {cn for cn, e in emitters.items() if renames(e.fq)}
    rep.count(f"{rule}:emitters", {"renamers": sorted(renamers), "read_operations": sorted(reads_ops)})
    if len(renamers) != 1:
        rep.ok(rule, f"{gen.module.relpath}:{gen.qualname} order of the emitters", f"{len(renamers)} emitters rename operation ids ({sorted(renamers)}): the order rule is armed for exactly one renamer",
               gen.loc())
        return
    ren = next(iter(renamers))
    L = Locals(gen.node)
    cfg = _C(gen.node)
    dom = cfg.dominators()

    def emit_nodes(cls_name: str):
        out = []
        for n in cfg.nodes:
            if n.kind != "stmt" or n.ast is None or n.copy:
                continue
            for c in calls_in(n.ast):
                if isinstance(c.func, ast.Attribute) and c.func.attr == "emit":
                    recv = c.func.value
                    cands = [recv] if not isinstance(recv, ast.Name) else [v for _, v, _ in L.defs.get(recv.id, []) if v is not None]
                    if cands and all(isinstance(v, ast.Call) and (dotted(v.func) or "").split(".")[-1] == cls_name for v in cands):
                        out.append(n)
        return out

    rn = emit_nodes(ren)
    rep.require(len(rn) >= 2, f"{rule}: {len(rn)} `{ren}(...).emit(...)` call(s) found in the generation function (one per branch expected)")
    for other in sorted(reads_ops - renamers):
        for k_, n in enumerate(sorted(emit_nodes(other), key=lambda x: x.lineno), 1):
            sub = f"{gen.module.relpath}:{gen.qualname} `{other}.emit` call #{k_}"
            if any(r.id in dom[n.id] for r in rn):
                rep.ok(rule, sub, f"runs after `{ren}.emit`, which gives colliding operations their final ids", gen.loc(n.ast))
            else:
                rep.violation(rule, sub, f"{gen.fq}|emitter-before-renamer|{other}",
                              f"`{other}.emit` renders method names from the operations before `{ren}.emit` has renamed the colliding ones in the shared IR: two operations whose ids "
                              "sanitise to one name give one method here and two (`x`, `x_2`) in the modules rendered afterwards - client, Protocol and mock disagree", gen.loc(n.ast))


# ------------------------------------------------------------------------------------------------ R13.12 a streamed default response is yielded
def rule_streamed_default_is_yielded(repo: Repo, rep, rule: str = "R13.12") -> None:
    """Protocol and mock take the nature of a method from its annotation (`AsyncIterator[...]` whenever the response strategy is streaming); the
    client method is an async generator only if its body contains a `yield`, and the only writer of yields is the strategy return.  The primary
    response selector falls back to `default`, so an operation whose stream is declared under `default` alone is a streaming strategy whose only
    arm is the wildcard arm: the flag under which that arm writes the strategy return must hold there.  The assignments to that flag are
    evaluated in order for `strategy.is_streaming = True`, a default response with content, return type `AsyncIterator[...]`."""
    from sa.feval import Unknown, evaluate

    hmod = repo.module("visit.endpoint.generators.response_handler_generator")
    gen = next((f for q, f in hmod.functions.items() if q.endswith(".generate_response_handling")), None)
    if gen is None:
        raise AnalysisError(f"{rule}: anchor vanished: generate_response_handling")
    # the wildcard arm: `write_line("case _:...")` followed (same block) by `if <flag>: <strategy return> else: raise`
    flag = None
    site = None

    def _writes_raise(b: ast.AST) -> bool:
        """a `raise ...` line is written: directly, or by a helper of the class whose body writes one (`self._write_http_error_raise(...)`)"""
        for c in calls_in(b):
            if isinstance(c.func, ast.Attribute) and c.func.attr == "write_line" and c.args:
                a0 = c.args[0]
                txt = const_str(a0) if const_str(a0) is not None else ("".join(v.value for v in a0.values if isinstance(v, ast.Constant) and isinstance(v.value, str)) if isinstance(a0, ast.JoinedStr) else "")
                if txt.lstrip().startswith("raise "):
                    return True
            if isinstance(c.func, ast.Attribute) and gen.cls is not None and c.func.attr in gen.cls.methods and c.func.attr != gen.name and not c.func.attr.startswith("_write_strategy"):
                h = gen.cls.methods[c.func.attr]
                if _writes_raise(h.node):
                    return True
        return False

    for st in own_nodes(gen.node):
        if isinstance(st, ast.If) and isinstance(st.test, ast.Name) and any(
                isinstance(c.func, ast.Attribute) and c.func.attr == "_write_strategy_based_return" for b in st.body for c in calls_in(b)) and any(_writes_raise(b) for b in st.orelse):
            flag, site = st.test.id, st
    if flag is None:
        raise AnalysisError(f"{rule}: the wildcard arm `if <flag>: <strategy return> else: raise` of generate_response_handling was not found (anchor)")
    L = Locals(gen.node)
    dr = [v for _, v, _ in L.defs.get("default_response", []) if v is not None]
    env = {"strategy.is_streaming": True, "strategy.return_type": "AsyncIterator[bytes]", "default_response": {"content": {"text/event-stream": 1}, "status_code": "default"},
           "default_response.content": {"text/event-stream": 1}, "strategy.response_schema": None}
    # assignments to the flag in source order, each with the conjunction of the `if` tests around it (inside the function body)
    assigns = sorted([st for st in own_nodes(gen.node) if isinstance(st, (ast.Assign, ast.AnnAssign)) and st.value is not None and any(
        isinstance(t, ast.Name) and t.id == flag for t in (st.targets if isinstance(st, ast.Assign) else [st.target]))], key=lambda x: x.lineno)
    if not assigns:
        raise AnalysisError(f"{rule}: no assignment to `{flag}` found (anchor)")
    val = None
    try:
        for st in assigns:
            if st.lineno > site.lineno:
                continue
            holds = True
            p, child = parent(st), st
            while p is not None and p is not gen.node:
                if isinstance(p, ast.If):
                    t = bool(evaluate(p.test, {**env, flag: val}))
                    in_body = any(child is b or any(child is y for y in ast.walk(b)) for b in p.body)
                    if t != in_body:
                        holds = False
                child, p = p, parent(p)
            if holds:
                val = bool(evaluate(st.value, {**env, flag: val}))
    except Unknown as e:
        rep.ok(rule, f"{hmod.relpath}:generate_response_handling `{flag}` for a streamed default response", f"not evaluated ({e}): the flag depends on values outside the modelled inputs", gen.loc(site))
        return
    sub = f"{hmod.relpath}:generate_response_handling `{flag}` for a streamed default response"
    if val:
        rep.ok(rule, sub, "true: the wildcard arm writes the streaming loop, the client method is an async generator like its Protocol stub and mock", gen.loc(site))
    else:
        rep.violation(rule, sub, f"{gen.fq}|streamed-default-not-yielded",
                      f"`{flag}` is false for a streaming strategy whose stream is declared under `default`: the wildcard arm raises instead of writing the `yield` loop, no arm of the method "
                      "yields - the client method is a coroutine function while Protocol and mock (decided by the `AsyncIterator` annotation) are async generators", gen.loc(site))
