"""C18 - stream decoders are independent of chunking.

R18.1  chunk-obliviousness: line-oriented decoders touch `response` only through `aiter_lines()`
       (or by delegating to another decoder); iter_bytes is the identity on `aiter_bytes()` chunks
R18.2  accumulator typestate of iter_sse: pending lines are parsed+yielded before every exit, the
       accumulator is reset after a dispatch, parsed events are yielded
R18.3  _parse_sse_event: comment test dominates field dispatch, data kept in order and joined with "\n"
R18.6  iter_sse tests and accumulates each line of aiter_lines() unmodified (no strip / rewrite of the loop variable)
R18.7  what a decoder has buffered lives in the call (or in a per-instance attribute): no class-level / module-level / default-argument container
R18.5  a value whose truthiness guards a yield is an instance of a class without __bool__/__len__ (an empty event is still delivered)
R18.4  iter_ndjson: one yield per non-empty line, nothing carried between lines
R18.8  comment lines never decide a dispatch: a block of comments only (keep-alive) is not an event
"""
from __future__ import annotations

import ast
from typing import Dict, List, Optional, Set, Tuple

from sa.cfg import CFG, forward, witness_path
from sa.model import AnalysisError, Function, Repo, calls_in, const_str, dotted, norm, own_nodes, parent
from sa.cfg import guards as _guards
from sa.match import Locals, truthiness
from sa.report import Report

MOD = "core.streaming_helpers"
LINE_API = "aiter_lines"
RAW_APIS = {"aiter_bytes", "aiter_text", "aiter_raw", "iter_bytes", "iter_text", "iter_raw", "iter_lines",
            "read", "aread", "content", "text", "stream"}


def _response_param(fn: Function) -> Optional[str]:
    a = fn.node.args  # type: ignore[attr-defined]
    for arg in a.posonlyargs + a.args + a.kwonlyargs:
        ann = norm(arg.annotation) if arg.annotation is not None else ""
        if arg.arg == "response" or "Response" in ann:
            return arg.arg
    return None


def _uses(fn: Function, name: str) -> List[ast.Name]:
    return [n for n in own_nodes(fn.node) if isinstance(n, ast.Name) and n.id == name and isinstance(n.ctx, ast.Load)]


def _yields(fn_node: ast.AST) -> List[ast.AST]:
    return [n for n in own_nodes(fn_node) if isinstance(n, (ast.Yield, ast.YieldFrom))]


def run(repo: Repo, rep: Report, tier: str) -> None:
    from sa.report import guarded as _guarded

    mod = repo.module(MOD)
    decoders = {q: f for q, f in mod.functions.items() if "." not in q and _response_param(f)}
    rep.count("decoders", sorted(decoders))
    for need in ("iter_sse", "iter_ndjson", "iter_sse_events_text", "iter_bytes"):
        rep.require(need in decoders, f"R18.1: decoder {need} vanished from streaming_helpers")
    decoder_names = set(decoders)
    _guarded(rep, rule_truth_tested_instances, repo, rep, "R18.5")
    _guarded(rep, rule_lines_untouched, repo, rep, "R18.6")
    _guarded(rep, rule_decoder_state_is_per_stream, repo, rep, "R18.7")
    _guarded(rep, rule_accumulators_keep_everything, repo, rep, "R18.9")

    # ---------------------------------------------------------------- R18.1
    for q, fn in sorted(decoders.items()):
        p = _response_param(fn)
        assert p
        uses = _uses(fn, p)
        rep.require(bool(uses), f"R18.1: {q} never uses its response parameter")
        is_raw = q == "iter_bytes"
        for u in uses:
            par = parent(u)
            sub = f"{mod.relpath}:{q} use of `{p}` `{norm(par)[:60]}`"
            loc = fn.loc(u)
            if isinstance(par, ast.Attribute):
                attr = par.attr
                call = parent(par)
                is_call = isinstance(call, ast.Call) and call.func is par
                loop = parent(call) if is_call else None
                in_async_for = isinstance(loop, ast.AsyncFor) and loop.iter is call
                if not is_raw and attr == LINE_API and in_async_for and not call.args and not call.keywords:
                    rep.ok("R18.1", sub, "consumes httpx's line decoder (chunk boundaries are invisible to this function)", loc)
                elif is_raw and attr == "aiter_bytes" and in_async_for:
                    rep.ok("R18.1", sub, "raw byte stream, passed through per chunk", loc)
                else:
                    rep.violation("R18.1", sub, f"{fn.fq}|response-attr|{attr}",
                                  f"decoder reads `{p}.{attr}`: it can observe how the body was chunked (only `{LINE_API}()` as the "
                                  f"iterable of an `async for` is chunk-oblivious)", loc)
            elif isinstance(par, ast.Call) and u in par.args and dotted(par.func) in decoder_names:
                rep.ok("R18.1", sub, f"delegates to decoder {dotted(par.func)} (checked itself)", loc)
            else:
                rep.violation("R18.1", sub, f"{fn.fq}|response-escapes|{norm(par)[:80]}",
                              f"`{p}` escapes to code that is not a checked decoder", loc)
        # no manual splitting/decoding of what the line decoder hands out
        for c in calls_in(fn.node):
            if isinstance(c.func, ast.Attribute) and c.func.attr in ("split", "splitlines", "decode", "partition", "rsplit") and not is_raw:
                rep.violation("R18.1", f"{mod.relpath}:{q} `{norm(c)[:60]}`", f"{fn.fq}|resplit|{c.func.attr}",
                              "decoder re-splits / decodes stream content itself: terminator handling across chunk boundaries is no "
                              "longer httpx's", fn.loc(c))

    # iter_bytes: identity
    ib = decoders.get("iter_bytes")
    if ib is not None:
        ys = _yields(ib.node)
        loops = [n for n in own_nodes(ib.node) if isinstance(n, ast.AsyncFor)]
        ok = len(loops) == 1 and len(ys) == 1 and isinstance(ys[0], ast.Yield) and isinstance(ys[0].value, ast.Name) \
            and isinstance(loops[0].target, ast.Name) and ys[0].value.id == loops[0].target.id \
            and len(loops[0].body) == 1
        sub = f"{mod.relpath}:iter_bytes identity"
        if ok:
            rep.ok("R18.1", sub, "yields the loop variable unchanged, once per chunk", ib.loc())
        else:
            rep.violation("R18.1", sub, f"{ib.fq}|not-identity", "iter_bytes does not yield every chunk unchanged exactly once", ib.loc())

    # ---------------------------------------------------------------- R18.2 accumulator typestate
    sse = decoders.get("iter_sse")
    if sse is not None:
        _sse_typestate(sse, rep)

    # ---------------------------------------------------------------- R18.3 field parsing
    pe = mod.functions.get("_parse_sse_event")
    if pe is None:
        raise AnalysisError("anchor vanished: _parse_sse_event")
    from sa.report import with_flatten_fallback as _wff18

    _wff18(rep, pe, _parse_event_rules)  # the per-line field split may live in a helper of the module

    # ---------------------------------------------------------------- R18.4 ndjson
    nd = decoders.get("iter_ndjson")
    if nd is not None:
        loops = [n for n in own_nodes(nd.node) if isinstance(n, ast.AsyncFor)]
        ys = _yields(nd.node)
        sub = f"{mod.relpath}:iter_ndjson"
        cfg = CFG(nd.node)
        # state carried between iterations: any name assigned in the loop and read before assignment in a later iteration
        carried = _loop_carried(loops[0]) if loops else {"?"}
        ok = len(loops) == 1 and len(ys) == 1 and not carried
        if ok:
            y = ys[0]
            val = y.value
            okv = isinstance(val, ast.Call) and dotted(val.func) == "json.loads"
            if okv:
                rep.ok("R18.4", sub, "each line is decoded on its own (`json.loads(line)`), no state carried between lines", nd.loc())
            else:
                rep.violation("R18.4", sub, f"{nd.fq}|yield-shape|{norm(y)}", "ndjson record is not `json.loads` of the single line", nd.loc(y))
        else:
            rep.violation("R18.4", sub, f"{nd.fq}|carried|{sorted(carried)}",
                          f"iter_ndjson carries state between lines ({sorted(carried)}) or has {len(ys)} yields / {len(loops)} loops", nd.loc())
        # emptiness filter must be on the stripped line only (blank lines are skipped, nothing else)
        tests = [n for n in own_nodes(nd.node) if isinstance(n, ast.If)]
        for t in tests:
            tv = truthiness(t.test)
            if not (tv is not None and isinstance(tv[0], ast.Name)):
                rep.violation("R18.4", sub + " filter", f"{nd.fq}|filter|{norm(t.test)}",
                              f"records are filtered by `{norm(t.test)}`, not only blank lines", nd.loc(t))
            else:
                rep.ok("R18.4", sub + " filter", f"only blank lines are skipped (`if {norm(t.test)}`)", nd.loc(t))


def _loop_carried(loop: ast.AST) -> Set[str]:
    """Names read in the loop body that are (re)assigned in the body and are not (re)defined at the
    top of each iteration before the read (approximation: first statement order)."""
    assigned_order: Dict[str, int] = {}
    first_read: Dict[str, int] = {}
    tgt = {n.id for n in ast.walk(loop.target) if isinstance(n, ast.Name)}  # type: ignore[attr-defined]
    pos = 0
    for st in loop.body:  # type: ignore[attr-defined]
        for n in ast.walk(st):
            pos += 1
            if isinstance(n, ast.Name):
                if isinstance(n.ctx, ast.Store):
                    assigned_order.setdefault(n.id, pos)
                elif isinstance(n.ctx, ast.Load):
                    first_read.setdefault(n.id, pos)
    out = set()
    for name, rpos in first_read.items():
        if name in tgt:
            continue
        if name in assigned_order:
            # `line = line.strip()`: Load is visited after Store in ast.walk order of Assign? be explicit:
            pass
    # precise version: a name is carried if some read is not dominated by a write in the same iteration
    written: Set[str] = set(tgt)

    def scan(stmts: List[ast.stmt], w: Set[str]) -> Set[str]:
        bad: Set[str] = set()
        for st in stmts:
            if isinstance(st, ast.Assign):
                for n in ast.walk(st.value):
                    if isinstance(n, ast.Name) and isinstance(n.ctx, ast.Load) and n.id in all_assigned and n.id not in w:
                        bad.add(n.id)
                for t in st.targets:
                    for n in ast.walk(t):
                        if isinstance(n, ast.Name):
                            w.add(n.id)
            elif isinstance(st, ast.If):
                for n in ast.walk(st.test):
                    if isinstance(n, ast.Name) and n.id in all_assigned and n.id not in w:
                        bad.add(n.id)
                w1, w2 = set(w), set(w)
                bad |= scan(st.body, w1)
                bad |= scan(st.orelse, w2)
                w |= (w1 & w2)
            else:
                for n in ast.walk(st):
                    if isinstance(n, ast.Name) and isinstance(n.ctx, ast.Load) and n.id in all_assigned and n.id not in w:
                        bad.add(n.id)
                for n in ast.walk(st):
                    if isinstance(n, ast.Name) and isinstance(n.ctx, ast.Store):
                        w.add(n.id)
        return bad

    all_assigned = {n.id for st in loop.body for n in ast.walk(st) if isinstance(n, ast.Name) and isinstance(n.ctx, ast.Store)}  # type: ignore[attr-defined]
    # attribute/method mutation of outer containers (x.append) also carries state
    mutated = set()
    for st in loop.body:  # type: ignore[attr-defined]
        for n in ast.walk(st):
            if isinstance(n, ast.Call) and isinstance(n.func, ast.Attribute) and isinstance(n.func.value, ast.Name) \
                    and n.func.attr in ("append", "extend", "add", "update", "insert") and n.func.value.id not in all_assigned | tgt:
                mutated.add(n.func.value.id)
    return scan(loop.body, written) | mutated  # type: ignore[attr-defined]


def _sse_typestate(fn: Function, rep: Report) -> None:
    mod = fn.module
    sub0 = f"{mod.relpath}:iter_sse"
    # the accumulator: the list appended with the loop variable
    loops = [n for n in own_nodes(fn.node) if isinstance(n, ast.AsyncFor)]
    rep.require(len(loops) == 1, f"R18.2: iter_sse has {len(loops)} async-for loops (expected 1)")
    if len(loops) != 1:
        return
    loop = loops[0]
    lv = loop.target.id if isinstance(loop.target, ast.Name) else None
    # plain copies of the loop variable inside the loop (`line = raw_line`) are the same line
    lvs = {lv}
    for st in ast.walk(loop):
        if isinstance(st, ast.Assign) and len(st.targets) == 1 and isinstance(st.targets[0], ast.Name) and isinstance(st.value, ast.Name) and st.value.id in lvs:
            lvs.add(st.targets[0].id)
    acc = None
    for c in calls_in(loop):
        if isinstance(c.func, ast.Attribute) and c.func.attr == "append" and isinstance(c.func.value, ast.Name) \
                and c.args and isinstance(c.args[0], ast.Name) and c.args[0].id in lvs:
            acc = c.func.value.id
    if acc is None:
        # the line accumulation is not in this function (e.g. moved into another generator it iterates): the recogniser has nothing to judge
        rep.error(f"R18.2: cannot find the `<list>.append(line)` accumulator of {fn.qualname} (anchor)")
        return

    cfg = CFG(fn.node)

    def is_reset(a: ast.AST) -> bool:
        if isinstance(a, (ast.Assign, ast.AnnAssign)):
            tg = a.targets if isinstance(a, ast.Assign) else [a.target]
            if any(isinstance(t, ast.Name) and t.id == acc for t in tg):
                v = a.value
                return isinstance(v, ast.List) and not v.elts or (isinstance(v, ast.Call) and dotted(v.func) == "list" and not v.args)
        if isinstance(a, ast.Expr) and isinstance(a.value, ast.Call) and isinstance(a.value.func, ast.Attribute) \
                and a.value.func.attr == "clear" and isinstance(a.value.func.value, ast.Name) and a.value.func.value.id == acc:
            return True
        return False

    def is_other_assign(a: ast.AST) -> bool:
        if isinstance(a, (ast.Assign, ast.AnnAssign, ast.AugAssign)):
            tg = a.targets if isinstance(a, ast.Assign) else [a.target]
            return any(isinstance(t, ast.Name) and t.id == acc for t in tg) and not is_reset(a)
        return False

    def has_append(a: ast.AST) -> bool:
        return any(isinstance(c.func, ast.Attribute) and c.func.attr in ("append", "extend", "insert") and isinstance(c.func.value, ast.Name)
                   and c.func.value.id == acc for c in calls_in(a))

    def parses(a: ast.AST) -> bool:
        return any(any(isinstance(x, ast.Name) and x.id == acc for x in c.args) for c in calls_in(a)
                   if not (isinstance(c.func, ast.Attribute) and c.func.attr in ("append", "extend", "insert")))

    # states: 'U' undefined, 'E' empty, 'N' non-empty & unparsed, 'P' non-empty & parsed (handed to the parser)
    def transfer(node, v, label):
        a = node.ast
        if node.kind == "test" and a is not None and label in ("true", "false"):
            tv = truthiness(a)
            if tv is not None and isinstance(tv[0], ast.Name) and tv[0].id == acc:
                nonempty_here = tv[1] if label == "true" else not tv[1]
                if nonempty_here:
                    return () if v == "E" else (v,)
                return ("E",) if v == "E" else ()
        if node.kind != "stmt" or a is None:
            return (v,)
        if is_reset(a):
            return ("E",)
        if is_other_assign(a):
            return ("N",)  # unknown content: treat as pending
        out = v
        if parses(a) and v in ("N", "P"):
            out = "P"
        if has_append(a):
            out = "N!" if v == "P" else "N"
        return (out,)

    states, wit = forward(cfg, "U", transfer)
    # (a) at normal exit nothing pending
    pend = [v for v in states[cfg.exit] if v in ("N", "N!")]
    if pend:
        wp = witness_path(wit, cfg.exit, pend[0])
        path = [cfg.nodes[n].lineno for n, _ in wp if cfg.nodes[n].kind not in ("entry", "exit", "join")]
        rep.violation("R18.2", sub0 + " final flush", f"{fn.fq}|pending-at-exit",
                      f"the generator can finish with collected lines that were never parsed/yielded (a final event without trailing "
                      f"blank line is lost); path lines {path[-8:]}", fn.loc())
    else:
        rep.ok("R18.2", sub0 + " final flush", f"at the end of the stream `{acc}` is empty or has been parsed (states at exit: {sorted(states[cfg.exit])})", fn.loc())
    # (b) never append onto an already-dispatched buffer
    stale = [(n, v) for n in cfg.nodes for v in states[n.id] if v == "N!"]
    if stale:
        rep.violation("R18.2", sub0 + " reset after dispatch", f"{fn.fq}|no-reset-after-dispatch",
                      f"after an event was dispatched `{acc}` is not reset before the next line is appended: lines of earlier events are "
                      f"delivered again", fn.loc(stale[0][0].ast or fn.node))
    else:
        rep.ok("R18.2", sub0 + " reset after dispatch", f"`{acc}` is reset on every path between a dispatch and the next append", fn.loc())
    # (b2) never reset a buffer that still holds unparsed lines
    lost = [n for n in cfg.nodes if n.kind == "stmt" and n.ast is not None and is_reset(n.ast) and ({"N", "N!"} & set(states[n.id]))]
    if lost:
        rep.violation("R18.2", sub0 + " no reset of unparsed lines", f"{fn.fq}|reset-discards|{norm(lost[0].ast)}",
                      f"`{acc}` is emptied while it still holds lines that were never parsed: that event is lost", fn.loc(lost[0].ast))
    else:
        rep.ok("R18.2", sub0 + " no reset of unparsed lines", f"every reset of `{acc}` happens in state empty/parsed", fn.loc())
    # (c) the dispatch happens exactly on the blank line: the test guarding parse inside the loop compares the line with ""
    dom = cfg.dominators()
    parse_nodes = [n for n in cfg.nodes if n.kind == "stmt" and n.ast is not None and parses(n.ast) and not n.copy]
    in_loop = [n for n in parse_nodes if _inside(n.ast, loop)]
    rep.require(bool(in_loop), "R18.2: no dispatch inside the loop")
    def blank_sense(g, pol) -> Optional[bool]:
        """True: this guard means 'the current line is blank'; False: 'the line is not blank'; None: some other test."""
        tv = truthiness(g.ast)
        if tv is not None and isinstance(tv[0], ast.Name) and tv[0].id in lvs and pol is not None:
            line_nonempty = tv[1] if pol else not tv[1]
            return not line_nonempty
        return None

    for n in in_loop:
        gs = [(g, pol) for g, pol in _guards(cfg, n.id, dom) if g.kind == "test" and _inside(g.stmt, loop)]
        if any(blank_sense(g, pol) is True for g, pol in gs):
            rep.ok("R18.2", sub0 + " dispatch on blank line", "dispatch happens exactly where the current line is blank", fn.loc(n.ast))
        else:
            rep.violation("R18.2", sub0 + " dispatch on blank line", f"{fn.fq}|dispatch-guard",
                          f"event dispatch inside the loop is not guarded by the blank-line test (guards: {[norm(g.ast) for g, _ in gs]})", fn.loc(n.ast))
    # append must be exactly the complement branch of the blank-line test (no line is dropped, none is both)
    app_nodes = [n for n in cfg.nodes if n.kind == "stmt" and n.ast is not None and has_append(n.ast)]
    def comment_sense(g, pol) -> Optional[bool]:
        """True: this guard means 'the current line is a comment' (`line.startswith(":")`, `line[0] == ":"`, `line[:1] == ":"`); False: 'it is not'."""
        t, p = g.ast, pol
        while isinstance(t, ast.UnaryOp) and isinstance(t.op, ast.Not):
            t, p = t.operand, (None if p is None else not p)
        if p is None:
            return None
        if isinstance(t, ast.Call) and isinstance(t.func, ast.Attribute) and t.func.attr == "startswith" and isinstance(t.func.value, ast.Name) \
                and t.func.value.id in lvs and len(t.args) == 1 and const_str(t.args[0]) == ":":
            return p
        if isinstance(t, ast.Compare) and len(t.ops) == 1 and isinstance(t.ops[0], (ast.Eq, ast.NotEq)) and isinstance(t.left, ast.Subscript) \
                and isinstance(t.left.value, ast.Name) and t.left.value.id in lvs and const_str(t.comparators[0]) == ":":
            return p if isinstance(t.ops[0], ast.Eq) else not p
        return None

    comment_free = bool(app_nodes)
    for n in app_nodes:
        gs = [(g, pol) for g, pol in _guards(cfg, n.id, dom) if g.kind == "test" and _inside(g.stmt, loop) and pol is not None]
        not_comment = [(g, pol) for g, pol in gs if comment_sense(g, pol) is False]
        gs = [(g, pol) for g, pol in gs if comment_sense(g, pol) is not False]  # 'the line is not a comment' drops nothing an event is made of
        if not not_comment:
            comment_free = False
        if len(gs) == 1 and blank_sense(*gs[0]) is False:
            rep.ok("R18.2", sub0 + " every non-blank line collected", "append guarded only by 'the line is not blank'" + (" and 'not a comment'" if not_comment else ""), fn.loc(n.ast))
        else:
            rep.violation("R18.2", sub0 + " every non-blank line collected", f"{fn.fq}|append-guards|{len(gs)}",
                          f"a non-blank line is collected only under extra conditions {[norm(g.ast) for g, _ in gs]}: lines can be dropped", fn.loc(n.ast))
    # R18.8 comments are ignored: a block made of comment lines only (a keep-alive) is not an event.  The dispatch decision is the
    # non-emptiness of the accumulator, so either comment lines never enter it, or the parser answers None for a block without fields.
    parser_fns = []
    for nn in parse_nodes:
        for c in calls_in(nn.ast):
            d = dotted(c.func) or ""
            if d in mod.functions and any(isinstance(x, ast.Name) and x.id == acc for x in c.args):
                parser_fns.append(mod.functions[d])
    parser_none = bool(parser_fns) and all(any(isinstance(r, ast.Return) and (r.value is None or (isinstance(r.value, ast.Constant) and r.value.value is None))
                                               for r in own_nodes(pf.node)) for pf in parser_fns)
    sub8 = f"{mod.relpath}:iter_sse comment-only blocks"
    if comment_free:
        rep.ok("R18.8", sub8, "comment lines never enter the accumulator whose non-emptiness decides the dispatch", fn.loc())
    elif parser_none:
        rep.ok("R18.8", sub8, "the block parser returns None on some path and the dispatch tests its result", fn.loc())
    else:
        rep.violation("R18.8", sub8, f"{fn.fq}|comment-lines-trigger-dispatch",
                      "comment lines are collected like field lines, the dispatch is decided by `if <collected lines>` and the block parser always returns an event object: "
                      "a block of comment lines only (`: keep-alive`) is delivered as an event with empty data instead of being ignored", fn.loc())
    # (d) every parsed event is yielded (bypass only through `if event:`)
    for n in parse_nodes + [x for x in cfg.nodes if x.kind == "stmt" and x.ast is not None and parses(x.ast) and x.copy]:
        if not isinstance(n.ast, ast.Assign) or not isinstance(n.ast.targets[0], ast.Name):
            if any(isinstance(y, ast.Yield) for y in ast.walk(n.ast)):
                continue
            rep.violation("R18.2", sub0 + " parsed event is yielded", f"{fn.fq}|parse-result-unused|{norm(n.ast)}", "parse result is not bound/yielded", fn.loc(n.ast))
            continue
        ev = n.ast.targets[0].id
        ynodes = {m.id for m in cfg.nodes if m.ast is not None and m.kind == "stmt" and any(
            isinstance(y, ast.Yield) and isinstance(y.value, ast.Name) and y.value.id == ev for y in ast.walk(m.ast))}
        def _about_event(t: ast.AST) -> bool:
            """`if event:` / `if event is not None:` / `if not event: ...` - a test of nothing but the parsed event"""
            tv = truthiness(t)
            if tv is not None and isinstance(tv[0], ast.Name) and tv[0].id == ev:
                return True
            return isinstance(t, ast.Compare) and len(t.ops) == 1 and isinstance(t.ops[0], (ast.Is, ast.IsNot)) and isinstance(t.left, ast.Name) and t.left.id == ev \
                and isinstance(t.comparators[0], ast.Constant) and t.comparators[0].value is None

        tests = {m.id for m in cfg.nodes if m.kind == "test" and m.ast is not None and _about_event(m.ast)}
        saved = {t: list(cfg.succ[t]) for t in tests}
        for t in tests:
            cfg.succ[t] = [(m, lab) for m, lab in cfg.succ[t] if lab != "false"]
        targets = {cfg.exit} | {m.id for m in cfg.nodes if m.kind == "iter"}
        p = cfg.must_pass(n.id, ynodes, targets)
        for t in tests:
            cfg.succ[t] = saved[t]
        if p is None and ynodes:
            rep.ok("R18.2", sub0 + f" parsed event is yielded (L{n.lineno})", f"`yield {ev}` on every path after the parse", fn.loc(n.ast))
        else:
            rep.violation("R18.2", sub0 + " parsed event is yielded", f"{fn.fq}|parse-not-yielded|{norm(n.ast)}",
                          f"a parsed event can be dropped without being yielded: {cfg.describe_path(p or [])}", fn.loc(n.ast))


def rule_lines_untouched(repo: Repo, rep, rule: str = "R18.6") -> None:
    """iter_sse hands every line of `aiter_lines()` on as it arrived: the blank-line test and the accumulator see the loop variable
    itself.  A transformation of the line inside the loop (strip / rstrip / replace / slicing, an assignment to the loop variable)
    changes the data of every event whose lines it touches - trailing whitespace of `data:` lines is content, and a padding-only line
    is not an event boundary."""
    fn = repo.module(MOD).functions.get("iter_sse")
    if fn is None:
        raise AnalysisError(f"{rule}: anchor vanished: iter_sse")
    loops = [n for n in own_nodes(fn.node) if isinstance(n, (ast.AsyncFor, ast.For)) and any(
        isinstance(c.func, ast.Attribute) and c.func.attr == "aiter_lines" for c in ast.walk(n.iter) if isinstance(c, ast.Call))]
    if len(loops) != 1 or not isinstance(loops[0].target, ast.Name):
        from sa.flatten import flatten as _fl

        f2 = _fl(fn)
        loops = [n for n in own_nodes(f2.node) if isinstance(n, (ast.AsyncFor, ast.For)) and any(
            isinstance(c.func, ast.Attribute) and c.func.attr == "aiter_lines" for c in ast.walk(n.iter) if isinstance(c, ast.Call))]
        if len(loops) != 1 or not isinstance(loops[0].target, ast.Name):
            rep.error(f"{rule}: expected one `async for <line> in response.aiter_lines()` in iter_sse, found {len(loops)}")
            return
    lp = loops[0]
    var = lp.target.id
    sub = f"{fn.module.relpath}:iter_sse line `{var}` between aiter_lines() and the accumulator"
    # plain copies (`line = raw_line`) are the same line; anything else assigned to one of those names rewrites it
    names = {var}
    for st in ast.walk(lp):
        if isinstance(st, ast.Assign) and len(st.targets) == 1 and isinstance(st.targets[0], ast.Name) and isinstance(st.value, ast.Name) and st.value.id in names:
            names.add(st.targets[0].id)
    rebinds = [st for st in ast.walk(lp) if isinstance(st, (ast.Assign, ast.AugAssign, ast.AnnAssign)) and any(
        isinstance(t, ast.Name) and t.id in names for t in (st.targets if isinstance(st, ast.Assign) else [st.target]))
        and not (isinstance(st, ast.Assign) and isinstance(st.value, ast.Name) and st.value.id in names)]
    appended = [c for c in ast.walk(lp) if isinstance(c, ast.Call) and isinstance(c.func, ast.Attribute) and c.func.attr == "append" and c.args
                and names & {x.id for x in ast.walk(c.args[0]) if isinstance(x, ast.Name)}]
    changed = [c for c in appended if not (isinstance(c.args[0], ast.Name) and c.args[0].id in names)]
    if rebinds:
        rep.violation(rule, sub, f"{fn.fq}|line-rewritten|{norm(rebinds[0].value)[:30] if getattr(rebinds[0], 'value', None) is not None else ''}",
                      f"`{norm(rebinds[0])[:60]}` rewrites the line before it is tested / accumulated: the event's data is no longer the data lines that were sent "
                      "(trailing whitespace dropped, a whitespace-only line ends the event early)", fn.loc(rebinds[0]))
    elif changed:
        rep.violation(rule, sub, f"{fn.fq}|line-transformed-on-append", f"`{norm(changed[0])[:60]}` accumulates a transformed line", fn.loc(changed[0]))
    elif appended:
        rep.ok(rule, sub, "the loop variable is never reassigned and is appended as it is", fn.loc(lp))
    else:
        rep.error(f"{rule}: no `<list>.append({var})` in the line loop of iter_sse (anchor)")


def _inside(node: Optional[ast.AST], anc: ast.AST) -> bool:
    p = node
    while p is not None:
        if p is anc:
            return True
        p = parent(p)
    return False


def _parse_event_rules(fn: Function, rep: Report) -> None:
    mod = fn.module
    sub0 = f"{mod.relpath}:_parse_sse_event"
    cfg = CFG(fn.node)
    dom = cfg.dominators()
    loops = [n for n in own_nodes(fn.node) if isinstance(n, ast.For)]
    rep.require(len(loops) == 1, f"R18.3: _parse_sse_event has {len(loops)} loops")
    if len(loops) != 1:
        return
    lv = loops[0].target.id if isinstance(loops[0].target, ast.Name) else "line"
    # comment test
    def _is_comment_call(e: ast.AST) -> bool:
        return isinstance(e, ast.Call) and isinstance(e.func, ast.Attribute) and e.func.attr == "startswith" and bool(e.args) and const_str(e.args[0]) == ":" \
            and isinstance(e.func.value, ast.Name) and e.func.value.id == lv

    # `if line.startswith(":")` - or as one alternative of an `or` (`if line.startswith(":") or ":" not in line: continue`): its true branch
    # is taken for every comment line either way
    comment_tests = [n for n in cfg.nodes if n.kind == "test" and (_is_comment_call(n.ast) or (
        isinstance(n.ast, ast.BoolOp) and isinstance(n.ast.op, ast.Or) and any(_is_comment_call(v) for v in n.ast.values)))]
    splits = [n for n in cfg.nodes if n.kind == "stmt" and n.ast is not None and any(
        isinstance(c.func, ast.Attribute) and c.func.attr in ("split", "partition") for c in calls_in(n.ast))]
    rep.require(bool(splits), "R18.3: no field split in _parse_sse_event")
    if comment_tests and all(any(t.id in dom[s.id] for t in comment_tests) for s in splits):
        # and the true branch of the comment test never reaches the split within the iteration
        t = comment_tests[0]
        true_succ = [m for m, lab in cfg.succ[t.id] if lab == "true"]
        hdr = {n.id for n in cfg.nodes if n.kind == "iter"}
        reach = set()
        for m in true_succ:
            reach |= cfg.reachable_from_without(m, hdr)
        if any(s.id in reach for s in splits):
            rep.violation("R18.3", sub0 + " comments ignored", f"{fn.fq}|comment-falls-through", "a comment line still reaches field parsing", fn.loc(t.ast))
        else:
            rep.ok("R18.3", sub0 + " comments ignored", "`line.startswith(':')` dominates the field split and its true branch skips it", fn.loc(t.ast))
    else:
        rep.violation("R18.3", sub0 + " comments ignored", f"{fn.fq}|no-comment-test",
                      "field parsing is not dominated by the comment test `line.startswith(':')`", fn.loc())
    # split on first colon only
    for s in splits:
        for c in calls_in(s.ast):
            if isinstance(c.func, ast.Attribute) and c.func.attr == "split":
                ok = len(c.args) == 2 and const_str(c.args[0]) == ":" and isinstance(c.args[1], ast.Constant) and c.args[1].value == 1
                if ok:
                    rep.ok("R18.3", sub0 + " split at first colon", "`split(':', 1)`: colons inside the value are preserved", fn.loc(c))
                else:
                    rep.violation("R18.3", sub0 + " split at first colon", f"{fn.fq}|split|{norm(c)}", f"`{norm(c)}` does not split at the first colon only", fn.loc(c))
            elif isinstance(c.func, ast.Attribute) and c.func.attr == "partition":
                if len(c.args) == 1 and const_str(c.args[0]) == ":":
                    rep.ok("R18.3", sub0 + " split at first colon", "`partition(':')`: the field name ends at the first colon, colons inside the value are preserved", fn.loc(c))
                else:
                    rep.violation("R18.3", sub0 + " split at first colon", f"{fn.fq}|split|{norm(c)}",
                                  f"`{norm(c)}` does not split at the first colon: a line whose colon is not followed by that exact separator (`data:x`, an empty `data:`) "
                                  "is not recognised as a field and its data is lost", fn.loc(c))
    # data accumulation: only append, under field == "data"
    ret = [n for n in own_nodes(fn.node) if isinstance(n, ast.Return)]
    rep.require(len(ret) == 1, f"R18.3: _parse_sse_event has {len(ret)} returns")
    data_var = None
    PL = Locals(fn.node)
    for r in ret:
        for c in [x for x in ast.walk(PL.inline(r)) if isinstance(x, ast.Call)]:
            if isinstance(c.func, ast.Attribute) and c.func.attr == "join" and c.args and isinstance(c.args[0], ast.Name):
                sep = const_str(c.func.value)
                data_var = c.args[0].id
                # ... and is handed to the event unchanged: no method applied to the joined text (strip / rstrip / replace ... would drop or
                # alter a payload that legitimately ends in line breaks)
                wrappers = [x for x in ast.walk(PL.inline(r)) if isinstance(x, ast.Call) and isinstance(x.func, ast.Attribute) and x.func.attr != "join"
                            and any(y is c or (isinstance(y, ast.Call) and ast.dump(y) == ast.dump(c)) for y in ast.walk(x.func.value))]
                if wrappers:
                    rep.violation("R18.3", sub0 + " joined data unchanged", f"{fn.fq}|joined-data-transformed|{wrappers[0].func.attr}",
                                  f"the joined data is passed through `.{wrappers[0].func.attr}(...)` before it becomes the event's data: e.g. trailing empty data "
                                  "lines of an event are lost", fn.loc(r))
                else:
                    rep.ok("R18.3", sub0 + " joined data unchanged", "the event's data is exactly the joined data lines", fn.loc(r))
                if sep == "\n":
                    rep.ok("R18.3", sub0 + " data joined with newline", 'multi-line data joined with the constant "\\n"', fn.loc(c))
                else:
                    rep.violation("R18.3", sub0 + " data joined with newline", f"{fn.fq}|join-sep|{norm(c.func.value)}",
                                  f"data lines are joined with {norm(c.func.value)} instead of a newline", fn.loc(c))
    if data_var is None:
        rep.violation("R18.3", sub0 + " data joined with newline", f"{fn.fq}|no-join", "the event's data is not `\"\\n\".join(<data lines>)`", fn.loc())
        return
    muts = [c for c in calls_in(fn.node) if isinstance(c.func, ast.Attribute) and isinstance(c.func.value, ast.Name) and c.func.value.id == data_var]
    bad = [c for c in muts if c.func.attr not in ("append",)]
    reassign = [n for n in own_nodes(loops[0]) if isinstance(n, (ast.Assign, ast.AugAssign)) and any(
        isinstance(t, ast.Name) and t.id == data_var for t in (n.targets if isinstance(n, ast.Assign) else [n.target]))]
    if bad or reassign or not muts:
        rep.violation("R18.3", sub0 + " data order", f"{fn.fq}|data-mutation|{[norm(x) for x in bad + reassign]}",
                      "data lines are not purely appended in arrival order", fn.loc((bad + reassign + [fn.node])[0]))
    else:
        for c in muts:
            n = [x for x in cfg.nodes if x.ast is not None and x.kind == "stmt" and any(cc is c for cc in calls_in(x.ast))][0]
            guards = [cfg.nodes[d] for d in dom[n.id] if cfg.nodes[d].kind == "test"]
            cases = [cfg.nodes[d] for d in dom[n.id] if cfg.nodes[d].kind == "case"]
            case_ok = any(isinstance(getattr(cn.ast, "pattern", None), ast.MatchValue) and const_str(cn.ast.pattern.value) == "data" for cn in cases)
            g_ok = case_ok or any(isinstance(g.ast, ast.Compare) and len(g.ast.ops) == 1 and isinstance(g.ast.ops[0], ast.Eq)
                       and "data" in (const_str(g.ast.comparators[0]), const_str(g.ast.left)) for g in guards)
            if g_ok:
                rep.ok("R18.3", sub0 + " data order", "values appended in arrival order under `field == \"data\"`", fn.loc(c))
            else:
                rep.violation("R18.3", sub0 + " data order", f"{fn.fq}|data-guard|{[norm(g.ast) for g in guards]}", "data append is not guarded by `field == \"data\"`", fn.loc(c))
    # the value appended is the text after the colon (only leading whitespace may be removed)
    for c in muts:
        if c.func.attr == "append" and c.args:
            v = c.args[0]
            if isinstance(v, ast.Name):
                defs = [n for n in own_nodes(loops[0]) if isinstance(n, ast.Assign) and any(isinstance(t, ast.Name) and t.id == v.id for t in n.targets)]
                transforms = []
                for d in defs:
                    for cc in calls_in(d.value):
                        if isinstance(cc.func, ast.Attribute) and cc.func.attr not in ("split", "lstrip", "removeprefix"):
                            transforms.append(cc.func.attr)
                if transforms:
                    rep.violation("R18.3", sub0 + " data value unchanged", f"{fn.fq}|value-transform|{sorted(transforms)}",
                                  f"the data value is transformed by {sorted(transforms)} before it is stored", fn.loc(c))
                else:
                    rep.ok("R18.3", sub0 + " data value unchanged", "value is the text after the first colon (leading whitespace stripped only)", fn.loc(c))


# ------------------------------------------------------------------------------------------------ R18.5 truth-tested values
def rule_truth_tested_instances(repo: Repo, rep, rule: str = "R18.5") -> None:
    """A decoder that guards a yield with the truthiness of a parsed value (`if event: yield event`) delivers every event only as long
    as instances of that value's class are always true: the class must define neither `__bool__` nor `__len__` (an event without data
    is still an event)."""
    mod = repo.module(MOD)
    classes = {c.name: c for c in mod.classes.values()}

    def returned_class(fn) -> Optional[str]:
        ann = getattr(fn.node, "returns", None)
        if ann is not None:
            for x in ast.walk(ann):
                if isinstance(x, ast.Name) and x.id in classes:
                    return x.id
                if isinstance(x, ast.Constant) and isinstance(x.value, str) and x.value in classes:
                    return x.value
        for r in own_nodes(fn.node):
            if isinstance(r, ast.Return) and isinstance(r.value, ast.Call) and isinstance(r.value.func, ast.Name) and r.value.func.id in classes:
                return r.value.func.id
        return None

    n = 0
    for q, fn in sorted(mod.functions.items()):
        L = Locals(fn.node)
        tested: List[Tuple[str, ast.AST]] = []
        for t in own_nodes(fn.node):
            tests: List[ast.AST] = []
            if isinstance(t, (ast.If, ast.While, ast.IfExp)):
                tests = [t.test]
            for te in tests:
                for x in ([te] + (list(te.values) if isinstance(te, ast.BoolOp) else [])):
                    while isinstance(x, ast.UnaryOp) and isinstance(x.op, ast.Not):
                        x = x.operand
                    if isinstance(x, ast.Name):
                        tested.append((x.id, t))
        for name, t in tested:
            cls_name = None
            for k, v, _ in L.defs.get(name, []):
                if isinstance(v, ast.Call):
                    callee = v.func.id if isinstance(v.func, ast.Name) else None
                    if callee in classes:
                        cls_name = callee
                    elif callee in mod.functions:
                        cls_name = returned_class(mod.functions[callee])
            if cls_name is None:
                continue
            n += 1
            c = classes[cls_name]
            dunders = [m for m in ("__bool__", "__len__") if m in c.methods]
            sub = f"{mod.relpath}:{q} truth test of `{name}` ({cls_name})"
            if dunders:
                rep.violation(rule, sub, f"{mod.name}:{q}|truthiness-of|{cls_name}|{','.join(dunders)}",
                              f"`{norm(t.test)[:50]}` decides whether a parsed {cls_name} is delivered, and {cls_name} defines {dunders}: an event whose data is empty "
                              "(heartbeat, `id:`-only block, empty `data:`) is now false and silently dropped", fn.loc(t))
            else:
                rep.ok(rule, sub, f"{cls_name} defines neither __bool__ nor __len__: every parsed instance is true, so the guard never drops an event", fn.loc(t))
    rep.count(f"{rule}:truth_tested_instances", n)


# ------------------------------------------------------------------------------------------------ R18.7 decoder state belongs to one stream
_R187_EXAMPLE = '''
class _Pending:
    lines: List[str] = []

    def take(self):
        event = parse(self.lines)
        self.lines.clear()
        return event

async def iter_sse(response):
    pending = _Pending()
    async for line in response.aiter_lines():
        pending.lines.append(line)
'''
_MUTATORS = ("append", "extend", "add", "update", "insert", "clear", "pop", "remove", "setdefault")


def _shared_decoder_state(tree: ast.AST):
    """Mutable containers that outlive one call of a decoder and are changed by the module's code: (kind, name, definition node, mutation node).
    kind 'class': a class-level list / dict / set of a plain (non-dataclass) class mutated through an instance or the class;
    kind 'module': a module-level container mutated inside a function; kind 'default': a mutable default of a function parameter that
    is mutated in the function."""
    out = []

    def mutable(v: Optional[ast.AST]) -> bool:
        return v is not None and (isinstance(v, (ast.List, ast.Dict, ast.Set)) or (isinstance(v, ast.Call) and (dotted(v.func) or "").split(".")[-1] in (
            "list", "dict", "set", "deque", "defaultdict", "bytearray", "OrderedDict")))

    cls_attrs, mod_names = {}, {}
    for st in getattr(tree, "body", []):
        if isinstance(st, ast.ClassDef):
            if any("dataclass" in norm(d) for d in st.decorator_list):
                continue
            for b in st.body:
                if isinstance(b, (ast.Assign, ast.AnnAssign)):
                    t = b.targets[0] if isinstance(b, ast.Assign) else b.target
                    if isinstance(t, ast.Name) and mutable(b.value):
                        cls_attrs[t.id] = (st.name, b)
            # attributes (re)bound per instance in __init__ are per-instance state
            for b in st.body:
                if isinstance(b, ast.FunctionDef) and b.name == "__init__":
                    for a in ast.walk(b):
                        if isinstance(a, (ast.Assign, ast.AnnAssign)):
                            for t in (a.targets if isinstance(a, ast.Assign) else [a.target]):
                                if isinstance(t, ast.Attribute) and isinstance(t.value, ast.Name) and t.value.id == "self":
                                    cls_attrs.pop(t.attr, None)
        elif isinstance(st, (ast.Assign, ast.AnnAssign)):
            t = st.targets[0] if isinstance(st, ast.Assign) else st.target
            if isinstance(t, ast.Name) and mutable(st.value) and not t.id.startswith("__"):
                mod_names[t.id] = st
    for fn in ast.walk(tree):
        if not isinstance(fn, (ast.FunctionDef, ast.AsyncFunctionDef)):
            continue
        local_stores = {x.id for x in ast.walk(fn) if isinstance(x, ast.Name) and isinstance(x.ctx, ast.Store)} | {a.arg for a in fn.args.args + fn.args.kwonlyargs}
        defaults = {}
        pos = fn.args.args
        for a, d in zip(pos[len(pos) - len(fn.args.defaults):], fn.args.defaults):
            if mutable(d):
                defaults[a.arg] = d
        for a, d in zip(fn.args.kwonlyargs, fn.args.kw_defaults):
            if d is not None and mutable(d):
                defaults[a.arg] = d
        for c in ast.walk(fn):
            recv = None
            if isinstance(c, ast.Call) and isinstance(c.func, ast.Attribute) and c.func.attr in _MUTATORS:
                recv = c.func.value
            elif isinstance(c, (ast.Assign, ast.AugAssign)):
                for t in (c.targets if isinstance(c, ast.Assign) else [c.target]):
                    if isinstance(t, ast.Subscript):
                        recv = t.value
            if recv is None:
                continue
            if isinstance(recv, ast.Attribute) and recv.attr in cls_attrs and isinstance(recv.value, ast.Name):
                # rebinding `self.x = []` inside the same function before the mutation makes it instance state
                rebound = any(isinstance(a, ast.Assign) and any(isinstance(t, ast.Attribute) and t.attr == recv.attr for t in a.targets) for a in ast.walk(fn))
                if not rebound:
                    out.append(("class", f"{cls_attrs[recv.attr][0]}.{recv.attr}", cls_attrs[recv.attr][1], c))
            elif isinstance(recv, ast.Name) and recv.id in mod_names and recv.id not in local_stores:
                out.append(("module", recv.id, mod_names[recv.id], c))
            elif isinstance(recv, ast.Name) and recv.id in defaults:
                out.append(("default", f"{fn.name}({recv.id}=...)", defaults[recv.id], c))
    return out


def rule_decoder_state_is_per_stream(repo: Repo, rep, rule: str = "R18.7") -> None:
    """What a decoder has collected of an unfinished event / record belongs to the stream it is reading.  Kept in a class-level or module-level
    container (or a mutable default), it is one object for every stream of the process: two streams consumed concurrently mix their lines,
    and a stream that dies in the middle of an event leaves its lines to the next one - the items then depend on how the chunks of the
    streams interleave."""
    hz = _shared_decoder_state(ast.parse(_R187_EXAMPLE))
    rep.require(len(hz) >= 1 and all(k == "class" for k, *_ in hz), f"{rule}: the built-in positive example is no longer recognised - the rule is broken")
    mod = repo.module(MOD)
    hz = _shared_decoder_state(mod.tree)
    n_fn = sum(1 for n in ast.walk(mod.tree) if isinstance(n, (ast.FunctionDef, ast.AsyncFunctionDef)))
    rep.count(f"{rule}:functions", n_fn)
    seen = set()
    for kind, name, dnode, mnode in hz:
        if name in seen:
            continue
        seen.add(name)
        rep.violation(rule, f"{mod.relpath} `{name}` ({kind}-level container changed by the decoders)", f"{mod.name}|shared-decoder-state|{kind}|{name}",
                      f"`{norm(dnode)[:50]}` exists once per process and is changed by `{norm(mnode)[:50]}`: every stream being decoded shares it - lines of concurrently "
                      "consumed streams end up in each other's events, and an aborted stream's pending lines are delivered with the next stream's first event",
                      f"{mod.relpath}:{dnode.lineno}")
    if not hz:
        rep.ok(rule, f"{mod.relpath} decoder state", f"{n_fn} functions: no class-level / module-level / default-argument container is changed by the decoders", f"{mod.relpath}:1")


_R189_EXAMPLE = '''
async def iter_sse(response):
    event_lines = deque(maxlen=1024)
    async for line in response.aiter_lines():
        if line == "":
            yield _parse(event_lines)
            event_lines.clear()
        else:
            event_lines.append(line)
'''


def _r189_lossy(fn_node: ast.AST) -> tuple[int, list[tuple[str, ast.AST, str]]]:
    """(accumulators seen, [(name, construct, why)]): containers that collect inside a streaming loop and can lose what they were given."""
    loops = [n for n in ast.walk(fn_node) if isinstance(n, (ast.AsyncFor, ast.For))]
    acc: set[str] = set()
    for lp in loops:
        for c in ast.walk(lp):
            if isinstance(c, ast.Call) and isinstance(c.func, ast.Attribute) and c.func.attr in ("append", "extend", "appendleft") and isinstance(c.func.value, ast.Name):
                acc.add(c.func.value.id)
            if isinstance(c, ast.AugAssign) and isinstance(c.target, ast.Name) and isinstance(c.op, ast.Add):
                acc.add(c.target.id)
    out: list[tuple[str, ast.AST, str]] = []
    for n in ast.walk(fn_node):
        tgt = val = None
        if isinstance(n, ast.Assign) and len(n.targets) == 1 and isinstance(n.targets[0], ast.Name):
            tgt, val = n.targets[0].id, n.value
        elif isinstance(n, ast.AnnAssign) and isinstance(n.target, ast.Name) and n.value is not None:
            tgt, val = n.target.id, n.value
        if tgt in acc and val is not None:
            for c in ast.walk(val):
                if isinstance(c, ast.Call) and (getattr(c.func, "id", None) == "deque" or getattr(c.func, "attr", None) == "deque"):
                    ml = next((k.value for k in c.keywords if k.arg == "maxlen"), c.args[1] if len(c.args) > 1 else None)
                    if ml is not None and not (isinstance(ml, ast.Constant) and ml.value is None):
                        out.append((tgt, c, "a deque with `maxlen` silently drops its oldest entries"))
            if isinstance(val, ast.Subscript) and isinstance(val.slice, ast.Slice) and isinstance(val.value, ast.Name) and val.value.id == tgt:
                out.append((tgt, n, "re-bound to a slice of itself"))
        if isinstance(n, ast.Delete):
            for t in n.targets:
                if isinstance(t, ast.Subscript) and isinstance(t.value, ast.Name) and t.value.id in acc:
                    out.append((t.value.id, n, "entries are deleted"))
        if isinstance(n, ast.Call) and isinstance(n.func, ast.Attribute) and isinstance(n.func.value, ast.Name) and n.func.value.id in acc:
            if n.func.attr == "popleft" or (n.func.attr == "pop" and n.args):
                # consuming a parsed prefix (`buf.pop(0)` whose result is used) is how a splitter works; a discarded result loses data
                if isinstance(parent(n), ast.Expr):
                    out.append((n.func.value.id, n, "an entry is removed and discarded"))
    return len(acc), out


def rule_accumulators_keep_everything(repo: Repo, rep, rule: str = "R18.9") -> None:
    """What a decoder has read and not yet yielded is kept whole: the container that collects the lines / text of the open event or record is
    unbounded and nothing is removed from it but by the reset after a yield.  A `deque(maxlen=n)`, a `buf = buf[-n:]`, a `del buf[:k]` make the
    yielded item depend on how much arrived before the terminator - the tail of a long event instead of the event."""
    n, bad = _r189_lossy(ast.parse(_R189_EXAMPLE).body[0])
    rep.require(n == 1 and len(bad) == 1, f"{rule}: the built-in positive example is no longer recognised - the rule is broken")
    mod = repo.module(MOD)
    total = 0
    found = []
    for q, fn in sorted(mod.functions.items()):
        if "<locals>" in q:
            continue
        k, bad = _r189_lossy(fn.node)
        total += k
        for name, node, why in bad:
            found.append((q, name, node, why, fn))
    rep.count(f"{rule}:accumulators", total)
    rep.require(total >= 2, f"{rule}: only {total} accumulators found in the streaming helpers (floor 2)")
    for q, name, node, why, fn in found:
        rep.violation(rule, f"{mod.relpath}:{q} accumulator `{name}`", f"{mod.name}:{q}|accumulator-loses-entries|{name}",
                      f"`{norm(node)[:70]}`: {why} - an event / record longer than the bound is yielded as its tail (no `event:` / `id:`, truncated data), whatever the chunking", fn.loc(node))
    if not found:
        rep.ok(rule, f"{mod.relpath}: accumulators of the decoders are unbounded and lose nothing before the yield", f"{total} accumulators", f"{mod.relpath}:1")
