"""Parameter merge / argument-name rules shared by C01 (R1.9), C04 (R4.4) and C20 - recognised by shape, not by local names."""
from __future__ import annotations

import ast
from typing import Dict, List, Optional, Set, Tuple

from sa.cfg import CFG, guards
from sa.match import Locals, match, names_in, walk_own
from sa.model import AnalysisError, Function, calls_in, const_str, dotted, norm, own_nodes


def override_merge_keys(po: Function) -> Optional[Set[str]]:
    """The attribute set on which an operation-level parameter evicts an earlier (path-level) one, read from the filter
    `[p for p in params if not (p.K1 == new.K1 and p.K2 == new.K2)]` (or its De-Morgan form / an explicit loop with the same test).
    None when no such filter exists."""
    from sa.flatten import flatten

    best: Optional[Set[str]] = None
    for n in walk_own(flatten(po).node):
        tests: List[Tuple[ast.AST, str]] = []
        if isinstance(n, (ast.ListComp, ast.GeneratorExp)) and len(n.generators) == 1 and len(n.generators[0].ifs) == 1 and isinstance(n.generators[0].target, ast.Name):
            tests.append((n.generators[0].ifs[0], n.generators[0].target.id))
        for t, var in tests:
            keys = _evict_keys(t, var)
            if keys:
                best = keys if best is None else best
    return best


def _evict_keys(t: ast.AST, var: str) -> Optional[Set[str]]:
    """keep-filter `t` over comprehension variable `var`: returns {attr} such that an element is dropped iff all attrs equal the new parameter's."""
    def pair(c: ast.AST, op: type) -> Optional[str]:
        if isinstance(c, ast.Compare) and len(c.ops) == 1 and isinstance(c.ops[0], op):
            a, b = c.left, c.comparators[0]
            if isinstance(a, ast.Attribute) and isinstance(b, ast.Attribute) and a.attr == b.attr and isinstance(a.value, ast.Name) and isinstance(b.value, ast.Name) \
                    and (a.value.id == var) != (b.value.id == var):
                return a.attr
        return None

    if isinstance(t, ast.UnaryOp) and isinstance(t.op, ast.Not):
        inner = t.operand
        parts = list(inner.values) if isinstance(inner, ast.BoolOp) and isinstance(inner.op, ast.And) else [inner]
        ks = [pair(c, ast.Eq) for c in parts]
        return set(ks) if ks and all(ks) else None  # type: ignore[arg-type]
    parts = list(t.values) if isinstance(t, ast.BoolOp) and isinstance(t.op, ast.Or) else [t]
    ks = [pair(c, ast.NotEq) for c in parts]
    return set(ks) if ks and all(ks) else None  # type: ignore[arg-type]


class NameSpaces:
    """Which local values of a function are *sanitised* names (results of NameSanitizer.sanitize_*) and which collections hold only such."""

    def __init__(self, fn: Function):
        self.fn = fn
        self.L = Locals(fn.node)

    def san_expr(self, e: ast.AST, depth: int = 0, seen: Optional[Set[str]] = None) -> bool:
        seen = set() if seen is None else seen
        if depth > 8:
            return False
        if isinstance(e, ast.Call):
            d = dotted(e.func) or ""
            if ".sanitize_" in d or d.startswith("sanitize_"):
                return True
            return False
        if isinstance(e, ast.Constant) and isinstance(e.value, str):
            return e.value.isidentifier()  # a literal argument name (`body`, `files`, ...)
        if isinstance(e, ast.Subscript) and const_str(e.slice) is not None and isinstance(e.value, ast.Name):
            # <record>["name"] where every definition of <record> is a dict literal whose "name" entry is a sanitised name
            ds = [v for k, v, _ in self.L.defs.get(e.value.id, []) if k == "assign" and not (isinstance(v, ast.Constant) and v.value is None)]
            if ds and all(isinstance(v, ast.Dict) for v in ds):
                vals = [val for v in ds for key, val in zip(v.keys, v.values) if key is not None and const_str(key) == const_str(e.slice)]  # type: ignore[union-attr]
                return len(vals) == len(ds) and all(self.san_expr(v, depth + 1, seen) for v in vals)
            # ... or the record is built by a helper of the module / class whose every return is such a dict literal (`self._body_param_info(name, ...)`):
            # the entry is read from the literal, a parameter of the helper standing for the argument of the call
            if ds and all(isinstance(v, ast.Call) for v in ds):
                ok_all = True
                for v in ds:
                    nm = (dotted(v.func) or "").split(".")[-1]  # type: ignore[union-attr]
                    h = self.fn.module.functions.get(nm) or (self.fn.cls.methods.get(nm) if self.fn.cls is not None else None)
                    rets = [r for r in ast.walk(h.node) if isinstance(r, ast.Return) and r.value is not None] if h is not None else []
                    if not rets or not all(isinstance(r.value, ast.Dict) for r in rets):
                        return False
                    hp = [a.arg for a in h.node.args.args if a.arg not in ("self", "cls")]  # type: ignore[union-attr]
                    for r in rets:
                        ent = [val for key, val in zip(r.value.keys, r.value.values) if key is not None and const_str(key) == const_str(e.slice)]  # type: ignore[union-attr]
                        if len(ent) != 1:
                            return False
                        x = ent[0]
                        if isinstance(x, ast.Name) and x.id in hp:
                            i = hp.index(x.id)
                            arg = v.args[i] if i < len(v.args) else next((k.value for k in v.keywords if k.arg == x.id), None)  # type: ignore[union-attr]
                            ok_all = ok_all and arg is not None and self.san_expr(arg, depth + 1, seen)
                        else:
                            ok_all = ok_all and isinstance(x, ast.Constant) and isinstance(x.value, str) and x.value.isidentifier()
                return ok_all
            return False
        if isinstance(e, ast.JoinedStr):
            parts = [v.value for v in e.values if isinstance(v, ast.FormattedValue)]
            return bool(parts) and self.san_expr(parts[0], depth + 1, seen)  # "<sanitised base>_<n>"
        if isinstance(e, ast.BinOp) and isinstance(e.op, ast.Add):
            return self.san_expr(e.left, depth + 1, seen)
        if isinstance(e, ast.Name):
            if e.id in seen:
                return True  # co-inductive: `base = name; name = f"{base}_{n}"`
            # a `None` initialiser is "no name yet": it is not a name of either kind and cannot collide with one
            ds = [d for d in self.L.defs.get(e.id, []) if not (d[0] == "assign" and isinstance(d[1], ast.Constant) and d[1].value is None)]
            vals = [v for k, v, _ in ds if k == "assign" and v is not None]
            return bool(vals) and len(vals) == len([d for d in ds if d[0] != "aug"]) and all(self.san_expr(v, depth + 1, seen | {e.id}) for v in vals)
        return False

    def san_coll(self, e: ast.AST, depth: int = 0, seen: Optional[Set[str]] = None) -> Tuple[bool, str]:
        """(holds only sanitised names?, why not)"""
        seen = set() if seen is None else seen
        if depth > 8:
            return False, "definition chain too deep"
        if isinstance(e, (ast.SetComp, ast.ListComp, ast.GeneratorExp)):
            ok = self.san_comp_elt(e)
            return ok, "" if ok else f"elements `{norm(e.elt)[:50]}` are not sanitised names"
        if isinstance(e, (ast.Set, ast.List, ast.Tuple)):
            ok = all(self.san_expr(x) for x in e.elts)
            return ok, "" if ok else "literal elements are not sanitised names"
        if isinstance(e, ast.Dict) and not e.keys:
            return True, ""
        if isinstance(e, ast.Call):
            d = dotted(e.func) or ""
            if d in ("set", "list", "sorted", "frozenset", "tuple", "dict") and not e.args:
                return True, ""
            if d in ("set", "list", "sorted", "frozenset", "tuple") and len(e.args) == 1:
                return self.san_coll(e.args[0], depth + 1)
            if isinstance(e.func, ast.Attribute) and e.func.attr in ("keys", "copy", "union") and not e.args:
                return self.san_coll(e.func.value, depth + 1)
            return False, f"`{norm(e)[:60]}` returns names that did not pass a NameSanitizer function"
        if isinstance(e, ast.BinOp) and isinstance(e.op, ast.BitOr):
            a, wa = self.san_coll(e.left, depth + 1, seen)
            b, wb = self.san_coll(e.right, depth + 1, seen)
            return a and b, wa or wb
        if isinstance(e, ast.Name):
            if e.id in seen:
                return True, ""  # co-inductive: `taken = taken | more`
            seen = seen | {e.id}
            ds = self.L.defs.get(e.id, [])
            if not ds or any(k == "param" for k, _, _ in ds):
                return False, f"`{e.id}` comes from outside the function"
            for k, v, st in ds:
                if k == "assign" and v is not None:
                    ok, why = self.san_coll(v, depth + 1, seen)
                    if not ok:
                        return False, why
                elif k == "aug" and isinstance(st, ast.AugAssign):
                    ok, why = self.san_coll(st.value, depth + 1, seen)
                    if not ok:
                        return False, why
                elif k != "assign":
                    return False, f"`{e.id}` is bound by {k}"
            # element insertions
            for n in own_nodes(self.fn.node):
                if isinstance(n, ast.Call) and isinstance(n.func, ast.Attribute) and isinstance(n.func.value, ast.Name) and n.func.value.id == e.id:
                    if n.func.attr in ("add", "append") and n.args and not self.san_expr(n.args[0]):
                        return False, f"`{norm(n)[:50]}` inserts a name that is not sanitised"
                    if n.func.attr == "update" and n.args:
                        ok, why = self.san_coll(n.args[0], depth + 1)
                        if not ok:
                            return False, why
                if isinstance(n, (ast.Assign, ast.AnnAssign)):
                    tg = n.targets[0] if isinstance(n, ast.Assign) else n.target
                    if isinstance(tg, ast.Subscript) and isinstance(tg.value, ast.Name) and tg.value.id == e.id and not self.san_expr(tg.slice):
                        return False, f"key `{norm(tg.slice)[:40]}` of `{e.id}` is not a sanitised name"
            return True, ""
        return False, f"`{norm(e)[:60]}` is not understood"

    def san_comp_elt(self, c: ast.AST) -> bool:
        return self.san_expr(c.elt)  # type: ignore[attr-defined]


def reservation_rule(pp: Function, rep, rule: str) -> None:
    """process_parameters: the names a colliding parameter must avoid are (a) in the namespace of the tested name (sanitised) and
    (b) include, for non-path parameters, the sanitised names of the path parameters (which the URL template uses unsuffixed)."""
    def _whiles(f):
        return [n for n in own_nodes(f.node) if isinstance(n, ast.While) and isinstance(n.test, ast.Compare) and len(n.test.ops) == 1
                and isinstance(n.test.ops[0], ast.In) and isinstance(n.test.comparators[0], ast.Name)]

    if not _whiles(pp):
        from sa.flatten import flatten as _flp

        pp = _flp(pp)  # the rename loop may have been extracted into a helper of the processor: written out
    L = Locals(pp.node)
    ns = NameSpaces(pp)
    whiles = _whiles(pp)
    sub = f"{pp.module.relpath}:process_parameters path names reserved"
    if not whiles:
        rep.violation(rule, sub, f"{pp.fq}|path-name-not-reserved", "no rename-until-unused loop: argument-name collisions are not resolved", pp.loc())
        return
    w = whiles[0]
    tested, coll = w.test.left, w.test.comparators[0]  # type: ignore[union-attr]
    if not ns.san_expr(tested):
        raise AnalysisError(f"{rule}: the name tested by the de-duplication loop (`{norm(tested)}`) is not recognisably a sanitised name")
    ok, why = ns.san_coll(coll)
    sub2 = f"{pp.module.relpath}:process_parameters collision set holds names of the same kind"
    if ok:
        rep.ok(rule, sub2, f"`{norm(w.test)}`: every name placed in the collision set went through a NameSanitizer function, like the tested name", pp.loc(w))
    else:
        rep.violation(rule, sub2, f"{pp.fq}|mixed-namespaces",
                      f"the sanitised argument name is tested against a set that can hold un-sanitised names ({why}): a path variable such as "
                      "`{tenantId}` reserves `tenantId` while the argument is `tenant_id`, so the reservation silently fails and another argument takes the name the URL uses", pp.loc(w))
    # (b) the path-parameter reservation
    cfg = CFG(pp.node)
    dom = cfg.dominators()
    reserved = False
    for n in cfg.nodes:
        if n.kind != "stmt" or n.ast is None or n.copy:
            continue
        val = None
        if isinstance(n.ast, ast.AugAssign) and isinstance(n.ast.target, ast.Name) and n.ast.target.id == coll.id and isinstance(n.ast.op, ast.BitOr):
            val = n.ast.value
        elif isinstance(n.ast, ast.Expr) and isinstance(n.ast.value, ast.Call) and isinstance(n.ast.value.func, ast.Attribute) and n.ast.value.func.attr == "update" \
                and isinstance(n.ast.value.func.value, ast.Name) and n.ast.value.func.value.id == coll.id and n.ast.value.args:
            val = n.ast.value.args[0]
        elif isinstance(n.ast, ast.Assign) and isinstance(n.ast.targets[0], ast.Name) and n.ast.targets[0].id == coll.id and isinstance(n.ast.value, ast.BinOp):
            val = n.ast.value.right
        if val is None:
            continue
        vi = L.inline(val)
        about_path = any(isinstance(x, ast.Compare) and any(const_str(y) == "path" for y in [x.left] + x.comparators) for x in ast.walk(vi)) or "extract_url_variables" in norm(vi)
        if not about_path:
            continue
        gs = [(g.ast, pol) for g, pol in guards(cfg, n.id, dom) if g.kind == "test"]
        def _unneg(t: ast.AST, pol):
            while isinstance(t, ast.UnaryOp) and isinstance(t.op, ast.Not) and pol is not None:
                t, pol = t.operand, not pol
            return t, pol

        gs = [_unneg(t, pol) for t, pol in gs]
        only_non_path = any(
            isinstance(t, ast.Compare) and len(t.ops) == 1 and any(const_str(y) == "path" for y in [t.left] + t.comparators)
            and ((isinstance(t.ops[0], ast.NotEq) and pol is True) or (isinstance(t.ops[0], ast.Eq) and pol is False)) for t, pol in gs)
        if only_non_path:
            reserved = True
    if reserved:
        rep.ok(rule, sub, "path parameters keep the plain sanitised name the URL template uses; colliding non-path parameters get the suffix", pp.loc())
    else:
        rep.violation(rule, sub, f"{pp.fq}|path-name-not-reserved",
                      "argument-name collisions can rename a *path* parameter while the URL template still uses the plain name: another argument's value is put into the path", pp.loc())
