"""C07 - every operation is reachable exactly once per tag; none silently dropped.

R7.1  error discipline in the operations loader: no handler on the parse_operations path swallows an operation
R7.2  response status keys are normalised with str() before the type-checked parser sees them (YAML `200:`)
R7.3  method-name de-duplication is sound (test / rename until unused / record)           [= R20.2 `operation methods`]
R7.4  tag grouping agreement between EndpointsEmitter.emit and ClientVisitor.visit (all tags, same key function,
      same default tag, same canonical-spelling score, same class/module derivation)
R7.6  str-enum options (NamingStrategy, HTTPMethod) are compared by value, never by identity: the strategy selected as a plain
      string is honoured
R7.8  every member of HTTPMethod passes the path-item key filter of parse_operations (skip tests evaluated per member)
R7.9  CLEAN strategy: the path-derived suffix compared with the lower-cased id is itself case-folded (string-shape interpretation)
R7.10 a rendered method is never served from a cache keyed by the operation alone (rendering registers imports in the current module's context)
R7.11 sanitize_method_name returns a valid ASCII identifier for every input (string-shape interpretation)              [= R20.1]
R7.12 no key of the Paths Object other than an `x-` extension is taken out before parse_operations sees it (filter evaluated per key)
R7.13 the list of rendered methods reaches the class writer whole: never re-bound / shortened, written element by element without a skip
R7.15 a Path Item given as `$ref` is resolved or rejected - never skipped like a documentation field - and a key that is no known method but holds a
      mapping (`query`, `additionalOperations`) raises instead of being passed over
R7.14 no tag attribute of APIClient can take the name of one of the class's own members (`transport`, `request`, `close`, `_base_url`): the
      fixed member names of the class template are refused by the function that derives the attribute name
R7.7  the tag grouping key is at least as coarse as the module / class names derived from a tag (no two groups share a file)
R7.5  no filter between grouping and emission: every operation of a tag is visited, every tag yields a file, a
      class entry and an APIClient property
"""
from __future__ import annotations

import ast
from typing import Dict, List, Optional, Set

from rules._tags import grouping_of, naming_of
from rules.c20 import _dedup_site
from sa.cfg import CFG
from sa.model import AnalysisError, Function, Repo, calls_in, const_str, dotted, norm, own_nodes, parent
from sa.match import Locals
from sa.report import Report


def _always_raises(body: List[ast.stmt]) -> bool:
    for st in body:
        if isinstance(st, ast.Raise):
            return True
        if isinstance(st, ast.If) and st.orelse and _always_raises(st.body) and _always_raises(st.orelse):
            return True
    return False


class _R711:
    def __init__(self, rep):
        self.rep = rep

    def ok(self, rule, *a, **k):
        self.rep.ok("R7.11", *a, **k)

    def violation(self, rule, *a, **k):
        self.rep.violation("R7.11", *a, **k)

    def error(self, msg):
        self.rep.error(msg.replace("R20.1", "R7.11"))

    def require(self, cond, msg):
        self.rep.require(cond, msg.replace("R20.1", "R7.11"))

    def count(self, *a, **k):
        pass


def rule_path_item_refs_and_unknown_keys(repo: Repo, rep, rule: str = "R7.15") -> None:
    """"If an operation cannot be represented, generation fails visibly instead of omitting it."  Two places of `parse_operations` pass over keys of a
    Path Item without looking: the set of fields that are skipped by name, and the branch for keys that are no member of HTTPMethod.  (a) `$ref` is
    not a documentation field: a referenced Path Item (`#/components/pathItems/X`, or a file reference of an un-bundled document) carries
    operations; it may be in the skip set only if the function deals with `"$ref" in <item>` first (resolve or raise).  (b) the unknown-key branch
    raises for a key that holds a mapping and is not an `x-` extension (OpenAPI 3.2 `query`, `additionalOperations`, a misspelt method)."""
    po = repo.func("core.loader.operations.parser:parse_operations")
    skipsets = []
    for n in own_nodes(po.node):
        if isinstance(n, ast.If) and isinstance(n.test, ast.Compare) and len(n.test.ops) == 1 and isinstance(n.test.ops[0], ast.In) and isinstance(n.test.comparators[0], (ast.Set, ast.Tuple, ast.List)) \
                and any(isinstance(b, ast.Continue) for b in n.body):
            vals = {const_str(e) for e in n.test.comparators[0].elts if const_str(e) is not None}
            if vals & {"parameters", "summary", "description", "servers"}:
                skipsets.append((n, vals))
    loops0 = [x for x in own_nodes(po.node) if isinstance(x, (ast.For, ast.AsyncFor)) and isinstance(x.iter, ast.Call) and isinstance(x.iter.func, ast.Attribute)
              and x.iter.func.attr == "items" and isinstance(x.target, ast.Tuple) and len(x.target.elts) == 2 and any(
                  isinstance(y, ast.Subscript) and dotted(y.value) == "HTTPMethod" for y in ast.walk(x))]
    loop0 = max(loops0, key=lambda x: x.lineno) if loops0 else None  # the innermost one: the loop over the keys of one Path Item
    if loop0 is None and not skipsets:
        raise AnalysisError(f"{rule}: the key loop over a Path Item was not found in parse_operations (anchor)")
    n0, vals = skipsets[0] if skipsets else (loop0, set())
    handled = any(isinstance(x, ast.Compare) and len(x.ops) == 1 and isinstance(x.ops[0], ast.In) and const_str(x.left) == "$ref" and getattr(x, "lineno", 0) < n0.lineno
                  for x in ast.walk(po.node))
    sub = f"{po.module.relpath}:parse_operations Path Item given as `$ref`"
    if not handled:
        rep.violation(rule, sub, f"{po.fq}|path-item-ref-skipped",
                      ("`$ref` is skipped like `summary` / `description`" if "$ref" in vals else "nothing deals with `\"$ref\" in <path item>` before its keys are walked (the key is no HTTP method and is passed over)")
                      + ": the operations of a referenced Path Item (`#/components/pathItems/...`, or a file reference of a document that was not bundled) are missing from the client and "
                      "generation reports nothing", po.loc(n0))
    else:
        rep.ok(rule, sub, "a `$ref` Path Item is dealt with before the key loop (resolved or rejected)", po.loc(n0))
    extra = vals - {"parameters", "summary", "description", "servers", "$ref"}
    sub2 = f"{po.module.relpath}:parse_operations keys skipped by name"
    if extra:
        rep.violation(rule, sub2, f"{po.fq}|skip-set|{sorted(extra)}", f"{sorted(extra)} are passed over by name although they are no documentation fields of a Path Item", po.loc(n0))
    else:
        rep.ok(rule, sub2, f"only {sorted(vals - {'$ref'})}" if vals else "no key is skipped by name", po.loc(n0))
    # (b) the not-a-known-method branch
    sub3 = f"{po.module.relpath}:parse_operations key that is no HTTP method"
    branch = None
    for n in own_nodes(po.node):
        if isinstance(n, ast.If) and isinstance(n.test, ast.Compare) and len(n.test.ops) == 1 and isinstance(n.test.ops[0], ast.NotIn) and "__members__" in norm(n.test.comparators[0]):
            branch = n
    if branch is None:
        rep.ok(rule, sub3, "no pass-over branch for unknown keys", po.loc())
    elif any(isinstance(x, ast.Raise) for b in branch.body for x in ast.walk(b)):
        rep.ok(rule, sub3, "an unknown key that holds a mapping raises (an `x-` extension or a scalar is passed over)", po.loc(branch))
    else:
        rep.violation(rule, sub3, f"{po.fq}|unknown-key-passed-over",
                      "every key that is not a member of HTTPMethod is passed over silently - also one that holds an operation (`query` of OpenAPI 3.2, `additionalOperations`, a misspelt "
                      "method): its operation is missing from the client and nothing is reported", po.loc(branch))


def rule_tag_attrs_spare_client_members(repo: Repo, rep, rule: str = "R7.14") -> None:
    """APIClient gets one property `def <attr>(self)` and one slot `self._<attr>` per tag, next to members of its own (`self.transport`,
    `self._base_url`, `async def request`, `async def close`).  A tag whose attribute name equals one of those replaces it: tag `Transport` ->
    the property shadows the attribute every tag client is built from; tag `Request` / `Close` -> the later method definition replaces the
    property and the tag's operations are unreachable; tag `Base URL` -> `self._base_url` holds a tag client instead of the URL.  Decided:
    every fixed member name of the class template (read from its constant lines) is refused by the sanitiser the attribute name comes from."""
    import keyword as _kw
    import re as _re

    fn = repo.func("visit.client_visitor:ClientVisitor._generate_client_implementation")
    public: Dict[str, ast.AST] = {}
    private: Dict[str, ast.AST] = {}
    per_tag_def = per_tag_slot = 0
    for c in calls_in(fn.node):
        if not (isinstance(c.func, ast.Attribute) and c.func.attr == "write_line" and c.args):
            continue
        a = c.args[0]
        if isinstance(a, ast.JoinedStr):
            txt = "".join(v.value if isinstance(v, ast.Constant) else "{}" for v in a.values)
            if _re.match(r"^def \{\}\(self", txt):
                per_tag_def += 1
                continue
            if _re.match(r"^self\._\{\}\s*(:[^=]*)?=", txt):
                per_tag_slot += 1
                continue
            # a fixed member whose *value* is computed: `self.version: str = {...!r}` - the name is in the constant head of the line
            txt = txt.split("{}", 1)[0] if _re.match(r"^(?:(?:async )?def [A-Za-z_][A-Za-z0-9_]*\(self|self\._?[A-Za-z][A-Za-z0-9_]*\s*(?::[^=]*)?=[^=])", txt.split("{}", 1)[0] + " ") else None
        else:
            txt = const_str(a)
        if txt is None:
            continue
        m = _re.match(r"^(?:async )?def ([A-Za-z_][A-Za-z0-9_]*)\(self", txt)
        if m and not m.group(1).startswith("__"):
            public.setdefault(m.group(1), c)
        m = _re.match(r"^self\.(_?)([A-Za-z][A-Za-z0-9_]*)\s*(?::[^=]*)?=[^=]", txt)
        if m:
            (private if m.group(1) else public).setdefault(m.group(2), c)
    if not per_tag_def or not per_tag_slot:
        raise AnalysisError(f"{rule}: the per-tag property `def {{attr}}(self)` / slot `self._{{attr}}` templates of APIClient were not found (anchor)")
    rep.count(f"{rule}:client_members", {"public": sorted(public), "private_slots": sorted(private)})
    rep.require(len(public) + len(private) >= 4, f"{rule}: only {len(public) + len(private)} fixed members of the APIClient template found (floor 4)")
    # where the attribute name comes from: the third component of tag_tuples in ClientVisitor.visit
    visit = repo.func("visit.client_visitor:ClientVisitor.visit")
    derivs = {c.func.attr for c in calls_in(visit.node) if isinstance(c.func, ast.Attribute) and c.func.attr.startswith("sanitize_") and "class" not in c.func.attr}
    if not derivs:
        from sa.flatten import flatten

        derivs = {c.func.attr for c in calls_in(flatten(visit).node) if isinstance(c.func, ast.Attribute) and c.func.attr.startswith("sanitize_") and "class" not in c.func.attr}
    if not derivs:
        raise AnalysisError(f"{rule}: the derivation of the tag attribute name (a NameSanitizer call in ClientVisitor.visit) was not found (anchor)")
    ns = repo.module("core.utils").classes.get("NameSanitizer")
    refused: Set[str] = set()
    tables: Dict[str, Set[str]] = {}
    if ns is not None:
        for st in ns.node.body:
            if isinstance(st, (ast.Assign, ast.AnnAssign)) and isinstance(st.value, (ast.Set, ast.List, ast.Tuple)):
                tg = st.targets[0] if isinstance(st, ast.Assign) else st.target
                if isinstance(tg, ast.Name):
                    tables[tg.id] = {const_str(e) for e in st.value.elts if const_str(e)}
        # the deriving sanitiser and the helpers of the class it hands the name to (`_protect_snake_case_name(...)`)
        todo = [d for d in derivs]
        seen_m: Set[str] = set()
        while todo:
            d = todo.pop()
            if d in seen_m:
                continue
            seen_m.add(d)
            m_ = ns.methods.get(d)
            if m_ is not None:
                for x in ast.walk(m_.node):
                    if isinstance(x, ast.Attribute) and x.attr in tables:
                        refused |= tables[x.attr]
                    if isinstance(x, ast.Name) and x.id in tables:
                        refused |= tables[x.id]
                    if isinstance(x, ast.Call) and isinstance(x.func, ast.Attribute) and x.func.attr in ns.methods and x.func.attr not in seen_m:
                        todo.append(x.func.attr)
    for nm, c in sorted(list(public.items()) + [("_" + k, v) for k, v in private.items()]):
        bare = nm.lstrip("_")
        sub = f"{fn.module.relpath}:APIClient member `{nm}` vs. tag attributes"
        if _kw.iskeyword(bare) or bare in refused:
            rep.ok(rule, sub, f"a tag cannot get the attribute name `{bare}` (refused by {'/'.join(sorted(derivs))})", fn.loc(c))
        else:
            what = (f"the property `def {bare}(self)` of a tag spelled `{bare}` and the class's own `{nm}` are one attribute" if not nm.startswith("_") else
                    f"the slot `self.{nm}` of a tag spelled `{bare}` overwrites the class's own `self.{nm}`")
            rep.violation(rule, sub, f"{fn.fq}|tag-attr-vs-member|{nm}",
                          f"{what}: the tag's operations (or every operation of the client) are unreachable through APIClient, and nothing is reported", fn.loc(c))


def run(repo: Repo, rep: Report, tier: str) -> None:
    from sa.report import guarded as _guarded

    po = repo.func("core.loader.operations.parser:parse_operations")
    from sa.report import guarded

    guarded(rep, rule_tag_attrs_spare_client_members, repo, rep, "R7.14")
    guarded(rep, rule_path_item_refs_and_unknown_keys, repo, rep, "R7.15")
    guarded(rep, rule_ref_chain_keeps_every_hop, repo, rep, "R7.16")
    # ---------------------------------------------------------------- R7.10 / R7.11
    from rules._memo import persistent_memo_rule

    persistent_memo_rule(repo, rep, "R7.10", ("visit", "emitters"),
                         "Rendering a method also registers its imports in the render context of the module being written: an operation with several tags that is "
                         "served from the cache lands in the later tag modules without its imports (NameError when the package is imported)")
    # method names are valid, plain-ASCII identifiers whatever the operationId contains (a name Python cannot parse - or folds onto
    # another by NFKC - makes the tag module unimportable / drops a method)                                   [= R20.1, sanitize_method_name]
    from rules import c20 as _c20

    ns = repo.module("core.utils").classes["NameSanitizer"]
    if "sanitize_method_name" not in ns.methods:
        raise AnalysisError("anchor vanished: NameSanitizer.sanitize_method_name")
    _c20._shape_rule(ns.methods["sanitize_method_name"], _c20.SANITIZERS["sanitize_method_name"], _R711(rep))
    # ---------------------------------------------------------------- R7.1
    n_h = 0
    for tr in [n for n in own_nodes(po.node) if isinstance(n, ast.Try)]:
        for h in tr.handlers:
            n_h += 1
            hn = norm(h.type) if h.type is not None else "<bare>"
            sub = f"{po.module.relpath}:parse_operations except {hn}"
            if _always_raises(h.body):
                rep.ok("R7.1", sub, "the handler re-raises", po.loc(h))
            else:
                inside_loop = any(isinstance(p, ast.For) for p in _ancestors(tr))
                rep.violation("R7.1", sub, f"{po.fq}|swallow|{hn}|{norm(h.body[0])[:50]}",
                              f"`except {hn}` around the parsing of one operation only warns and continues: an operation that cannot be "
                              "represented is omitted from the client while generation reports success", po.loc(h))
    rep.require(n_h >= 1, "R7.1: parse_operations has no exception handler any more (anchor)")
    # other loader functions on the path: parse_response / parse_parameter / parse_request_body must not swallow either
    for spec in ("core.loader.responses.parser:parse_response", "core.loader.parameters.parser:parse_parameter", "core.loader.operations.request_body:parse_request_body"):
        fn = repo.func(spec)
        sw = [h for tr in own_nodes(fn.node) if isinstance(tr, ast.Try) for h in tr.handlers if not _always_raises(h.body)]
        sub = f"{fn.module.relpath}:{fn.qualname} handlers"
        if sw:
            rep.violation("R7.1", sub, f"{fn.fq}|swallow|{norm(sw[0].type) if sw[0].type else 'bare'}", "a handler in this parser swallows an error", fn.loc(sw[0]))
        else:
            rep.ok("R7.1", sub, "no swallowing handler", fn.loc())

    # ---------------------------------------------------------------- R7.2 status keys
    if not any(dotted(c.func) == "parse_response" for c in calls_in(po.node)):
        from sa.flatten import flatten as _fl72

        po = _fl72(po)  # the per-operation work was split into helpers of the module: written out
    OL = Locals(po.node)
    calls = [c for c in calls_in(po.node) if dotted(c.func) == "parse_response"]
    rep.require(len(calls) >= 1, "R7.2: parse_operations no longer calls parse_response (anchor)")
    for c in calls:
        a0 = c.args[0] if c.args else None
        a0 = OL.inline(a0) if a0 is not None else None
        sub = f"{po.module.relpath}:parse_operations parse_response(...) status key"
        if isinstance(a0, ast.Call) and dotted(a0.func) == "str":
            rep.ok("R7.2", sub, "the mapping key is converted with str() (a YAML `200:` int key is accepted like '200')", po.loc(c))
        else:
            # is the callee type-strict on that parameter?
            pr = repo.func("core.loader.responses.parser:parse_response")
            p0 = pr.params[0] if pr.params else "?"
            strict = any(isinstance(n, ast.If) and f"isinstance({p0}, str)" in norm(n.test) and any(isinstance(s, ast.Raise) for s in n.body) for n in own_nodes(pr.node))
            if strict:
                rep.violation("R7.2", sub, f"{po.fq}|status-key-not-normalised",
                              "the raw mapping key is passed to parse_response, which raises TypeError for non-str keys: with unquoted YAML "
                              "status codes every operation is skipped", po.loc(c))
            else:
                rep.ok("R7.2", sub, "parse_response accepts any key type", po.loc(c))

    # ---------------------------------------------------------------- R7.6 the selected naming strategy is honoured however it is spelled
    # NamingStrategy is a `str` enum so that callers can pass "clean" / "path"; comparing it by identity only matches enum members
    strenums = {c.name for m in repo.modules.values() for c in m.classes.values() if {"str", "Enum"} <= set(c.base_names)}
    live7 = set(repo.import_closure(["generator.client_generator"]))
    n_cmp = 0
    for mn in sorted(live7):
        mod = repo.modules[mn]
        for n in ast.walk(mod.tree):
            if isinstance(n, ast.Compare) and len(n.ops) == 1:
                sides = [n.left, n.comparators[0]]
                member = next((x for x in sides if isinstance(x, ast.Attribute) and isinstance(x.value, ast.Name) and x.value.id in strenums and x.attr.isupper()), None)
                if member is None:
                    continue
                n_cmp += 1
                sub = f"{mod.relpath}:{n.lineno} comparison with {norm(member)}"
                if isinstance(n.ops[0], (ast.Is, ast.IsNot)):
                    rep.violation("R7.6", f"{mod.relpath} identity comparison with {norm(member)}", f"{mn}|strenum-identity|{norm(member)}",
                                  f"`{norm(n)}` compares a str-enum by identity: a caller that selects the strategy by its documented string value "
                                  f"({member.attr.lower()!r}) matches no branch and the default naming is used silently", f"{mod.relpath}:{n.lineno}")
                else:
                    rep.ok("R7.6", f"{mod.relpath} equality comparison with {norm(member)} #{n_cmp}", "compared by value (`==` / `in`): string and enum spellings select the same branch", f"{mod.relpath}:{n.lineno}")
    rep.count("R7.6:str_enum_comparisons", n_cmp)

    # ---------------------------------------------------------------- R7.7 the grouping key is at least as coarse as the names derived from a tag
    # Two tags with different keys form two groups; if their module (file) names coincide the second group's file overwrites the first and
    # its operations vanish.  Necessary condition, decided on the character classes the functions can let through (string-shape abstract
    # interpretation): every kind of character that survives in the key also survives (as itself, up to case) in the module and class name.
    from sa.strshape import Interp, Unsupported

    ns = repo.module("core.utils").classes.get("NameSanitizer")
    if ns is None:
        raise AnalysisError("anchor vanished: NameSanitizer")
    shapes = {}
    for fname in ("normalize_tag_key", "sanitize_module_name", "sanitize_class_name"):
        f = ns.methods.get(fname)
        if f is None:
            raise AnalysisError(f"anchor vanished: NameSanitizer.{fname}")
        from sa.strshape import interpret as _interpret

        try:
            it = _interpret(f, f.params[0])
        except Unsupported as e:
            raise AnalysisError(f"R7.7: {fname} uses an operation the string-shape interpreter does not model: {e}")
        chars = set()
        for v, _, _ in it.returns:
            chars |= set(v.chars)
        shapes[fname] = chars
    fold = lambda cs: {"A" if c in ("U", "L") else c for c in cs}  # noqa: E731  (case is folded by the key)
    key_cs = fold(shapes["normalize_tag_key"])
    sub = "core/utils.py:NameSanitizer.normalize_tag_key is at least as coarse as sanitize_module_name / sanitize_class_name"
    bad = {}
    for fname in ("sanitize_module_name", "sanitize_class_name"):
        extra = sorted(key_cs - fold(shapes[fname]))
        if extra:
            bad[fname] = extra
    if not bad:
        rep.ok("R7.7", sub, f"characters that can survive in the key: {sorted(key_cs)}; all of them survive in module and class names", ns.methods["normalize_tag_key"].loc())
    else:
        rep.violation("R7.7", sub, f"tag-key-finer-than-names|{sorted(bad.items())}",
                      f"the grouping key keeps character classes that the name functions drop ({bad}): two tags that differ only in such characters (e.g. "
                      "'café' / 'caf', 'Data.Sources' / 'DataSources') form two groups with one module name - the second file overwrites the first and its "
                      "operations are silently lost", ns.methods["normalize_tag_key"].loc())

    _guarded(rep, rule_case_agreement, repo, rep, "R7.9")
    _guarded(rep, rule_method_filter_total, repo, rep, "R7.8")
    # ---------------------------------------------------------------- R7.3
    _dedup_site(repo.func("emitters.endpoints_emitter:EndpointsEmitter._deduplicate_operation_ids_globally"), "operation methods", "seen_methods", _Relabel(rep, "R7.3"))
    emit = repo.func("emitters.endpoints_emitter:EndpointsEmitter.emit")
    from sa.flatten import flatten as _fl73

    # the grouping loop may live in a helper (possibly shared with the mocks emitter): write it out, the de-duplication stays a call
    emit = _fl73(emit, select=lambda h: any(isinstance(x, ast.Attribute) and x.attr == "tags" for x in ast.walk(h.node)))
    ded = [c for c in calls_in(emit.node) if isinstance(c.func, ast.Attribute) and c.func.attr == "_deduplicate_operation_ids_globally"]
    EL = Locals(emit.node)

    def _iterates_tags(n: ast.AST) -> bool:
        return isinstance(n, ast.For) and any(isinstance(x, ast.Attribute) and x.attr == "tags" for x in ast.walk(EL.inline(n.iter)))

    group_loops = [n for n in own_nodes(emit.node) if isinstance(n, ast.For) and not _iterates_tags(n) and any(_iterates_tags(x) for x in ast.walk(n) if x is not n)]
    cfg73 = CFG(emit.node)
    dom73 = cfg73.dominators()
    ded_nodes = [n.id for n in cfg73.nodes if n.kind == "stmt" and n.ast is not None and not n.copy and any(c is ded[0] for c in calls_in(n.ast))] if ded else []
    loop_nodes = [n.id for n in cfg73.nodes if n.kind == "iter" and group_loops and n.stmt is group_loops[0] and not n.copy]
    if ded_nodes and loop_nodes and ded_nodes[0] in dom73[loop_nodes[0]]:
        rep.ok("R7.3", f"{emit.module.relpath}:EndpointsEmitter.emit dedup before grouping", "method names are made unique globally before operations are grouped by tag", emit.loc(ded[0]))
    else:
        rep.violation("R7.3", f"{emit.module.relpath}:EndpointsEmitter.emit dedup before grouping", f"{emit.fq}|dedup-order",
                      "operation ids are not de-duplicated before tag grouping", emit.loc())

    # ---------------------------------------------------------------- R7.4
    cv = repo.func("visit.client_visitor:ClientVisitor.visit")
    g1, g2 = grouping_of(repo, emit), grouping_of(repo, cv)
    for label, fn, g in (("endpoints emitter", emit, g1), ("client visitor", cv, g2)):
        sub = f"{fn.module.relpath}:{fn.qualname} grouping normal form"
        if g.all_tags and g.key_fn == "normalize_tag_key" and g.default_tag == "default" and g.score_dump and g.chooses_max_score:
            rep.ok("R7.4", sub, g.normal_form(), fn.loc())
        else:
            rep.violation("R7.4", sub, f"{fn.fq}|grouping|{g.normal_form()}",
                          f"the {label} groups operations as [{g.normal_form()}], expected all tags / normalize_tag_key / 'default' / max(tag_score)", fn.loc())
    if g1.normal_form() == g2.normal_form():
        rep.ok("R7.4", "sibling agreement emitter <-> APIClient", "identical grouping normal forms (incl. the tag_score body)", emit.loc())
    else:
        rep.violation("R7.4", "sibling agreement emitter <-> APIClient", f"grouping-disagree|{g1.normal_form()}|{g2.normal_form()}",
                      "EndpointsEmitter and ClientVisitor group tags differently: APIClient imports/exposes tag clients whose modules are not the ones written", emit.loc())
    n1, n2 = naming_of(emit), naming_of(cv)
    if n1 == n2 == ["sanitize_class_name", "sanitize_module_name"]:
        rep.ok("R7.4", "class/module derivation emitter <-> APIClient", f"both derive names with {n1}", emit.loc())
    else:
        rep.violation("R7.4", "class/module derivation emitter <-> APIClient", f"naming-disagree|{n1}|{n2}",
                      f"tag client class/module names are derived differently: emitter {n1}, client visitor {n2}", emit.loc())

    _guarded(rep, rule_paths_unfiltered, repo, rep, "R7.12")
    _guarded(rep, rule_every_method_written, repo, rep, "R7.13")
    # ---------------------------------------------------------------- R7.5 no filter between grouping and emission
    def _has_call(n: ast.AST, attr: str) -> bool:
        return any(isinstance(c.func, ast.Attribute) and c.func.attr == attr for c in calls_in(n))

    loops = [n for n in own_nodes(emit.node) if isinstance(n, ast.For) and _has_call(n, "write_file") and _has_call(n, "visit")
             and not any(isinstance(x, ast.For) and x is not n and _has_call(x, "write_file") for x in ast.walk(n))]
    rep.require(len(loops) == 1, f"R7.5: expected one emission loop (visit + write_file per tag) in EndpointsEmitter.emit, found {len(loops)}")
    for lp in loops:
        skips = [n for n in ast.walk(lp) if isinstance(n, (ast.Continue, ast.Break))]
        # every operation of the tag is visited: comprehension without filter, or an inner loop whose body is unconditional
        comps = [n for n in ast.walk(lp) if isinstance(n, (ast.ListComp, ast.GeneratorExp)) and any(
            isinstance(c, ast.Call) and isinstance(c.func, ast.Attribute) and c.func.attr == "visit" for c in ast.walk(n.elt))]
        filt = [c for c in comps if any(g.ifs for g in c.generators)]
        vloops = [n for n in ast.walk(lp) if isinstance(n, ast.For) and n is not lp and _has_call(n, "visit")]
        vcond = [x for v in vloops for x in ast.walk(v) if isinstance(x, ast.If)]
        writes = [st for st in lp.body if _has_call(st, "write_file") and not isinstance(st, (ast.If, ast.For, ast.While, ast.Try))]
        appends = [st for st in lp.body if isinstance(st, ast.Expr) and _has_call(st, "append")]
        sub = f"{emit.module.relpath}:EndpointsEmitter.emit emission loop"
        cond_nodes = [n for n in lp.body if isinstance(n, ast.If) and not (len(n.body) == 1 and isinstance(n.body[0], ast.Raise))]
        if not skips and (comps or vloops) and not filt and not vcond and writes and appends and not cond_nodes:
            rep.ok("R7.5", sub, "every operation of every tag key is visited; each key writes its module and registers its class unconditionally", emit.loc(lp))
        else:
            rep.violation("R7.5", sub, f"{emit.fq}|emission-filter|skips={len(skips)}|filtered={len(filt) + len(vcond)}|cond={len(cond_nodes)}|write={bool(writes)}|register={bool(appends)}",
                          "the emission loop can skip an operation or a tag (continue/break, filtered comprehension or conditional write)", emit.loc(lp))
    # the grouping loop adds every (op, tag) pair
    for gl in group_loops:
        inner = [n for n in ast.walk(gl) if isinstance(n, ast.For) and n is not gl]
        def _init_only(n: ast.AST) -> bool:
            """`if k not in d: d[k] = []` - creates the bucket, drops nothing"""
            return isinstance(n, ast.If) and not n.orelse and isinstance(n.test, ast.Compare) and isinstance(n.test.ops[0], ast.NotIn) and all(
                isinstance(b, ast.Assign) and isinstance(b.targets[0], ast.Subscript) and isinstance(b.value, (ast.List, ast.Dict, ast.Call)) for b in n.body)

        conds = [n for n in ast.walk(gl) if isinstance(n, (ast.If, ast.Continue, ast.Break)) and not _init_only(n)]
        sub = f"{emit.module.relpath}:EndpointsEmitter.emit grouping loop"
        if inner and not conds:
            rep.ok("R7.5", sub, "every (operation, tag) pair is added without conditions", emit.loc(gl))
        else:
            rep.violation("R7.5", sub, f"{emit.fq}|grouping-filter", "the grouping loop drops (operation, tag) pairs conditionally", emit.loc(gl))
    # APIClient: one property per tag tuple, no filter
    impl = repo.func("visit.client_visitor:ClientVisitor._generate_client_implementation")
    prop_loops = [n for n in own_nodes(impl.node) if isinstance(n, ast.For) and any(
        isinstance(c.func, ast.Attribute) and c.func.attr == "write_line" and c.args and "@property" in norm(c.args[0]) for c in calls_in(n))]
    if prop_loops and not any(isinstance(x, (ast.Continue, ast.Break)) for x in ast.walk(prop_loops[0])):
        rep.ok("R7.5", f"{impl.module.relpath}:APIClient tag properties", "one @property per tag tuple, unconditionally", impl.loc(prop_loops[0]))
    else:
        rep.violation("R7.5", f"{impl.module.relpath}:APIClient tag properties", f"{impl.fq}|property-loop", "APIClient does not expose every tag client", impl.loc())


def _ancestors(n: ast.AST):
    p = parent(n)
    while p is not None:
        yield p
        p = parent(p)


class _Relabel:
    """Adapter: re-issue another rule's instances under this property's rule id."""

    def __init__(self, rep: Report, rule: str):
        self.rep, self.rule = rep, rule

    def ok(self, rule, *a, **k):
        self.rep.ok(self.rule, *a, **k)

    def violation(self, rule, *a, **k):
        self.rep.violation(self.rule, *a, **k)

    def require(self, *a, **k):
        self.rep.require(*a, **k)

    def error(self, *a, **k):
        self.rep.error(*a, **k)


# ------------------------------------------------------------------------------------------------ R7.9 case agreement of the CLEAN suffix test
def rule_case_agreement(repo: Repo, rep, rule: str = "R7.9") -> None:
    """`clean_auto_generated_operation_id` recognises FastAPI ids by comparing the *lower-cased* id against a suffix derived from the path.
    The suffix must be case-folded as well: its string shape (computed from an arbitrary path) may not contain upper-case letters -
    otherwise ids on paths with a camelCase segment are silently left uncleaned under the CLEAN strategy."""
    from sa.strshape import Interp, Unsupported
    from sa.match import Locals as _L, clone

    ns = repo.module("core.utils").classes.get("NameSanitizer")
    fn = ns.methods.get("clean_auto_generated_operation_id") if ns is not None else None
    if fn is None:
        raise AnalysisError("anchor vanished: NameSanitizer.clean_auto_generated_operation_id")
    umod = repo.module("core.utils")
    # a thin alias (`return _clean(...)`) is followed to the module-level function that does the work
    for _ in range(2):
        body0 = [s_ for s_ in fn.node.body if not (isinstance(s_, ast.Expr) and isinstance(s_.value, ast.Constant))]  # type: ignore[attr-defined]
        if len(body0) == 1 and isinstance(body0[0], ast.Return) and isinstance(body0[0].value, ast.Call) and isinstance(body0[0].value.func, ast.Name) \
                and body0[0].value.func.id in umod.functions:
            fn = umod.functions[body0[0].value.func.id]
            continue
        break
    # one-parameter string helpers of the module are summarised by the shape they return for an arbitrary argument
    summaries = {}
    for q, hf in umod.functions.items():
        if "." in q or hf is fn or len(hf.params) != 1:
            continue
        try:
            hi = Interp(hf.node, hf.params[0])
            hi.run()
            if hi.returns:
                shape = hi.returns[0][0]
                for v, _, _ in hi.returns[1:]:
                    shape = shape.join(v)
                summaries[q] = (lambda _arg, _shape=shape: _shape)
        except Exception:  # noqa: BLE001 - a helper the interpreter does not model is simply not summarised
            pass
    L = _L(fn.node)
    sites = []
    for c in calls_in(fn.node):
        if isinstance(c.func, ast.Attribute) and c.func.attr in ("endswith", "startswith") and len(c.args) == 1:
            recv = L.inline(c.func.value, stop=tuple(L.params))
            if isinstance(recv, ast.Call) and isinstance(recv.func, ast.Attribute) and recv.func.attr in ("lower", "casefold"):
                sites.append((c, c.args[0]))
    rep.count(f"{rule}:folded_comparisons", len(sites))
    rep.require(len(sites) >= 1, f"{rule}: no comparison of a lower-cased id against a derived suffix found in clean_auto_generated_operation_id (anchor)")
    top = list(fn.node.body)  # type: ignore[attr-defined]
    for c, other in sites:
        # backward slice over the top-level assignments the compared value depends on
        need = {x.id for x in ast.walk(other) if isinstance(x, ast.Name)}
        keep: List[ast.stmt] = []
        for st in reversed(top):
            if isinstance(st, (ast.Assign, ast.AnnAssign)) and st.value is not None:
                tg = st.targets[0] if isinstance(st, ast.Assign) else st.target
                if isinstance(tg, ast.Name) and tg.id in need:
                    keep.append(st)
                    need |= {x.id for x in ast.walk(st.value) if isinstance(x, ast.Name)}
        keep.reverse()
        params = [p for p in fn.params if p in need]
        sub = f"core/utils.py:NameSanitizer.clean_auto_generated_operation_id `{norm(c)[:60]}`"
        if len(params) != 1:
            rep.error(f"{rule}: cannot evaluate the compared suffix `{norm(other)[:40]}` (it depends on parameters {params})")
            continue
        synth = ast.FunctionDef(name="_slice", args=ast.arguments(posonlyargs=[], args=[ast.arg(arg=params[0])], kwonlyargs=[], kw_defaults=[], defaults=[]),
                                body=[clone(s) for s in keep] + [ast.Return(value=clone(other))], decorator_list=[], type_params=[])
        ast.fix_missing_locations(synth)
        it = Interp(synth, params[0], consts=dict(summaries))
        try:
            it.run()
        except Unsupported as e:
            rep.error(f"{rule}: cannot evaluate the compared suffix: the string-shape interpreter does not model {e}")
            continue
        chars = set()
        for v, _, _ in it.returns:
            chars |= set(v.chars)
        if "U" in chars:
            rep.violation(rule, sub, f"{fn.fq}|case-disagreement|suffix-keeps-uppercase",
                          f"the id is lower-cased before the test but the value it is compared with (`{norm(other)[:40]}`, derived from `{params[0]}`) can contain upper-case "
                          "letters: for `/userProfiles` the suffix `_userProfiles` never matches `..._userprofiles` and the operation keeps its long auto-generated name", fn.loc(c))
        else:
            rep.ok(rule, sub, f"both sides are case-folded (characters that can occur in the derived suffix: {sorted(chars)})", fn.loc(c))


# ------------------------------------------------------------------------------------------------ R7.8 every HTTP method key reaches the parser
def rule_method_filter_total(repo: Repo, rep, rule: str = "R7.8") -> None:
    """The path-item loop of parse_operations skips keys that are not operations.  Every member of `HTTPMethod` (the methods the IR can
    represent, `trace` included) must pass every skip test on the way to `HTTPMethod[<key>]`: the tests are evaluated for each member
    name by a small evaluator over string sets (constants, set displays, module-level set constants, `HTTPMethod.__members__`,
    `.lower()/.upper()`, `in / not in`, `and / or / not`)."""
    from sa.cfg import CFG, guards
    from sa.match import Locals as _L

    po = repo.func("core.loader.operations.parser:parse_operations")
    enum_cls = None
    for m in repo.modules.values():
        if "HTTPMethod" in m.classes:
            enum_cls = m.classes["HTTPMethod"]
    if enum_cls is None:
        raise AnalysisError("anchor vanished: enum HTTPMethod")
    members = [t.id for st in enum_cls.node.body if isinstance(st, ast.Assign) for t in st.targets if isinstance(t, ast.Name)]
    rep.require(len(members) >= 7, f"{rule}: only {len(members)} HTTPMethod members found (floor 7)")
    if not any(isinstance(x, ast.Subscript) and dotted(x.value) == "HTTPMethod" for x in ast.walk(po.node)):
        from sa.flatten import flatten as _fl78

        po = _fl78(po)
    L = _L(po.node)
    cfg = CFG(po.node)
    dom = cfg.dominators()
    uses = [n for n in cfg.nodes if n.kind == "stmt" and n.ast is not None and not n.copy and any(
        isinstance(x, ast.Subscript) and dotted(x.value) == "HTTPMethod" for x in ast.walk(n.ast))]
    rep.require(len(uses) >= 1, f"{rule}: no `HTTPMethod[<key>]` lookup found in parse_operations (anchor)")
    if not uses:
        return
    use = uses[0]
    sub_e = next(x for x in ast.walk(use.ast) if isinstance(x, ast.Subscript) and dotted(x.value) == "HTTPMethod")
    key_e = L.inline(sub_e.slice)
    roots = [x.id for x in ast.walk(key_e) if isinstance(x, ast.Name) and any(k.startswith("for") for k, _, _ in L.defs.get(x.id, []))]
    if len(roots) != 1:
        rep.error(f"{rule}: cannot identify the loop variable the method key `{norm(sub_e.slice)}` derives from")
        return
    var = roots[0]
    mod_consts = {}
    for st in po.module.tree.body:
        if isinstance(st, (ast.Assign, ast.AnnAssign)) and st.value is not None:
            tg = st.targets[0] if isinstance(st, ast.Assign) else st.target
            if isinstance(tg, ast.Name):
                mod_consts[tg.id] = st.value

    class _Cannot(Exception):
        pass

    def ev(e: ast.AST, val: str):
        if isinstance(e, ast.Constant):
            return e.value
        if isinstance(e, ast.Name):
            if e.id == var:
                return val
            ds = L.defs.get(e.id, [])
            if len(ds) == 1 and ds[0][1] is not None and ds[0][0] == "assign":
                return ev(ds[0][1], val)
            if e.id in mod_consts:
                return ev(mod_consts[e.id], val)
            raise _Cannot(norm(e))
        if isinstance(e, (ast.Set, ast.List, ast.Tuple)):
            return {ev(x, val) for x in e.elts}
        if isinstance(e, ast.Call) and isinstance(e.func, ast.Name) and e.func.id in ("frozenset", "set", "tuple", "list") and len(e.args) == 1:
            return set(ev(e.args[0], val))
        if isinstance(e, ast.Call) and isinstance(e.func, ast.Attribute) and e.func.attr in ("lower", "upper", "strip", "casefold") and not e.args:
            r = ev(e.func.value, val)
            return getattr(r, e.func.attr if e.func.attr != "casefold" else "lower")() if isinstance(r, str) else r
        if isinstance(e, ast.Attribute) and e.attr == "__members__" and dotted(e.value) == "HTTPMethod":
            return set(members)
        if isinstance(e, ast.UnaryOp) and isinstance(e.op, ast.Not):
            return not ev(e.operand, val)
        if isinstance(e, ast.BoolOp):
            vals = [ev(v, val) for v in e.values]
            return all(vals) if isinstance(e.op, ast.And) else any(vals)
        if isinstance(e, ast.Compare) and len(e.ops) == 1:
            a, b = ev(e.left, val), ev(e.comparators[0], val)
            op = e.ops[0]
            if isinstance(op, ast.In):
                return a in b
            if isinstance(op, ast.NotIn):
                return a not in b
            if isinstance(op, ast.Eq):
                return a == b
            if isinstance(op, ast.NotEq):
                return a != b
        if isinstance(e, ast.Call) and isinstance(e.func, ast.Attribute) and e.func.attr == "startswith" and len(e.args) == 1:
            return str(ev(e.func.value, val)).startswith(str(ev(e.args[0], val)))
        raise _Cannot(norm(e)[:60])

    gs = [(g, pol) for g, pol in guards(cfg, use.id, dom) if g.kind == "test" and pol is not None and any(
        isinstance(x, ast.Name) and (x.id == var or var in {y.id for y in ast.walk(L.inline(x)) if isinstance(y, ast.Name)}) for x in ast.walk(g.ast))]
    rep.count(f"{rule}:filter_tests", [norm(g.ast)[:60] for g, _ in gs])
    # a skip inside the key loop that does not look at the key looks at the value: `if not <operation object>: continue` drops `get: {}` (an
    # operation without any field is a valid OpenAPI 3.1 operation - a health probe, a CORS `options: {}`)
    loop = next((x for x in ast.walk(po.node) if isinstance(x, (ast.For, ast.AsyncFor)) and any(isinstance(t, ast.Name) and t.id == var for t in ast.walk(x.target))), None)
    if loop is not None:
        inner = {id(x) for x in ast.walk(loop)}
        val_vars = {t.id for t in ast.walk(loop.target) if isinstance(t, ast.Name)} - {var}
        for g, pol in guards(cfg, use.id, dom):
            if g.kind != "test" or pol is None or g.ast is None or id(g.ast) not in inner or (g, pol) in gs:
                continue
            names = {x.id for x in ast.walk(L.inline(g.ast)) if isinstance(x, ast.Name)} | {x.id for x in ast.walk(g.ast) if isinstance(x, ast.Name)}
            if names & val_vars:
                rep.violation(rule, f"{po.module.relpath}:parse_operations skip on the operation object", f"{po.fq}|operation-skipped-by-its-value",
                              f"`{norm(g.ast)[:60]}` decides whether the operation under a recognised HTTP method key is parsed at all: an operation whose object is empty / falsy "
                              "(`get: {}`) is dropped without warning or error, its method is missing on the tag client", po.loc(g.ast))
    rep.require(len(gs) >= 1, f"{rule}: no skip test on the path-item key dominates the HTTPMethod lookup (anchor)")
    dropped = {}
    for mname in members:
        key = mname.lower()
        for g, pol in gs:
            try:
                r = bool(ev(g.ast, key))
            except _Cannot as e:
                rep.error(f"{rule}: cannot evaluate the skip test `{norm(g.ast)[:60]}` ({e})")
                return
            if r != pol:
                dropped.setdefault(key, norm(g.ast)[:70])
    sub = f"{po.module.relpath}:parse_operations path-item key filter"
    if dropped:
        rep.violation(rule, sub, f"{po.fq}|method-filter-drops|{sorted(dropped)}",
                      f"the operation under the path-item field(s) {sorted(dropped)} never reaches the parser (`{list(dropped.values())[0]}`): it is skipped without warning "
                      "or error, its method is missing on the tag client and a tag used only by such operations loses its module", po.loc(use.ast))
    else:
        rep.ok(rule, sub, f"all {len(members)} HTTPMethod members ({', '.join(x.lower() for x in members)}) pass the {len(gs)} skip test(s)", po.loc(use.ast))


# ------------------------------------------------------------------------------------------------ R7.12 every entry of `paths` reaches the operations parser
_R712_EXAMPLE = '''
class SpecLoader:
    def __init__(self, spec):
        self.paths = {p: item for p, item in spec["paths"].items() if isinstance(p, str) and p.startswith("/")}
'''
PATH_KEYS = ["/pets", "/pets/{petId}", "pets/{petId}", "{id}", "v1/items", "x-internal", "x-", ""]


def _paths_filters(tree: ast.AST):
    """[(comprehension / filter node, rejected keys)] for every filtered copy of the document's `paths` mapping that leaves out a key that is
    not a specification extension (`x-...`): the filter condition is evaluated for each key of PATH_KEYS."""
    from sa.feval import Unknown, evaluate

    out, n, unknown = [], 0, []
    for c in ast.walk(tree):
        if not isinstance(c, (ast.DictComp, ast.ListComp, ast.GeneratorExp)):
            continue
        for g in c.generators:
            src = norm(g.iter)
            if "paths" not in src or not g.ifs:
                continue
            n += 1
            kv = g.target.elts[0] if isinstance(g.target, ast.Tuple) and g.target.elts else g.target
            if not isinstance(kv, ast.Name):
                unknown.append(c)
                continue
            rejected = []
            try:
                for k in PATH_KEYS:
                    if not all(bool(evaluate(t, {kv.id: k})) for t in g.ifs):
                        rejected.append(k)
            except Unknown:
                unknown.append(c)
                continue
            bad = [k for k in rejected if not k.startswith("x-")]
            if bad:
                out.append((c, bad))
    return out, n, unknown


def rule_paths_unfiltered(repo: Repo, rep, rule: str = "R7.12") -> None:
    """parse_operations turns every key of the Paths Object into operations.  Whatever is taken out of that mapping before it gets there is
    gone without a trace: only specification extensions (`x-...`) may be left out."""
    hz, n, unk = _paths_filters(ast.parse(_R712_EXAMPLE))
    rep.require(len(hz) == 1 and "pets/{petId}" in hz[0][1] and "x-internal" not in hz[0][1], f"{rule}: the built-in positive example is no longer recognised - the rule is broken")
    lm = repo.module("core.loader.loader")
    calls = [c for c in ast.walk(lm.tree) if isinstance(c, ast.Call) and (dotted(c.func) or "").split(".")[-1] == "parse_operations"]
    rep.require(len(calls) >= 1, f"{rule}: the call of parse_operations in the loader was not found (anchor)")
    sub = f"{lm.relpath} the Paths Object handed to parse_operations"
    po = repo.module("core.loader.operations.parser")
    total = 0
    found = False
    for mod in (lm, po):
        hz, n, unk = _paths_filters(mod.tree)
        total += n
        for c in unk:
            rep.error(f"{rule}: cannot evaluate the filter `{norm(c)[:70]}` over the `paths` mapping in {mod.relpath}")
        for c, bad in hz:
            found = True
            rep.violation(rule, sub, f"{mod.name}|paths-filtered|{','.join(bad)[:60]}",
                          f"`{norm(c)[:80]}` leaves out path keys that are not `x-` extensions ({bad}): the operations declared under them are never parsed and disappear "
                          "from every tag client without an error", f"{mod.relpath}:{c.lineno}")
    if not found:
        rep.ok(rule, sub, f"{total} filtered view(s) of `paths`: none leaves out a key other than an `x-` extension", f"{lm.relpath}:{calls[0].lineno if calls else 1}")


# ------------------------------------------------------------------------------------------------ R7.13 every rendered method is written into the tag client
def rule_every_method_written(repo: Repo, rep, rule: str = "R7.13") -> None:
    """EndpointsEmitter renders one method per operation of a tag and hands the list to the visitor, which writes the client class.  The class
    has every operation only if the list arrives and is written whole: it is not re-bound (de-duplicated, filtered, sliced) on the way and
    the writing loop has no skip."""
    ev = repo.module("visit.endpoint.endpoint_visitor")
    cls = ev.classes.get("EndpointVisitor")
    impl = cls.methods.get("_generate_endpoint_implementation") if cls else None
    outer = cls.methods.get("emit_endpoint_client_class") if cls else None
    if impl is None or outer is None:
        raise AnalysisError(f"{rule}: EndpointVisitor.emit_endpoint_client_class / _generate_endpoint_implementation not found (anchor)")
    from sa.flatten import flatten

    fn = flatten(outer, select=lambda h: h.name == impl.name)
    if not any(isinstance(c.func, ast.Attribute) and c.func.attr == "write_block" for c in calls_in(fn.node)):
        fn = impl
    p = next((a for a in fn.params if "method" in a and "code" in a), None)
    if p is None:
        raise AnalysisError(f"{rule}: the parameter carrying the rendered methods was not identified (anchor)")
    L = Locals(fn.node)
    sub = f"{ev.relpath}:EndpointVisitor writes every rendered method of the tag"
    loops = []
    for lp in own_nodes(fn.node):
        if not isinstance(lp, ast.For):
            continue
        lvs = {x.id for x in ast.walk(lp.target) if isinstance(x, ast.Name)}
        wb = [c for c in calls_in(lp) if isinstance(c.func, ast.Attribute) and c.func.attr in ("write_block", "write_line") and c.args and isinstance(c.args[0], ast.Name) and c.args[0].id in lvs]
        if wb:
            loops.append((lp, wb))
    if not loops:
        raise AnalysisError(f"{rule}: no loop writing the rendered methods (`write_block(<method>)`) found (anchor)")
    lp, wb = loops[0]
    it = lp.iter
    if isinstance(it, ast.Call) and isinstance(it.func, ast.Name) and it.func.id == "enumerate" and it.args:
        it = it.args[0]
    problems = []
    if not (isinstance(it, ast.Name) and it.id == p):
        # the iterated list is a local: it must be a plain copy of the parameter
        src = L.inline(it, stop=tuple(L.params))
        if not (isinstance(src, ast.Name) and src.id == p) and not (isinstance(src, ast.Call) and isinstance(src.func, ast.Name) and src.func.id in ("list", "tuple") and len(src.args) == 1
                                                                     and isinstance(src.args[0], ast.Name) and src.args[0].id == p):
            defs = [v for _, v, _ in L.defs.get(it.id, []) if v is not None] if isinstance(it, ast.Name) else []
            culprit = next((v for v in defs if not (isinstance(v, ast.Name) and v.id == p)), None)
            problems.append((culprit if culprit is not None else lp, f"the loop iterates `{norm(culprit if culprit is not None else lp.iter)[:70]}`, not the list of rendered methods as it was passed in"))
    rebinds = [st for st in own_nodes(fn.node) if isinstance(st, (ast.Assign, ast.AugAssign, ast.AnnAssign)) and any(
        isinstance(t, ast.Name) and t.id == p for t in (st.targets if isinstance(st, ast.Assign) else [st.target]))]
    for st in rebinds:
        problems.append((st, f"`{norm(st)[:70]}` replaces the list of rendered methods before it is written"))
    muts = [c for c in calls_in(fn.node) if isinstance(c.func, ast.Attribute) and isinstance(c.func.value, ast.Name) and c.func.value.id == p and c.func.attr in ("remove", "pop", "clear")]
    for c in muts:
        problems.append((c, f"`{norm(c)[:60]}` removes rendered methods from the list"))
    from sa.model import parent as _par

    # every iteration writes its element: each way from the loop head back to it (or out of the loop) passes the write
    cfg = CFG(fn.node)
    heads = [n for n in cfg.nodes if n.kind == "iter" and n.stmt is lp]
    wnodes = {n.id for n in cfg.nodes if n.kind == "stmt" and n.ast is not None and not n.copy and any(c2 is c for c in wb for c2 in calls_in(n.ast))}
    if not heads or not wnodes:
        raise AnalysisError(f"{rule}: CFG nodes of the writing loop not found (anchor)")
    h = heads[0]
    for m, lab in cfg.succ[h.id]:
        if lab == "done":
            continue
        wpath = cfg.must_pass(m, wnodes, {h.id, cfg.exit}) if m not in wnodes else None
        if wpath is not None:
            problems.append((cfg.nodes[wpath[-1]].ast or lp, f"an iteration can end without writing its method ({cfg.describe_path(wpath)[:100]})"))
    for x in ast.walk(lp):
        if isinstance(x, ast.Break):
            q = _par(x)
            while q is not None and not isinstance(q, (ast.For, ast.AsyncFor, ast.While)):
                q = _par(q)
            if q is lp:
                problems.append((x, "the writing loop can stop before the last method"))
    if problems:
        node, why = problems[0]
        rep.violation(rule, sub, f"{ev.name}:EndpointVisitor|methods-not-written-whole|{len(problems)}",
                      f"{why}: operations rendered for the tag are missing from the client class (the class still inherits the Protocol's `...` stubs, so the call "
                      "exists, awaits and returns None without sending a request)", fn.loc(node))
    else:
        rep.ok(rule, sub, f"`{p}` is written element by element, unconditionally, and is never re-bound or shortened", fn.loc(lp))


_R716_EXAMPLE = '''
def parse_operations(paths, context):
    for path, entry in paths.items():
        siblings = {k: v for k, v in entry.items() if k != "$ref"}
        while "$ref" in entry:
            target = context.components.get(entry["$ref"])
            entry = {**target, **siblings}
'''


def _r716_stale_merges(fn_node: ast.AST) -> tuple[int, list[tuple[str, ast.AST]]]:
    """(reference-following loops, [(name, merge)]): in a loop that follows `$ref` hop by hop, a mapping spread over each hop's target that was
    computed before the loop."""
    loops = [w for w in ast.walk(fn_node) if isinstance(w, ast.While) and any(const_str(c) == "$ref" for c in ast.walk(w.test))]
    bad: list[tuple[str, ast.AST]] = []
    for w in loops:
        tested = {x.id for x in ast.walk(w.test) if isinstance(x, ast.Name)}
        inside = {t.id for st in ast.walk(w) if isinstance(st, (ast.Assign, ast.AnnAssign)) for t in (st.targets if isinstance(st, ast.Assign) else [st.target]) if isinstance(t, ast.Name)}
        for st in ast.walk(w):
            if isinstance(st, ast.Assign) and any(isinstance(t, ast.Name) and t.id in tested for t in st.targets) and isinstance(st.value, ast.Dict):
                for k, v in zip(st.value.keys, st.value.values):
                    if k is None and isinstance(v, ast.Name) and v.id not in inside and v.id not in tested:
                        bad.append((v.id, st))
    return len(loops), bad


def rule_ref_chain_keeps_every_hop(repo: Repo, rep, rule: str = "R7.16") -> None:
    """Where `parse_operations` follows a chain of Path Item references, what is laid over each hop's target are the fields that stand next to
    *that* hop's `$ref`.  A `siblings` mapping computed once from the `paths` entry and re-applied in the loop drops the operations an
    intermediate Path Item declares beside its own reference - accepted document, methods missing from the client."""
    n, bad = _r716_stale_merges(ast.parse(_R716_EXAMPLE).body[0])
    rep.require(n == 1 and len(bad) == 1, f"{rule}: the built-in positive example is no longer recognised - the rule is broken")
    mod = repo.module("core.loader.operations.parser")
    fn = mod.functions.get("parse_operations")
    if fn is None:
        raise AnalysisError(f"{rule}: anchor vanished: parse_operations")
    total = 0
    hits = []
    for q, f in sorted(mod.functions.items()):
        k, bad = _r716_stale_merges(f.node)
        total += k
        hits += [(q, f, nm, st) for nm, st in bad]
    rep.count(f"{rule}:ref_following_loops", total)
    for q, f, nm, st in hits:
        rep.violation(rule, f"{mod.relpath}:{q} merge in the reference-following loop", f"{mod.name}:{q}|stale-siblings-over-ref-chain|{nm}",
                      f"`{norm(st)[:70]}`: `{nm}` is computed before the loop, so every hop is overlaid with the fields of the first one and the operations an "
                      "intermediate Path Item declares next to its own `$ref` are dropped silently", f.loc(st))
    if not hits:
        rep.ok(rule, f"{mod.relpath}: no reference chain is followed with fields computed outside the loop",
               f"{total} reference-following loops (a single hop is resolved or rejected: R7.15)", f"{mod.relpath}:1")
