"""Writer / reader agreement on the keys of the schema registry (`ParsingContext.parsed_schemas`).

_parse_schema registers a finished schema under a key *derived* from its name (the sanitised class name).  `$ref` resolution and
build_schemas know the schema only by its *raw* declared name.  Looking the raw name up directly misses every schema whose sanitised
name differs from its raw name (`user_profile` -> `UserProfile`): the schema is then parsed a second time, the copy is registered under
the raw name, the client gets a duplicate model (`UserProfile2`) - and which of the two copies a reference binds to depends on the order
of `components.schemas`.  Whenever the registration key can differ from the raw name, the writer must record `raw name -> key` in an
index of the context, and every by-raw-name reader of the registry (`_resolve_ref`, build_schemas) must go through that index."""
from __future__ import annotations

import ast
from typing import List, Optional, Set

from sa.match import Locals
from sa.model import AnalysisError, Repo, calls_in, dotted, norm, own_nodes

SP = "core.parsing.schema_parser"


def _registrations(fn_node: ast.AST) -> List[ast.Assign]:
    return [n for n in own_nodes(fn_node) if isinstance(n, ast.Assign) and isinstance(n.targets[0], ast.Subscript)
            and isinstance(n.targets[0].value, ast.Attribute) and n.targets[0].value.attr == "parsed_schemas"]


def rule_raw_name_index(repo: Repo, rep, rule: str) -> None:
    ps = repo.func(f"{SP}:_parse_schema")
    from sa.flatten import flatten

    fn = ps
    regs = [r for r in _registrations(fn.node) if isinstance(r.targets[0].slice, ast.Name)]
    if not regs:
        fn = flatten(ps)
        regs = [r for r in _registrations(fn.node) if isinstance(r.targets[0].slice, ast.Name)]
    if not regs:
        raise AnalysisError(f"{rule}: no `context.parsed_schemas[<key>] = <ir>` in _parse_schema (anchor)")
    L = Locals(fn.node)
    name_param = ps.params[0] if ps.params else "schema_name"
    # the main registration: the one whose key can be something else than the raw name
    derived = []
    for r in regs:
        key = r.targets[0].slice
        defs = [v for k, v, _ in L.defs.get(key.id, []) if v is not None]
        if L.root(key.id) != name_param and any(not (isinstance(v, ast.Name) and L.root(v.id) == name_param) for v in defs):
            derived.append((r, key.id))
    sub_w = f"{ps.module.relpath}:_parse_schema records the key a raw name is registered under"
    if not derived:
        rep.ok(rule, sub_w, "every registration key is the raw declared name: readers may look the raw name up directly", ps.loc(regs[0]))
        return
    # writer side: `context.<index>[<raw name>] = <key>` next to the registration
    index_attrs: Set[str] = set()
    for r, keyname in derived:
        for st in own_nodes(fn.node):
            if isinstance(st, ast.Assign) and isinstance(st.targets[0], ast.Subscript) and isinstance(st.targets[0].value, ast.Attribute) \
                    and st.targets[0].value.attr != "parsed_schemas" and isinstance(st.targets[0].slice, ast.Name) and L.root(st.targets[0].slice.id) == name_param \
                    and isinstance(st.value, ast.Name) and st.value.id == keyname:
                index_attrs.add(st.targets[0].value.attr)
    if not index_attrs:
        r0 = derived[0][0]
        rep.violation(rule, sub_w, f"{ps.fq}|derived-key-without-raw-name-index",
                      f"`{norm(r0)[:70]}` registers the schema under a key derived from its name, and nothing records which key belongs to the raw name: "
                      "a `$ref` to a schema whose sanitised name differs from its declared name (`user_profile` -> `UserProfile`) does not find it, parses it again and "
                      "the model is emitted twice (`UserProfile`, `UserProfile2`); which copy a property refers to depends on the order of components.schemas", ps.loc(r0))
        return
    rep.ok(rule, sub_w, f"`context.{sorted(index_attrs)[0]}[<raw name>] = <key>` is written with the registration", ps.loc(derived[0][0]))
    # reader side
    readers = [(repo.func(f"{SP}:_resolve_ref"), "the reference name"), (repo.func("core.loader.schemas.extractor:build_schemas"), "the declared name")]
    for rf, what in readers:
        RL = Locals(rf.node)
        lookups = []
        for n in own_nodes(rf.node):
            key = None
            if isinstance(n, ast.Compare) and len(n.ops) == 1 and isinstance(n.ops[0], (ast.In, ast.NotIn)) and isinstance(n.comparators[0], ast.Attribute) \
                    and n.comparators[0].attr == "parsed_schemas":
                key = n.left
            elif isinstance(n, ast.Subscript) and isinstance(n.ctx, ast.Load) and isinstance(n.value, ast.Attribute) and n.value.attr == "parsed_schemas":
                key = n.slice
            if key is not None:
                lookups.append((n, key))
        if not lookups:
            raise AnalysisError(f"{rule}: {rf.qualname} no longer looks names up in parsed_schemas (anchor)")
        # a post-condition / assertion (`if <not found>: raise`) is not a resolution
        def asserts_only(n: ast.AST) -> bool:
            from sa.model import parent

            p = parent(n)
            while isinstance(p, (ast.BoolOp, ast.UnaryOp)):
                p = parent(p)
            return isinstance(p, ast.If) and len(p.body) == 1 and isinstance(p.body[0], ast.Raise) and not p.orelse

        lookups = [(n, k) for n, k in lookups if not asserts_only(n)]
        sub_r = f"{rf.module.relpath}:{rf.qualname} finds a schema by {what}"
        uses_index = any(isinstance(x, ast.Attribute) and x.attr in index_attrs for x in ast.walk(rf.node))
        via_index = []
        for n, k in lookups:
            ki = RL.inline(k, stop=tuple(RL.params))
            via_index.append(any(isinstance(x, ast.Attribute) and x.attr in index_attrs for x in ast.walk(ki)))
        # build_schemas style: `if n not in parsed_schemas and n not in <index>` - the index test accompanies the raw lookup
        accompanied = []
        for n, k in lookups:
            from sa.model import parent

            p = parent(n)
            accompanied.append(isinstance(p, ast.BoolOp) and any(isinstance(x, ast.Attribute) and x.attr in index_attrs for x in ast.walk(p)))
        if lookups and all(a or b for a, b in zip(via_index, accompanied)):
            rep.ok(rule, sub_r, f"every registry lookup goes through `{sorted(index_attrs)[0]}` (or is accompanied by a test of it)", rf.loc(lookups[0][0]))
        elif not lookups and uses_index:
            rep.ok(rule, sub_r, "looks names up through the raw-name index only", rf.loc())
        else:
            bad = next(n for (n, k), a, b in zip(lookups, via_index, accompanied) if not (a or b))
            rep.violation(rule, sub_r, f"{rf.fq}|raw-lookup-bypasses-index",
                          f"`{norm(bad)[:60]}` looks the raw name up although schemas are registered under a derived key (index `{sorted(index_attrs)[0]}` is not consulted): "
                          "the schema is not found, parsed a second time and emitted twice; the binding of references depends on declaration order", rf.loc(bad))
