"""C09 - generation is deterministic; re-running on unchanged input is a no-op.

R9.1  unordered iteration (set / frozenset / dict-of-set containers / list(set)) never reaches output: every
      iteration is wrapped in sorted(...) / consumed order-insensitively, or its body is order-insensitive
R9.2  ambient values (id(), hash(), clocks, random, uuid, cwd, environment, temp names) never reach file
      content or names: each source site is classified; id()-derived names need a guard-correlation proof
R9.3  process-global mutable state written on the generation path is enumerated
R9.4  the diff treats a file that would be generated but is missing from the existing tree as a difference
R9.15 a decision about the file being rendered compares its own directory, not "any ancestor is called models" (output independent of location)  [= R13.9]
R9.5  differences raise (every _show_diffs result feeds the raise)  [shared with C10/R10.5]
R9.8  compare-only generation compares every directory it would write: the client package always, the core for every
      layout in which it is not contained in the client package (guard evaluated by the path algebra of C11)  [= R10.6]
R9.6  compare-only generation sees the shared core's exception registry (seeded read-only from the real core)
R9.7  the two generation branches are siblings: same emitter sequence, each emit once; emit-time renaming of
      IR names is idempotent (records and re-tests the final name)
R9.12 an existing output package and force=False always select the compare-only branch (truth table of the mode switch)           [= R10.3]
R9.13 no function on the generation path that reads a file / directory / the environment / a URL is memoised per process (functools caches)
R9.14 every ruff sub-process runs `--isolated`: the formatter does not read the configuration of the directory the files happen to lie in
R9.11 the two operands of every relative-path computation in RenderContext are normalised the same way (both lexical or both symlink-resolved)
R9.10 compare-only generation creates the ancestor __init__.py files that direct generation creates (same package structure for the post-processor)
"""
from __future__ import annotations

import ast
from typing import Dict, List, Optional, Set, Tuple

from sa.cfg import CFG
from sa.model import AnalysisError, Function, Repo, calls_in, const_str, dotted, enclosing_stmt, norm, own_nodes, parent
from sa.match import Locals, names_in, truthiness
from sa.report import Report
from sa.resolve import Resolver
from sa.settypes import DICT_OF_SET, OTHER, SEQ_FROM_SET, SET, SetTypes

ORDER_INSENSITIVE_CONSUMERS = {"sorted", "set", "frozenset", "any", "all", "len", "sum", "min", "max", "Counter", "collections.Counter"}
LOG_PREFIXES = ("logger.", "logging.", "self.logger.", "log.")
LOG_CALLS = {"print", "self._log_progress", "warnings.warn"}
REGISTRATION_METHODS = {"add_import", "add_plain_import", "add_relative_import", "add_typing_import", "add_conditional_import",
                        "add_typing_imports_for_type", "mark_generated_module"}
SET_MUTATORS = {"add", "update", "discard", "remove", "difference_update", "intersection_update", "setdefault"}
RUNTIME_ONLY = {"pyopenapi_gen.core.http_transport", "pyopenapi_gen.core.exceptions", "pyopenapi_gen.core.streaming_helpers",
                "pyopenapi_gen.core.pagination", "pyopenapi_gen.core.cattrs_converter", "pyopenapi_gen.core.auth.base",
                "pyopenapi_gen.core.auth.plugins"}
ENV_ALLOWED = {"PYOPENAPI_MAX_DEPTH": "documented recursion limit option", "PYOPENAPI_MAX_CYCLES": "documented cycle limit option"}


def _is_log_call(c: ast.Call) -> bool:
    d = dotted(c.func) or ""
    return d in LOG_CALLS or d.startswith(LOG_PREFIXES)


def _stmt_order_insensitive(st: ast.stmt, loop_vars: Set[str]) -> Optional[str]:
    """None if the statement cannot make the iteration order observable; else the reason it can."""
    if isinstance(st, (ast.Pass, ast.Continue)):
        return None
    if isinstance(st, ast.Expr) and isinstance(st.value, ast.Constant):
        return None
    if isinstance(st, ast.Expr) and isinstance(st.value, ast.Call):
        c = st.value
        if _is_log_call(c):
            return None
        if isinstance(c.func, ast.Attribute) and c.func.attr in SET_MUTATORS | REGISTRATION_METHODS:
            return None
        return f"call `{norm(c)[:50]}` (not a set insertion / import registration / log)"
    if isinstance(st, ast.If):
        for b in (st.body, st.orelse):
            for s in b:
                r = _stmt_order_insensitive(s, loop_vars)
                if r:
                    return r
        return None
    if isinstance(st, ast.Assign):
        # per-iteration temporaries and set-typed containers keyed by the element are fine
        for t in st.targets:
            if isinstance(t, ast.Name):
                loop_vars.add(t.id)
                continue
            if isinstance(t, ast.Subscript) and isinstance(st.value, (ast.Call, ast.Set)) and dotted(getattr(st.value, "func", ast.Name(id=""))) in ("set", "frozenset", ""):
                continue  # d[k] = set()
            return f"assignment `{norm(st)[:50]}`"
        return None
    if isinstance(st, (ast.For, ast.AsyncFor, ast.While)):
        for s in st.body:
            r = _stmt_order_insensitive(s, loop_vars)
            if r and "`break`" not in r:  # break/continue of the inner loop do not leave the outer iteration
                return r
        return None
    if isinstance(st, ast.Break):
        return "`break` selects an arbitrary element"
    if isinstance(st, ast.Return):
        return "`return` inside the loop selects an arbitrary element"
    return f"statement `{norm(st)[:50]}`"


def run(repo: Repo, rep: Report, tier: str) -> None:
    from sa.report import guarded as _guarded

    live = [m for m in repo.import_closure(["generator.client_generator"]) if m not in RUNTIME_ONLY]
    res = Resolver(repo)
    st = SetTypes(repo, res)
    # R9.15: decisions about the file being rendered look at its own package directory, never at "some ancestor directory is called X"
    # (the same document would give other bytes below /x/models/ than below /x/work/)                                       [= R13.9]
    from rules.c13 import rule_self_import_compares_the_package

    _guarded(rep, rule_self_import_compares_the_package, repo, rep, "R9.15")

    # ---------------------------------------------------------------- R9.1
    n_iter = 0
    for mn in live:
        mod = repo.modules[mn]
        for fn in mod.functions.values():
            if "<locals>" in fn.qualname:
                continue
            for x in own_nodes(fn.node):
                sites: List[Tuple[ast.AST, ast.AST, str]] = []
                if isinstance(x, (ast.For, ast.AsyncFor)):
                    sites.append((x.iter, x, "for"))
                elif isinstance(x, (ast.ListComp, ast.SetComp, ast.DictComp, ast.GeneratorExp)):
                    for g in x.generators:
                        sites.append((g.iter, x, "comprehension"))
                elif isinstance(x, ast.Call) and isinstance(x.func, ast.Attribute) and x.func.attr == "join" and x.args:
                    sites.append((x.args[0], x, "join"))
                elif isinstance(x, ast.Call) and dotted(x.func) in ("list", "tuple", "enumerate", "next", "iter", "zip", "map", "filter", "reversed") and x.args:
                    for a in x.args:
                        sites.append((a, x, dotted(x.func) or "call"))
                elif isinstance(x, ast.Starred):
                    sites.append((x.value, x, "star"))
                for it, node, how in sites:
                    k = _unordered_kind(st, fn, it)
                    if k is None:
                        continue
                    n_iter += 1
                    sub = f"{mod.relpath}:{fn.qualname} {how} over `{norm(it)[:50]}` ({k})"
                    loc = fn.loc(it)
                    reason = _order_observable(node, how, fn)
                    if reason is None:
                        rep.ok("R9.1", sub, "order cannot be observed (sorted / order-insensitive consumer or body)", loc)
                    else:
                        rep.violation("R9.1", sub, f"{fn.fq}|unordered-iteration|{norm(it)[:60]}|{how}",
                                      f"iteration order of an unordered collection reaches generated output: {reason}. Set order depends on "
                                      "PYTHONHASHSEED, so two runs can emit different code", loc)
    # sorted(<unordered>, key=K): deterministic only if K cannot tie (ties keep the set's iteration order)
    n_keyed = 0
    for mn in live:
        mod = repo.modules[mn]
        for fn in mod.functions.values():
            if "<locals>" in fn.qualname:
                continue
            for x in own_nodes(fn.node):
                if not (isinstance(x, ast.Call) and dotted(x.func) == "sorted" and x.args):
                    continue
                key = next((k.value for k in x.keywords if k.arg == "key"), None)
                if key is None:
                    continue
                k = _unordered_kind(st, fn, x.args[0])
                if k is None:
                    continue
                n_keyed += 1
                sub = f"{mod.relpath}:{fn.qualname} `{norm(x)[:60]}` ({k})"
                why = _key_cannot_tie(key)
                if why:
                    rep.ok("R9.1", sub, f"sort key cannot tie: {why}", fn.loc(x))
                else:
                    rep.violation("R9.1", sub, f"{fn.fq}|sorted-key-can-tie|{norm(key)[:50]}",
                                  f"the elements of an unordered collection are sorted by `{norm(key)[:50]}`, which two different elements can share (e.g. a name that is a "
                                  "prefix of another one found at the same offset): ties keep the set's iteration order, which depends on PYTHONHASHSEED, so two runs "
                                  "can emit parameters in different order", fn.loc(x))
    rep.count("R9.1:keyed_sorts_of_unordered", n_keyed)
    rep.count("R9.1:unordered_iteration_sites", n_iter)
    rep.require(n_iter >= 8, f"R9.1: only {n_iter} iterations over unordered collections recognised (floor 8) - type inference lost the import collector?")
    ic = repo.cls("context.import_collector:ImportCollector")
    kinds = st.attr_kinds(ic)
    for attr, want in (("imports", DICT_OF_SET), ("relative_imports", DICT_OF_SET), ("plain_imports", SET)):
        rep.require(kinds.get(attr) == want, f"R9.1: ImportCollector.{attr} no longer recognised as {want} (got {kinds.get(attr)})")

    # ---------------------------------------------------------------- R9.2 ambient sources
    _ambient(repo, live, rep)

    # ---------------------------------------------------------------- R9.3 process-global mutable state
    _global_state(repo, live, rep, res)

    # ---------------------------------------------------------------- R9.4 / R9.5 diff completeness
    _guarded(rep, rule_show_diffs_model, repo, rep, "R9.4")
    _guarded(rep, rule_show_diffs_compares_all, repo, rep, "R9.4")

    # ---------------------------------------------------------------- R9.5 / R9.6 / R9.7 on generate()
    from rules import c10

    from rules.c10 import generation_function as _genfn

    gen = _genfn(repo)
    from sa.flatten import flatten as _flgen

    # the comparison step may have been extracted into a helper of the class (`if self._differs_from_existing(...)`): write it out
    gen = _flgen(gen, select=lambda h: any(isinstance(c.func, ast.Attribute) and c.func.attr in ("_show_diffs", "copyfile", "copy", "copy2") for c in calls_in(h.node)))
    from sa.flatten import inline_module_constants as _imc9

    gen = _imc9(gen)  # a file recognised by its name stays recognisable when the name is a module constant
    sw, atoms, _ = c10.find_mode_switch(gen)  # type: ignore[misc]
    env0 = {a: True for a in atoms}
    env0["force"] = False
    t0 = c10._truth(sw.test, env0)
    diff_body, direct_body = (sw.body, sw.orelse) if t0 else (sw.orelse, sw.body)

    def emits(body: List[ast.stmt]) -> List[Tuple[str, ast.Call]]:
        out = []
        # emitter variable -> class
        classes: Dict[str, str] = {}
        for s in body:
            for n in ast.walk(s):
                if isinstance(n, ast.Assign) and isinstance(n.targets[0], ast.Name) and isinstance(n.value, ast.Call) and (dotted(n.value.func) or "").endswith("Emitter"):
                    classes[n.targets[0].id] = dotted(n.value.func) or "?"
        for s in body:
            for n in ast.walk(s):
                if isinstance(n, ast.Call) and isinstance(n.func, ast.Attribute) and n.func.attr == "emit" and isinstance(n.func.value, ast.Name):
                    out.append((classes.get(n.func.value.id, n.func.value.id), n))
        out.sort(key=lambda t: (t[1].lineno, t[1].col_offset))
        return out

    e_diff, e_direct = emits(diff_body), emits(direct_body)
    seq_diff, seq_direct = [c for c, _ in e_diff], [c for c, _ in e_direct]
    sub = f"{gen.module.relpath}:generate emitter sequences"
    rep.count("R9.7:compare_branch_emits", seq_diff)
    rep.count("R9.7:direct_branch_emits", seq_direct)
    rep.require(len(seq_diff) >= 6, f"R9.7: only {len(seq_diff)} emit calls found in the compare-only branch (floor 6)")
    if seq_diff == seq_direct and len(set(seq_diff)) == len(seq_diff):
        rep.ok("R9.7", sub, f"both branches call {seq_diff} exactly once each, in the same order", gen.loc(sw))
    else:
        dup = sorted({c for c in seq_direct if seq_direct.count(c) > 1} | {c for c in seq_diff if seq_diff.count(c) > 1})
        rep.violation("R9.7", sub, f"{gen.fq}|emit-sequences|{seq_diff}|{seq_direct}",
                      f"the compare-only branch runs {seq_diff} but direct generation runs {seq_direct}"
                      + (f" ({dup} more than once)" if dup else "") + ": the tree written with --force can differ from the tree it is later compared with", gen.loc(sw))
    # files written by generate() itself (not by an emitter) must be written in both branches by the same helper
    def own_writes(body: List[ast.stmt]) -> Set[str]:
        out = set()
        for s in body:
            for n in ast.walk(s):
                if isinstance(n, ast.Call):
                    d = dotted(n.func) or ""
                    if d.startswith("self._write_") or d == "open" and any(const_str(a) in ("w", "a") for a in n.args[1:]):
                        out.add(d if d != "open" else f"open@{norm(n.args[0])[:30]}")
        return out

    w_diff, w_direct = own_writes(diff_body), own_writes(direct_body)
    if w_diff == w_direct:
        rep.ok("R9.7", f"{gen.module.relpath}:generate own content writes", f"both branches write the same generator-owned files via {sorted(w_diff) or 'nothing'}", gen.loc(sw))
    else:
        rep.violation("R9.7", f"{gen.module.relpath}:generate own content writes", f"{gen.fq}|own-writes|{sorted(w_diff)}|{sorted(w_direct)}",
                      f"direct generation writes {sorted(w_direct - w_diff)} that the compare-only branch does not reproduce (and vice versa "
                      f"{sorted(w_diff - w_direct)}): an unchanged tree compares unequal", gen.loc(sw))
    # R9.6 the temp core is seeded with the real registry, read-only
    from sa.paths import Provenance

    prov9 = Provenance(gen, exclude=list(direct_body))
    seeded = False
    for s in diff_body:
        for n in ast.walk(s):
            if isinstance(n, ast.Call) and (dotted(n.func) or "") in ("shutil.copy", "shutil.copy2", "shutil.copyfile") and len(n.args) == 2:
                from sa.match import Locals as _L96

                GL96 = _L96(gen.node)
                src_txt = norm(_deref(gen, n.args[0])) + " " + norm(GL96.inline(n.args[0], stop=tuple(GL96.params)))
                dst_txt = norm(_deref(gen, n.args[1])) + " " + norm(GL96.inline(n.args[1], stop=tuple(GL96.params)))
                sroots, droots = prov9.roots(n.args[0]), prov9.roots(n.args[1])
                s_tmp = ("call", "tempfile.TemporaryDirectory") in sroots or ("call", "tempfile.mkdtemp") in sroots
                d_tmp = ("call", "tempfile.TemporaryDirectory") in droots or ("call", "tempfile.mkdtemp") in droots
                if ".exception_registry.json" in src_txt and ("param", "project_root") in sroots and not s_tmp and d_tmp and ".exception_registry.json" in dst_txt:
                    seeded = True
                    # must precede the exceptions emitter (position in the - possibly flattened - statement sequence, not line numbers)
                    order: Dict[int, int] = {}

                    def _dfs(x: ast.AST) -> None:
                        order[id(x)] = len(order)
                        for ch in ast.iter_child_nodes(x):
                            _dfs(ch)

                    for s_ in diff_body:
                        _dfs(s_)
                    first_emit_pos = min((order.get(id(e_[1]), 10 ** 9) for e_ in e_diff), default=10 ** 9)
                    if order.get(id(n), 10 ** 9) < first_emit_pos:
                        rep.ok("R9.6", f"{gen.module.relpath}:generate registry seeding", "existing .exception_registry.json is copied into the temp core before the first emit", gen.loc(n))
                    else:
                        rep.violation("R9.6", f"{gen.module.relpath}:generate registry seeding", f"{gen.fq}|registry-seed-late", "the registry is copied after the emitters ran", gen.loc(n))
    if not seeded:
        rep.violation("R9.6", f"{gen.module.relpath}:generate registry seeding", f"{gen.fq}|registry-not-seeded",
                      "compare-only generation starts with an empty exception registry: for a core shared by several clients the regenerated "
                      "exception_aliases.py / core __init__ differ from the existing ones and an up-to-date tree fails with 'Differences found'", gen.loc(sw))

    # R9.8 the compare covers the core wherever it lives (shared with C10/R10.6)
    c10.diff_coverage(repo, rep, "R9.8", gen, diff_body)
    # ---------------------------------------------------------------- R9.10 both branches build the same package structure
    # The post-processor (import sorting) looks at the tree a file sits in: whether `apis` is a local package decides where
    # `from apis.client...` is grouped.  If direct generation creates the ancestor __init__.py files, compare-only generation must create
    # them below its temporary root as well, otherwise an unchanged nested package compares unequal.
    def _is_init_loop(w: ast.AST) -> bool:
        return isinstance(w, ast.While) and any(isinstance(x, ast.Constant) and x.value == "__init__.py" for x in ast.walk(w)) and any(
            isinstance(c, ast.Call) and isinstance(c.func, ast.Attribute) and c.func.attr in ("write_text", "touch", "write_file") for c in ast.walk(w))

    gcls9 = gen.module.classes.get(gen.qualname.split(".")[0]) if "." in gen.qualname else None
    init_helpers = {hn for hn, hf in (gcls9.methods.items() if gcls9 is not None else []) if hf is not gen and any(_is_init_loop(w) for w in ast.walk(hf.node))}

    def init_loops(body) -> List[ast.AST]:
        out = []
        for st in body:
            for w in ast.walk(st):
                if isinstance(w, ast.Call) and isinstance(w.func, ast.Attribute) and w.func.attr in init_helpers:
                    out.append(w)  # the loop lives in a helper of the class
                if isinstance(w, ast.While) and any(isinstance(x, ast.Constant) and x.value == "__init__.py" for x in ast.walk(w)) and any(
                        isinstance(c, ast.Call) and isinstance(c.func, ast.Attribute) and c.func.attr in ("write_text", "touch", "write_file") for c in ast.walk(w)):
                    out.append(w)
        return out

    il_direct, il_diff = init_loops(direct_body), init_loops(diff_body)
    sub910 = f"{gen.module.relpath}:generate ancestor __init__.py files in both branches"
    if not il_direct:
        rep.ok("R9.10", sub910, "direct generation creates no ancestor __init__.py files: nothing to mirror", gen.loc(sw))
    elif il_diff:
        rep.ok("R9.10", sub910, f"direct generation has {len(il_direct)} ancestor-__init__ loop(s), compare-only generation {len(il_diff)} below the temporary root", gen.loc(il_diff[0]))
        # ... for the same directories: a loop of one branch that runs only under a condition on where the core lives relative to the output
        # package has no counterpart when the other branch walks unconditionally (core nested below the client: `myapi.shared.core`)
        def _layout_guards(loop: ast.AST, body) -> List[ast.AST]:
            out, q = [], parent(loop)
            while q is not None and not any(q is st for st in body):
                if isinstance(q, ast.If) and sum(1 for x in ast.walk(q.test) if isinstance(x, ast.Name) and ("core" in x.id or "out" in x.id)) >= 2:
                    out.append(q.test)
                q = parent(q)
            if isinstance(q, ast.If) and sum(1 for x in ast.walk(q.test) if isinstance(x, ast.Name) and ("core" in x.id or "out" in x.id)) >= 2:
                out.append(q.test)
            return out

        g_direct = [g for lp_ in il_direct for g in _layout_guards(lp_, direct_body)]
        g_diff = [g for lp_ in il_diff for g in _layout_guards(lp_, diff_body)]
        sub910b = f"{gen.module.relpath}:generate ancestor __init__.py files are created for the same directories in both branches"
        if bool(g_direct) != bool(g_diff):
            g0 = (g_direct or g_diff)[0]
            rep.violation("R9.10", sub910b, f"{gen.fq}|init-loops-guarded-differently|{norm(g0)[:50]}",
                          f"{'direct' if g_direct else 'compare-only'} generation walks up from the core only when `{norm(g0)[:60]}`, the other branch always: for a core nested "
                          "below the client package (`myapi.shared.core`) the intermediate `shared/__init__.py` exists in one tree only and an immediate re-run of an unchanged "
                          "client fails with 'Missing file in existing output'", gen.loc(g0))
        else:
            rep.ok("R9.10", sub910b, "neither branch makes the walk depend on where the core lives" if not g_direct else "both branches apply a layout condition", gen.loc(il_diff[0]))
    else:
        rep.violation("R9.10", sub910, f"{gen.fq}|init-structure-not-mirrored",
                      "direct generation creates __init__.py in every ancestor package of the output, compare-only generation does not: in the temporary tree `apis` is not a "
                      "package, the post-processor groups `from apis.client...` differently, and an immediate re-run over an unchanged nested package fails with "
                      "'Differences found'", gen.loc(sw))

    _guarded(rep, rule_relpath_operands_agree, repo, rep, "R9.11")
    # R9.9 output is independent of prior runs: the shared-core registry entry of a client is overwritten with its current codes and the
    # aliases are regenerated from the union (rules of C11/R11.1)
    from rules._reuse import reuse

    reuse(repo, rep, "c11", {"R11.1": "R9.9"})
    # R9.12: whenever the output package exists and force is off, the compare-only branch runs (nothing else decides "first run")   [= R10.3]
    reuse(repo, rep, "c10", {"R10.3": "R9.12"}, only=lambda subj: "mode switch" in subj)
    _guarded(rep, rule_no_memoised_outside_reads, repo, rep, "R9.13")
    from rules.c10 import rule_formatter_is_isolated

    _guarded(rep, rule_formatter_is_isolated, repo, rep, "R9.14")

    # R9.7b emit-time renaming of IR names must be idempotent (test, loop, record)
    _idempotent_renames(repo, rep)


def _deref(fn: Function, e: ast.AST) -> ast.AST:
    """Replace names by their (single) local definition, one level, for textual inspection."""
    class T(ast.NodeTransformer):
        def visit_Name(self, n: ast.Name):  # noqa: N802
            defs = [x for x in own_nodes(fn.node) if isinstance(x, ast.Assign) and any(isinstance(t, ast.Name) and t.id == n.id for t in x.targets)]
            if len(defs) == 1 and not isinstance(defs[0].value, ast.Call):
                return defs[0].value
            if len(defs) == 1 and isinstance(defs[0].value, ast.BinOp):
                return defs[0].value
            return n
    import copy

    return T().visit(copy.deepcopy(e))


def _ordered_before(fn: Function, name: str, lineno: int) -> bool:
    """Is the most recent definition/ordering event of local `name` before `lineno` one that fixes its order?
    (`name.sort()`, `name = sorted(...)`) - straight-line approximation by source order."""
    last: Optional[Tuple[int, bool]] = None
    for n in own_nodes(fn.node):
        ln = getattr(n, "lineno", 0)
        if ln >= lineno:
            continue
        ev: Optional[bool] = None
        if isinstance(n, ast.Expr) and isinstance(n.value, ast.Call) and isinstance(n.value.func, ast.Attribute) and n.value.func.attr == "sort" \
                and isinstance(n.value.func.value, ast.Name) and n.value.func.value.id == name:
            ev = True
        elif isinstance(n, (ast.Assign, ast.AnnAssign)):
            tg = n.targets[0] if isinstance(n, ast.Assign) else n.target
            if isinstance(tg, ast.Name) and tg.id == name and n.value is not None:
                ev = isinstance(n.value, ast.Call) and dotted(n.value.func) == "sorted"
        if ev is not None and (last is None or ln >= last[0]):
            last = (ln, ev)
    return bool(last and last[1])


def _sorted_next(node: ast.AST) -> bool:
    """`x = <unordered>` immediately followed (next use of x in the same block) by `x = sorted(x)` / `x.sort()`."""
    p = parent(node)
    if not (isinstance(p, (ast.Assign, ast.AnnAssign))):
        return False
    tg = p.targets[0] if isinstance(p, ast.Assign) else p.target
    if not isinstance(tg, ast.Name):
        return False
    blk = parent(p)
    for field in ("body", "orelse", "finalbody"):
        stmts = getattr(blk, field, None)
        if isinstance(stmts, list) and p in stmts:
            for st in stmts[stmts.index(p) + 1:]:
                if not any(isinstance(x, ast.Name) and x.id == tg.id for x in ast.walk(st)):
                    continue
                if isinstance(st, ast.Expr) and isinstance(st.value, ast.Call) and isinstance(st.value.func, ast.Attribute) and st.value.func.attr == "sort" \
                        and isinstance(st.value.func.value, ast.Name) and st.value.func.value.id == tg.id:
                    return True
                if isinstance(st, ast.Assign) and isinstance(st.targets[0], ast.Name) and st.targets[0].id == tg.id and isinstance(st.value, ast.Call) \
                        and dotted(st.value.func) == "sorted" and st.value.args and isinstance(st.value.args[0], ast.Name) and st.value.args[0].id == tg.id:
                    return True
                return False
    return False


def _unordered_kind(st: SetTypes, fn: Function, it: ast.AST) -> Optional[str]:
    if isinstance(it, ast.Name) and _ordered_before(fn, it.id, getattr(it, "lineno", 0)):
        return None
    k = st.kind(fn, it)
    if k in (SET, SEQ_FROM_SET):
        return k
    if k == DICT_OF_SET:
        return "dict-of-set keys"
    if isinstance(it, ast.Call) and isinstance(it.func, ast.Attribute) and it.func.attr in ("items", "keys", "values") and not it.args:
        if st.kind(fn, it.func.value) == DICT_OF_SET:
            return f"dict-of-set .{it.func.attr}()"
    return None


def _key_cannot_tie(key: ast.AST) -> Optional[str]:
    """why a sort key is injective on the elements (None when it is not known to be)"""
    if not isinstance(key, ast.Lambda) or len(key.args.args) != 1:
        return None
    v = key.args.args[0].arg
    b = key.body
    if isinstance(b, ast.Name) and b.id == v:
        return "the element itself"
    if isinstance(b, ast.Tuple) and b.elts and isinstance(b.elts[-1], ast.Name) and b.elts[-1].id == v:
        return "ties are broken by the element itself (last tuple component)"
    if isinstance(b, ast.Call) and isinstance(b.func, ast.Name) and b.func.id == "str" and len(b.args) == 1 and isinstance(b.args[0], ast.Name) and b.args[0].id == v:
        return "str(element)"
    # position of the *delimited* element in a text: `s.index("{" + v + "}")` - distinct delimited tokens cannot start at the same offset
    if isinstance(b, ast.Call) and isinstance(b.func, ast.Attribute) and b.func.attr in ("index", "find") and len(b.args) == 1:
        a = b.args[0]
        parts: List[ast.AST] = []

        def flat(e: ast.AST) -> None:
            if isinstance(e, ast.BinOp) and isinstance(e.op, ast.Add):
                flat(e.left)
                flat(e.right)
            elif isinstance(e, ast.JoinedStr):
                for p_ in e.values:
                    parts.append(p_.value if isinstance(p_, ast.FormattedValue) else p_)
            else:
                parts.append(e)

        flat(a)
        if len(parts) == 3 and all(isinstance(parts[i], ast.Constant) and isinstance(parts[i].value, str) and parts[i].value for i in (0, 2)) \
                and isinstance(parts[1], ast.Name) and parts[1].id == v:
            return "offset of the element wrapped in delimiters (distinct tokens cannot share an offset)"
    return None


def _order_observable(node: ast.AST, how: str, fn: Function) -> Optional[str]:
    p = parent(node)
    if how == "for":
        lv: Set[str] = set()
        for s in node.body:  # type: ignore[attr-defined]
            r = _stmt_order_insensitive(s, lv)
            if r:
                return f"loop body has {r}"
        return None
    if how == "comprehension":
        if isinstance(node, ast.SetComp):
            return None
        if _sorted_next(node):
            return None
        # consumer
        if isinstance(p, ast.Call) and (dotted(p.func) in ORDER_INSENSITIVE_CONSUMERS) and node in p.args:
            return None
        if isinstance(p, ast.Call) and isinstance(p.func, ast.Attribute) and p.func.attr in SET_MUTATORS and node in p.args:
            return None
        # dict of per-key values consumed only by key lookups cannot be told statically: flag
        return f"{type(node).__name__} result is consumed by `{norm(p)[:50]}`"
    # join / list / tuple / enumerate / next ...
    if isinstance(p, ast.Call) and dotted(p.func) in ORDER_INSENSITIVE_CONSUMERS:
        return None
    if _sorted_next(node):
        return None
    if how in ("list", "tuple") and isinstance(p, ast.Call) and dotted(p.func) in ORDER_INSENSITIVE_CONSUMERS:
        return None
    return f"`{norm(node)[:50]}` keeps the arbitrary order"


# ---------------------------------------------------------------------- R9.2
AMBIENT_CALLS = {
    "id": "id", "hash": "hash", "time.time": "clock", "time.perf_counter": "clock", "time.monotonic": "clock", "time.strftime": "clock",
    "datetime.now": "clock", "datetime.datetime.now": "clock", "datetime.utcnow": "clock", "datetime.today": "clock", "date.today": "clock",
    "random.random": "random", "random.choice": "random", "random.randint": "random", "random.shuffle": "random", "random.sample": "random",
    "uuid.uuid4": "uuid", "uuid.uuid1": "uuid", "os.urandom": "random", "secrets.token_hex": "random",
    "os.getcwd": "cwd", "Path.cwd": "cwd", "os.getpid": "pid", "os.environ.get": "env", "os.getenv": "env",
    "tempfile.mkdtemp": "tempname", "tempfile.mkstemp": "tempname", "tempfile.NamedTemporaryFile": "tempname",
    "socket.gethostname": "host", "getpass.getuser": "user", "platform.node": "host",
    # file times: what is (re)written must not depend on when an earlier run, a checkout or the installation of the generator touched a file
    "os.path.getmtime": "filetime", "os.path.getctime": "filetime", "os.path.getatime": "filetime",
}
FILETIME_ATTRS = {"st_mtime", "st_ctime", "st_atime", "st_mtime_ns", "st_ctime_ns", "st_atime_ns"}


def _ambient(repo: Repo, live: List[str], rep: Report) -> None:
    n_sites = 0
    for mn in live:
        mod = repo.modules[mn]
        for n in ast.walk(mod.tree):
            if not isinstance(n, ast.Call):
                continue
            d = dotted(n.func)
            kind = AMBIENT_CALLS.get(d or "")
            if kind is None and d and d.split(".")[-1] in ("now", "utcnow", "uuid4", "getcwd") and d != "self.now":
                kind = "clock" if d.endswith(("now", "utcnow")) else ("uuid" if d.endswith("uuid4") else "cwd")
            if kind is None:
                continue
            n_sites += 1
            fnode = _enclosing_fn(n)
            fname = getattr(fnode, "name", "<module>")
            stmt = enclosing_stmt(n)
            sub = f"{mod.relpath}:{fname} `{norm(n)[:40]}` ({kind})"
            loc = f"{mod.relpath}:{n.lineno}"
            verdict = _classify_ambient(n, kind, stmt, fnode, mod)
            if verdict[0]:
                rep.ok("R9.2", sub, verdict[1], loc)
            else:
                rep.violation("R9.2", sub, f"{mod.name}:{fname}|ambient|{kind}|{norm(stmt)[:80]}",
                              f"an ambient value ({kind}) can reach generated names/content: {verdict[1]}", loc)
        for n in ast.walk(mod.tree):
            if isinstance(n, ast.Attribute) and n.attr in FILETIME_ATTRS:
                n_sites += 1
                fnode = _enclosing_fn(n)
                fname = getattr(fnode, "name", "<module>")
                stmt = enclosing_stmt(n)
                q = n
                logged = False
                while q is not None and q is not stmt:
                    q = parent(q)
                    if isinstance(q, ast.Call) and _is_log_call(q):
                        logged = True
                sub = f"{mod.relpath}:{fname} `{norm(n)[:40]}` (filetime)"
                if logged:
                    rep.ok("R9.2", sub, "only formatted into a log message", f"{mod.relpath}:{n.lineno}")
                else:
                    rep.violation("R9.2", sub, f"{mod.name}:{fname}|ambient|filetime|{norm(stmt)[:80]}",
                                  f"a file time is read on the generation path (`{norm(stmt)[:60]}`): what is written depends on prior runs / check-out / installation times", f"{mod.relpath}:{n.lineno}")
    rep.count("R9.2:ambient_source_sites", n_sites)
    rep.require(n_sites >= 15, f"R9.2: only {n_sites} ambient source sites found (floor 15)")
    # RenderContext must always be given the project root (the os.getcwd() fallback must stay dead on the generation path)
    n_rc = 0
    for mn in live:
        mod = repo.modules[mn]
        for fn in mod.functions.values():
            for c in calls_in(fn.node):
                if dotted(c.func) == "RenderContext":
                    n_rc += 1
                    kws = {k.arg for k in c.keywords}
                    sub = f"{mod.relpath}:{fn.qualname} `RenderContext(...)` project root"
                    if "overall_project_root" in kws or len(c.args) >= 3:
                        rep.ok("R9.2", sub, "overall_project_root is passed explicitly (the os.getcwd() default is not used)", fn.loc(c))
                    else:
                        rep.violation("R9.2", sub, f"{fn.fq}|render-context-cwd", "RenderContext is built without overall_project_root: import paths depend on the working directory", fn.loc(c))
    rep.require(n_rc >= 3, f"R9.2: only {n_rc} RenderContext constructions found (floor 3)")


def _enclosing_fn(n: ast.AST) -> Optional[ast.AST]:
    p = parent(n)
    while p is not None and not isinstance(p, (ast.FunctionDef, ast.AsyncFunctionDef)):
        p = parent(p)
    return p


def _classify_ambient(call: ast.Call, kind: str, stmt: ast.stmt, fnode: Optional[ast.AST], mod) -> Tuple[bool, str]:
    p = parent(call)
    # inside a log call?
    q: Optional[ast.AST] = call
    while q is not None and q is not stmt:
        q = parent(q)
        if isinstance(q, ast.Call) and _is_log_call(q):
            return True, "only formatted into a log message"
    if kind == "env":
        name = const_str(call.args[0]) if call.args else None
        if name in ENV_ALLOWED:
            return True, f"reads option {name}: {ENV_ALLOWED[name]} (part of the configuration, not ambient state)"
        return False, f"reads environment variable {name!r}, which is not a documented generation option"
    if kind == "cwd":
        if isinstance(p, ast.BoolOp) and isinstance(p.op, ast.Or) and p.values[-1] is call:
            return True, "fallback default behind `or` (every generation-path caller passes the value; checked separately)"
        return False, "working directory used unconditionally"
    if kind == "id":
        return _classify_id(call, stmt, fnode)
    if kind == "clock":
        # only timing bookkeeping: assigned to a name/attribute used in arithmetic / logs, or subtracted
        if isinstance(p, ast.BinOp) and isinstance(p.op, ast.Sub):
            return _timing_only(stmt, fnode)
        if isinstance(stmt, ast.Assign):
            return _timing_only(stmt, fnode)
        if isinstance(p, ast.Attribute) and p.attr == "strftime":
            return _timing_only(stmt, fnode)
        if isinstance(p, ast.Call) and isinstance(p.func, ast.Attribute) and p.func.attr == "get":
            return _timing_only(stmt, fnode)
        return False, f"clock value used in `{norm(stmt)[:60]}`"
    return False, f"`{norm(stmt)[:60]}`"


def _timing_only(stmt: ast.stmt, fnode: Optional[ast.AST]) -> Tuple[bool, str]:
    """The statement's targets must only feed logs / further timing arithmetic."""
    if fnode is None:
        return False, "module-level clock read"
    targets: Set[str] = set()
    if isinstance(stmt, ast.Assign):
        for t in stmt.targets:
            targets.add(norm(t))
    if not targets:
        return True, "value is consumed inside the statement by timing arithmetic"
    tainted = set(targets)
    for _ in range(3):
        for n in own_nodes(fnode):
            if isinstance(n, ast.Assign) and any(norm(x) in tainted for x in ast.walk(n.value) if isinstance(x, (ast.Name, ast.Attribute, ast.Subscript))):
                for t in n.targets:
                    tainted.add(norm(t))
    for n in own_nodes(fnode):
        if isinstance(n, (ast.Name, ast.Attribute)) and isinstance(getattr(n, "ctx", None), ast.Load) and norm(n) in tainted:
            # climb to the consuming call / statement
            q: Optional[ast.AST] = n
            ok = False
            while q is not None and not isinstance(q, ast.stmt):
                q = parent(q)
                if isinstance(q, ast.Call) and _is_log_call(q):
                    ok = True
                    break
            if ok:
                continue
            s = enclosing_stmt(n)
            if isinstance(s, ast.Assign) and all(norm(t) in tainted for t in s.targets):
                continue
            if isinstance(s, (ast.If, ast.For)):
                continue
            return False, f"timing value `{norm(n)}` used in `{norm(s)[:60]}`"
    attrs = sorted(t for t in targets if t.startswith("self."))
    return True, "timing bookkeeping only (" + (", ".join(sorted(targets))) + " feeds logs / durations)"


def _classify_id(call: ast.Call, stmt: ast.stmt, fnode: Optional[ast.AST]) -> Tuple[bool, str]:
    p = parent(call)
    # membership / equality test, set insertion, dict key
    if isinstance(p, ast.Compare):
        return True, "identity used in a membership/equality test"
    if isinstance(p, ast.Call) and isinstance(p.func, ast.Attribute) and p.func.attr in ("add", "discard", "remove") and call in p.args:
        return True, "identity inserted into / removed from a visited set"
    if isinstance(p, ast.DictComp) and p.key is call:
        return _dict_keys_not_ordered(p, stmt, fnode)
    if isinstance(p, ast.Subscript):
        return True, "identity used as a lookup key"
    if isinstance(stmt, ast.Assign) and stmt.value is call and isinstance(stmt.targets[0], ast.Name):
        var = stmt.targets[0].id
        bad = []
        for n in own_nodes(fnode) if fnode is not None else []:
            if isinstance(n, ast.Name) and n.id == var and isinstance(n.ctx, ast.Load):
                pp = parent(n)
                if isinstance(pp, ast.Compare):
                    continue
                if isinstance(pp, ast.Call) and isinstance(pp.func, ast.Attribute) and pp.func.attr in ("add", "discard", "remove"):
                    continue
                if isinstance(pp, ast.Subscript):
                    continue
                if isinstance(pp, ast.Call) and n in pp.args and _helper_param_is_key_only(pp, pp.args.index(n), fnode):
                    continue  # handed to a helper of the same module that only uses it as a visited key
                q: Optional[ast.AST] = n
                logged = False
                while q is not None and not isinstance(q, ast.stmt):
                    q = parent(q)
                    if isinstance(q, ast.Call) and _is_log_call(q):
                        logged = True
                if logged:
                    continue
                bad.append(norm(enclosing_stmt(n))[:60])
        if bad:
            return False, f"identity `{var}` flows into `{bad[0]}`"
        return True, f"identity `{var}` is only compared / used as a visited key"
    if isinstance(p, ast.FormattedValue):
        return _guard_correlated(call, stmt, fnode)
    # the same text built with `"...{}".format(..., id(x))`, `"..." % id(x)` or `"..." + str(id(x))`
    if (isinstance(p, ast.Call) and isinstance(p.func, ast.Attribute) and p.func.attr == "format" and call in p.args) or (
            isinstance(p, ast.Call) and dotted(p.func) == "str" and isinstance(parent(p), ast.BinOp)) or (isinstance(p, ast.BinOp) and isinstance(p.op, ast.Mod)):
        return _guard_correlated(call, stmt, fnode)
    if isinstance(p, ast.Tuple):
        q = parent(p)
        while q is not None and not isinstance(q, ast.stmt):
            if isinstance(q, ast.Call) and _is_log_call(q):
                return True, "only formatted into a log message"
            q = parent(q)
    return False, f"identity used in `{norm(stmt)[:60]}`"


def _helper_param_is_key_only(call: ast.Call, pos: int, fnode: Optional[ast.AST]) -> bool:
    """The callee is a function of the same module (unique by name) and its parameter at `pos` is used only in comparisons, set
    add/discard/remove and subscripts (visited-set bookkeeping)."""
    name = call.func.attr if isinstance(call.func, ast.Attribute) else call.func.id if isinstance(call.func, ast.Name) else None
    root = fnode
    while root is not None and parent(root) is not None:
        root = parent(root)
    if name is None or root is None:
        return False
    cands = [f for f in ast.walk(root) if isinstance(f, (ast.FunctionDef, ast.AsyncFunctionDef)) and f.name == name]
    if not cands:
        # a small class of the module used as `with Marker(visited, obj_id):` - the constructor stores the value, and every method uses the
        # stored attribute only in set add/discard/remove, comparisons and subscripts
        klass = [c for c in ast.walk(root) if isinstance(c, ast.ClassDef) and c.name == name]
        if len(klass) == 1:
            init = [f for f in klass[0].body if isinstance(f, ast.FunctionDef) and f.name == "__init__"]
            if init:
                ps = [a.arg for a in init[0].args.args][1:]
                if pos < len(ps):
                    attrs = {t.attr for st in ast.walk(init[0]) if isinstance(st, ast.Assign) and isinstance(st.value, ast.Name) and st.value.id == ps[pos]
                             for t in st.targets if isinstance(t, ast.Attribute)}
                    if attrs:
                        for x in ast.walk(klass[0]):
                            if isinstance(x, ast.Attribute) and x.attr in attrs and isinstance(x.ctx, ast.Load):
                                pp = parent(x)
                                if isinstance(pp, (ast.Compare, ast.Subscript)):
                                    continue
                                if isinstance(pp, ast.Call) and isinstance(pp.func, ast.Attribute) and pp.func.attr in ("add", "discard", "remove") and x in pp.args:
                                    continue
                                return False
                        return True
        return False
    if len(cands) != 1:
        return False
    h = cands[0]
    params = [a.arg for a in h.args.posonlyargs + h.args.args]
    if params and params[0] in ("self", "cls") and isinstance(call.func, ast.Attribute):
        params = params[1:]
    if pos >= len(params):
        return False
    pname = params[pos]
    uses = [x for x in ast.walk(h) if isinstance(x, ast.Name) and x.id == pname and isinstance(x.ctx, ast.Load)]
    if not uses:
        return False
    for x in uses:
        pp = parent(x)
        if isinstance(pp, (ast.Compare, ast.Subscript)):
            continue
        if isinstance(pp, ast.Call) and isinstance(pp.func, ast.Attribute) and pp.func.attr in ("add", "discard", "remove") and x in pp.args:
            continue
        return False
    return True


def _dict_keys_not_ordered(dc: ast.DictComp, stmt: ast.stmt, fnode: Optional[ast.AST]) -> Tuple[bool, str]:
    if not (isinstance(stmt, ast.Assign) and isinstance(stmt.targets[0], ast.Name)) or fnode is None:
        return False, "id()-keyed dict is not bound to a local"
    if stmt.value is not dc:
        return False, f"id()-keyed dict is post-processed by `{norm(stmt.value)[:60]}` (ordering / selection by memory address)"
    var = stmt.targets[0].id
    for n in own_nodes(fnode):
        if isinstance(n, ast.Name) and n.id == var and isinstance(n.ctx, ast.Load):
            pp = parent(n)
            if isinstance(pp, ast.Attribute) and pp.attr == "values":
                continue
            if isinstance(pp, ast.Attribute) and pp.attr in ("get", "__contains__"):
                continue
            if isinstance(pp, (ast.Compare, ast.Subscript)):
                continue
            if isinstance(pp, ast.Call) and dotted(pp.func) == "len":
                continue
            return False, f"id()-keyed dict `{var}` is used as `{norm(pp)[:50]}` (its keys could reach output or ordering)"
    return True, f"id()-keyed dict `{var}` is only used for de-duplication (.values() in insertion order / lookups)"


def _guard_correlated(call: ast.Call, stmt: ast.stmt, fnode: Optional[ast.AST]) -> Tuple[bool, str]:
    """`V = f"...{id(x)}"` under a test with conjunct G is harmless iff every later use of V is in a position that is
    selected only when G is false (`A if G else V`)."""
    if not (isinstance(stmt, ast.Assign) and isinstance(stmt.targets[0], ast.Name)) or fnode is None:
        return False, "id() formatted into a string that is not a guarded local"
    var = stmt.targets[0].id
    g_if = parent(stmt)
    if not isinstance(g_if, ast.If) or stmt not in g_if.body:
        return False, f"`{var}` gets an id()-derived value unconditionally"
    from sa.match import Locals as _Lgc

    GL = _Lgc(fnode)

    def _n(e: ast.AST) -> str:
        return norm(GL.inline(e, stop=tuple(GL.params)))  # flags bound once (`stays_inline = a or b`) are looked through

    conj = g_if.test.values if isinstance(g_if.test, ast.BoolOp) and isinstance(g_if.test.op, ast.And) else [g_if.test]
    conj_txt = {norm(c) for c in conj} | {_n(c) for c in conj}
    uses = [n for n in own_nodes(fnode) if isinstance(n, ast.Name) and n.id == var and isinstance(n.ctx, ast.Load) and n.lineno > stmt.lineno]
    if not uses:
        return True, f"`{var}` is not used after the id()-derived assignment"
    for u in uses:
        pp = parent(u)
        dead = isinstance(pp, ast.IfExp) and pp.orelse is u and (norm(pp.test) in conj_txt or _n(pp.test) in conj_txt)
        if isinstance(pp, ast.IfExp) and pp.body is u and isinstance(pp.test, ast.UnaryOp) and isinstance(pp.test.op, ast.Not) and (
                norm(pp.test.operand) in conj_txt or _n(pp.test.operand) in conj_txt):
            dead = True
        # the statement form: `if G: x = None else: x = V`
        st_u = enclosing_stmt(u)
        anc = parent(st_u)
        if not dead and isinstance(anc, ast.If):
            t_ = anc.test
            neg_ = False
            while isinstance(t_, ast.UnaryOp) and isinstance(t_.op, ast.Not):
                t_, neg_ = t_.operand, not neg_
            in_else = any(st_u is b for b in anc.orelse)
            in_body = any(st_u is b for b in anc.body)
            if (norm(t_) in conj_txt or _n(t_) in conj_txt) and ((in_else and not neg_) or (in_body and neg_)):
                dead = True
        if not dead:
            return False, (f"`{var}` = `{norm(stmt.value)[:50]}` is assigned under `{norm(g_if.test)[:70]}` but used at line {u.lineno} in "
                           f"`{norm(enclosing_stmt(u))[:70]}` where that guard is not known to be false: a memory address becomes a schema/file name")
        # the guard's variables must not be reassigned in between
        names = {x.id for c in conj for x in ast.walk(c) if isinstance(x, ast.Name)} if not isinstance(pp, ast.IfExp) else {
            x.id for c in conj for x in ast.walk(c) if isinstance(x, ast.Name) and norm(c) == norm(pp.test if not isinstance(pp.test, ast.UnaryOp) else pp.test.operand)}
        for n in own_nodes(fnode):
            if isinstance(n, ast.Assign) and stmt.lineno < n.lineno < u.lineno and any(isinstance(t, ast.Name) and t.id in names for t in n.targets):
                return False, f"guard variable reassigned between the id()-derived assignment and its use (line {n.lineno})"
    return True, (f"guard correlation: `{var}` only receives the id()-derived text under `{sorted(conj_txt)[0][:50]}`, and its only later use "
                  f"selects it when that same condition is false")


# ---------------------------------------------------------------------- R9.3
def _global_state(repo: Repo, live: List[str], rep: Report, res: Resolver) -> None:
    """Module-level / class-level mutable containers that some function mutates."""
    n = 0
    for mn in live:
        mod = repo.modules[mn]
        cands: Dict[str, Tuple[str, ast.AST]] = {}
        for stn in mod.tree.body:
            if isinstance(stn, (ast.Assign, ast.AnnAssign)):
                tgt = stn.targets[0] if isinstance(stn, ast.Assign) else stn.target
                val = stn.value
                if isinstance(tgt, ast.Name) and isinstance(val, (ast.Dict, ast.List, ast.Set)):
                    cands[tgt.id] = ("module", stn)
                if isinstance(tgt, ast.Name) and isinstance(val, ast.Call) and dotted(val.func) in ("dict", "list", "set", "defaultdict", "collections.defaultdict", "OrderedDict"):
                    cands[tgt.id] = ("module", stn)
        for cls in mod.classes.values():
            is_dc = any("dataclass" in norm(d) for d in cls.node.decorator_list)
            for stn in cls.node.body:
                if isinstance(stn, (ast.Assign, ast.AnnAssign)):
                    tgt = stn.targets[0] if isinstance(stn, ast.Assign) else stn.target
                    val = stn.value
                    if isinstance(tgt, ast.Name) and isinstance(val, (ast.Dict, ast.List, ast.Set)) and not is_dc:
                        cands[f"{cls.name}.{tgt.id}"] = ("class", stn)
        for name, (scope, node) in cands.items():
            short = name.split(".")[-1]
            writers = []
            for fn in mod.functions.values():
                for x in own_nodes(fn.node):
                    tgt = None
                    if isinstance(x, ast.Assign):
                        for t in x.targets:
                            if isinstance(t, ast.Subscript):
                                tgt = t.value
                    elif isinstance(x, ast.Call) and isinstance(x.func, ast.Attribute) and x.func.attr in ("append", "add", "update", "setdefault", "extend", "clear", "pop", "insert"):
                        tgt = x.func.value
                    if tgt is None:
                        continue
                    d = dotted(tgt) or ""
                    if scope == "module" and d == short and short not in fn.params and not _is_local(fn, short):
                        writers.append(fn)
                    if scope == "class" and d.endswith(f".{short}") and (d.startswith("cls.") or d.startswith(name.split('.')[0] + ".")):
                        writers.append(fn)
            if not writers:
                continue
            n += 1
            sub = f"{mod.relpath}:{name} ({scope}-level mutable, written by {sorted({w.qualname for w in writers})})"
            # is any writer reachable on the generation path? (name-based: is the writer's method called anywhere in the live set)
            called = False
            for w in writers:
                for mn2 in live:
                    for fn2 in repo.modules[mn2].functions.values():
                        if fn2 is w:
                            continue
                        if any((isinstance(c.func, ast.Attribute) and c.func.attr == w.name) or (isinstance(c.func, ast.Name) and c.func.id == w.name) for c in calls_in(fn2.node)):
                            called = True
            if called:
                rep.violation("R9.3", sub, f"{mod.name}|global-state|{name}",
                              "process-global mutable state is written on the generation path: a second generation in the same process can see the first one's data", f"{mod.relpath}:{node.lineno}")
            else:
                rep.ok("R9.3", sub, "no live caller reaches a writer of this state", f"{mod.relpath}:{node.lineno}")
    rep.count("R9.3:global_mutables_with_writers", n)


def _is_local(fn: Function, name: str) -> bool:
    for x in own_nodes(fn.node):
        if isinstance(x, ast.Assign) and any(isinstance(t, ast.Name) and t.id == name for t in x.targets):
            return True
        if isinstance(x, ast.AnnAssign) and isinstance(x.target, ast.Name) and x.target.id == name:
            return True
    return False


# ---------------------------------------------------------------------- R9.7b
def _idempotent_renames(repo: Repo, rep: Report) -> None:
    """Functions on the emit path that assign to IR name attributes (`op.operation_id = ...`) must follow the
    test / loop-until-free / record pattern, so that running them twice changes nothing (pattern check shared with R20.2)."""
    from rules.c20 import _dedup_site

    fn = repo.func("emitters.endpoints_emitter:EndpointsEmitter._deduplicate_operation_ids_globally")
    assigns = [n for n in own_nodes(fn.node) if isinstance(n, ast.Assign) and isinstance(n.targets[0], ast.Attribute) and n.targets[0].attr == "operation_id"]
    if not assigns:
        from sa.flatten import flatten as _fl97

        fn = _fl97(fn)  # the renaming was moved into a helper the method delegates to
        assigns = [n for n in own_nodes(fn.node) if isinstance(n, ast.Assign) and isinstance(n.targets[0], ast.Attribute) and n.targets[0].attr == "operation_id"]
    rep.require(bool(assigns), "R9.7: _deduplicate_operation_ids_globally no longer renames operation ids (anchor)")

    class _R:
        def ok(self, rule, sub, how, loc):
            rep.ok("R9.7", sub.replace("namespace `operation methods`", "idempotent rename"), "renames loop until the method name is unused and record the final name: a second pass changes nothing", loc)

        def violation(self, rule, sub, key, how, loc):
            rep.violation("R9.7", sub.replace("namespace `operation methods`", "idempotent rename"), key.replace("|dedup|", "|rename-not-idempotent|"),
                          "operation ids are renamed in place without re-testing / recording the new name: a second emit over the same IR renames again "
                          "and two operations can end up with the same method name (" + how + ")", loc)

    _dedup_site(fn, "operation methods", "seen method names", _R())


# ------------------------------------------------------------------------------------------------ R9.11 both operands of a relative path are normalised alike
def rule_relpath_operands_agree(repo: Repo, rep, rule: str = "R9.11") -> None:
    """Relative import paths are computed with os.path.relpath / Path.relative_to between the file being rendered and a package root.
    When one operand is made *physical* (`Path.resolve()` / `realpath`: symlinks followed) and the other only *lexical* (`abspath`),
    the two need not share a prefix: under a temporary directory reached through a symlink (compare-only generation renders into
    tempfile.TemporaryDirectory(); /tmp is a symlink on macOS) the result climbs out of the package and the rendered import differs from
    the one direct generation wrote - a re-run over unchanged input reports differences.  For every such call in RenderContext whose
    operands can both be traced to a normalising call, the two normalisers are of the same kind."""
    rc = repo.module("context.render_context")
    n_pairs = 0
    for q, fn in rc.functions.items():
        L = Locals(fn.node)

        def kind(e: ast.AST, depth: int = 0) -> Optional[str]:
            if depth > 8:
                return None
            if isinstance(e, ast.Call):
                d = dotted(e.func) or ""
                if d in ("os.path.abspath", "abspath", "os.path.normpath"):
                    return "lexical (abspath)"
                if d in ("os.path.realpath", "realpath"):
                    return "physical (resolve)"
                if isinstance(e.func, ast.Attribute) and e.func.attr == "resolve":
                    return "physical (resolve)"
                if isinstance(e.func, ast.Attribute) and e.func.attr == "absolute":
                    return "lexical (abspath)"
                if d in ("str", "os.fspath", "Path", "pathlib.Path", "os.path.dirname", "dirname") and e.args:
                    return kind(e.args[0], depth + 1)
                if d in ("os.path.join", "join") and e.args:
                    return kind(e.args[0], depth + 1)
                if isinstance(e.func, ast.Attribute) and e.func.attr in ("joinpath", "with_suffix", "with_name"):
                    return kind(e.func.value, depth + 1)
                return None
            if isinstance(e, ast.Attribute) and e.attr in ("parent",):
                return kind(e.value, depth + 1)
            if isinstance(e, ast.BinOp) and isinstance(e.op, (ast.Div, ast.Add)):
                return kind(e.left, depth + 1)
            if isinstance(e, ast.Name):
                ds = [v for k, v, _ in L.defs.get(e.id, []) if k != "param" and v is not None]
                ks = {kind(v, depth + 1) for v in ds}
                return ks.pop() if len(ks) == 1 else None
            return None

        for c in calls_in(fn.node):
            d = dotted(c.func) or ""
            if d in ("os.path.relpath", "relpath") and c.args:
                a = c.args[0]
                b = c.args[1] if len(c.args) > 1 else next((k.value for k in c.keywords if k.arg == "start"), None)
            elif isinstance(c.func, ast.Attribute) and c.func.attr in ("relative_to", "is_relative_to") and c.args:
                a, b = c.func.value, c.args[0]
            else:
                continue
            if b is None:
                continue
            ka, kb = kind(a), kind(b)
            if ka is None or kb is None:
                continue
            n_pairs += 1
            sub = f"{rc.relpath}:{q} `{norm(c)[:60]}`"
            if ka == kb:
                rep.ok(rule, sub, f"both operands are {ka}", fn.loc(c))
            else:
                rep.violation(rule, sub, f"{fn.fq}|relpath-mixed-normalisation|{norm(a)[:20]}|{norm(b)[:20]}",
                              f"`{norm(a)[:40]}` is {ka} but `{norm(b)[:40]}` is {kb}: below a directory reached through a symlink (the temporary tree of compare-only "
                              "generation) the relative path leaves the package, the rendered import differs from direct generation and an unchanged output is reported as different",
                              fn.loc(c))
    rep.require(n_pairs >= 3, f"{rule}: only {n_pairs} relative-path computations with traceable operands found in RenderContext (floor 3)")


# ------------------------------------------------------------------------------------------------ R9.13 nothing read from outside the process is memoised
_R913_EXAMPLE = '''
from functools import lru_cache
from pathlib import Path

def load(path):
    return copy.deepcopy(_parse(str(Path(path).resolve())))

@lru_cache(maxsize=16)
def _parse(path):
    return json.loads(Path(path).read_text())
'''
_MEMO_DECORATORS = {"lru_cache", "cache", "cached", "memoize"}
_OUTSIDE_READS = {"read_text", "read_bytes", "exists", "is_file", "is_dir", "stat", "iterdir", "glob", "rglob", "listdir", "getenv", "getmtime", "getsize", "walk", "scandir"}


def _reads_outside(fn_node: ast.AST, module_fns: Dict[str, ast.AST], depth: int = 2, seen: Optional[Set[str]] = None) -> Optional[ast.AST]:
    """First expression in the function (or in module-level helpers it calls, a few hops) that reads something outside the process:
    a file, a directory listing, a file's metadata, the environment, a URL."""
    seen = seen if seen is not None else set()
    for c in ast.walk(fn_node):
        if isinstance(c, ast.Call):
            d = dotted(c.func) or ""
            last = d.split(".")[-1] if d else (c.func.attr if isinstance(c.func, ast.Attribute) else "")
            if last in _OUTSIDE_READS or d == "open" or d.startswith(("httpx.", "requests.", "urllib.")) or d in ("os.getenv", "os.stat"):
                return c
            if depth > 0 and isinstance(c.func, ast.Name) and c.func.id in module_fns and c.func.id not in seen:
                seen.add(c.func.id)
                r = _reads_outside(module_fns[c.func.id], module_fns, depth - 1, seen)
                if r is not None:
                    return r
        if isinstance(c, ast.Attribute) and norm(c) == "os.environ":
            return c
    return None


def _memoised_outside_reads(tree: ast.AST):
    fns = {n.name: n for n in ast.walk(tree) if isinstance(n, (ast.FunctionDef, ast.AsyncFunctionDef))}
    out, n_memo = [], 0
    for name, fn in fns.items():
        decos = []
        for d in fn.decorator_list:
            t = d.func if isinstance(d, ast.Call) else d
            nm = (dotted(t) or "").split(".")[-1]
            if nm in _MEMO_DECORATORS:
                decos.append(d)
        if not decos:
            continue
        n_memo += 1
        r = _reads_outside(fn, fns)
        if r is not None:
            out.append((fn, decos[0], r))
    # `f = lru_cache(...)(g)` / `f = cache(g)` at module level
    for st in ast.walk(tree):
        if isinstance(st, ast.Assign) and isinstance(st.value, ast.Call):
            c = st.value
            inner = c.func.func if isinstance(c.func, ast.Call) else c.func
            nm = (dotted(inner) or "").split(".")[-1]
            if nm in _MEMO_DECORATORS and c.args and isinstance(c.args[0], ast.Name) and c.args[0].id in fns:
                n_memo += 1
                r = _reads_outside(fns[c.args[0].id], fns)
                if r is not None:
                    out.append((fns[c.args[0].id], c, r))
    return out, n_memo


def rule_no_memoised_outside_reads(repo: Repo, rep, rule: str = "R9.13", live: Optional[List[str]] = None) -> None:
    """A function whose result is memoised for the life of the process (functools.lru_cache / cache) answers the second call from the first
    call's result.  If it reads a file, a directory, the environment or a URL, a later generation in the same process does not see what is
    there now: the output depends on prior runs, a spec edited (or deleted) between two runs is compared as if unchanged, and the non-force
    run reports 'no differences' for an outdated tree."""
    hz, n = _memoised_outside_reads(ast.parse(_R913_EXAMPLE))
    rep.require(len(hz) == 1 and n == 1, f"{rule}: the built-in positive example is no longer recognised - the rule is broken")
    live = live if live is not None else repo.import_closure(["generator.client_generator", "core.spec_fetcher", "cli"])
    n_mod = n_memo = 0
    found = False
    for mn in live:
        mod = repo.modules[mn]
        n_mod += 1
        hz, n = _memoised_outside_reads(mod.tree)
        n_memo += n
        for fn, deco, read in hz:
            found = True
            rep.violation(rule, f"{mod.relpath}:{fn.name} memoised with `{norm(deco)[:40]}`", f"{mod.name}:{fn.name}|memoised-outside-read",
                          f"`{norm(read)[:60]}` is evaluated once per argument and process: a second generation in the same process (watch script, build daemon, test session) "
                          "works from the first run's reading - a spec file changed or removed in between yields the old client, and the non-force comparison reports no "
                          "differences / no failure", f"{mod.relpath}:{fn.lineno}")
    rep.count(f"{rule}:modules", n_mod)
    rep.count(f"{rule}:memoised_functions", n_memo)
    rep.require(n_mod >= 40, f"{rule}: only {n_mod} modules on the generation path analysed (floor 40)")
    if not found:
        rep.ok(rule, "functions on the generation path that are memoised per process", f"{n_memo} memoised function(s) in {n_mod} modules: none reads files, directories, the environment or URLs", "src/pyopenapi_gen:1")


# ------------------------------------------------------------------------------------------------ R9.4 a model of _show_diffs that does not depend on its spelling
def _show_diffs_model(repo: Repo):
    """What `_show_diffs(old_dir, new_dir)` does, read by role: which expressions are the file sets of the new / the old tree (a glob over the
    parameter - directly, through `sorted` / `set` / a comprehension, or through a helper defined inside the function that globs its argument),
    the loop over the new tree's files, the test that decides 'the old tree has no such file' (`.exists()` on a path below the old directory, or
    membership in the old tree's file set), the returned flag."""
    sd = repo.func("generator.client_generator:ClientGenerator._show_diffs")
    from sa.flatten import flatten as _fl94b

    sd = _fl94b(sd)
    SL = Locals(sd.node)
    sparams = [p for p in SL.params if p != "self"]
    if len(sparams) < 2:
        raise AnalysisError("anchor vanished: _show_diffs(old_dir, new_dir) signature")
    p_old, p_new = sparams[0], sparams[1]
    nested = {d.name: d for d in ast.walk(sd.node) if isinstance(d, (ast.FunctionDef, ast.AsyncFunctionDef)) and d is not sd.node}

    def globs_in(e: ast.AST):
        return [c for c in ast.walk(e) if isinstance(c, ast.Call) and ((isinstance(c.func, ast.Attribute) and c.func.attr in ("rglob", "glob", "iterdir")) or (dotted(c.func) or "") in ("os.walk", "os.listdir", "os.scandir"))]

    def tree_of(e: ast.AST, depth: int = 0) -> Set[str]:
        """{'new'} / {'old'} / both / empty: which tree's files the expression enumerates"""
        out: Set[str] = set()
        if depth > 6:
            return out
        for c in ast.walk(e):
            if isinstance(c, ast.Call):
                if c in globs_in(c):
                    names = set(names_in(SL.inline(c.func.value, stop=tuple(SL.params)))) if isinstance(c.func, ast.Attribute) else set()
                    names |= {x.id for a in c.args for x in ast.walk(a) if isinstance(x, ast.Name)}
                    if p_new in names:
                        out.add("new")
                    if p_old in names:
                        out.add("old")
                elif isinstance(c.func, ast.Name) and c.func.id in nested and globs_in(nested[c.func.id]):
                    an = {x.id for a in c.args for x in ast.walk(a) if isinstance(x, ast.Name)}
                    an |= {y for x in list(an) for y in names_in(SL.inline(ast.Name(id=x, ctx=ast.Load()), stop=tuple(SL.params)))}
                    if p_new in an:
                        out.add("new")
                    if p_old in an:
                        out.add("old")
            if isinstance(c, ast.Name) and c.id in SL.defs and c.id not in SL.params:
                for _, v, dn in SL.defs.get(c.id, []):
                    if v is None or v is e:
                        continue
                    # `a, b = f(x), f(y)`: the element that belongs to this name
                    if isinstance(dn, ast.Assign) and len(dn.targets) == 1 and isinstance(dn.targets[0], ast.Tuple) and isinstance(dn.value, ast.Tuple) \
                            and len(dn.targets[0].elts) == len(dn.value.elts):
                        for t_, v_ in zip(dn.targets[0].elts, dn.value.elts):
                            if isinstance(t_, ast.Name) and t_.id == c.id:
                                out |= tree_of(v_, depth + 1)
                        continue
                    out |= tree_of(v, depth + 1)
        return out

    return sd, SL, p_old, p_new, nested, globs_in, tree_of


def rule_show_diffs_model(repo: Repo, rep, rule: str = "R9.4") -> None:
    """(a) a file that would be generated now but is missing from the existing tree is a difference; (b) a content difference sets the returned
    flag; (c) the walk covers every generated file recursively; (d) a file that exists only in the existing tree (stale) is a difference."""
    sd, SL, p_old, p_new, nested, globs_in, tree_of = _show_diffs_model(repo)
    cfg = CFG(sd.node)
    flagvars = {norm(r.value) for r in own_nodes(sd.node) if isinstance(r, ast.Return) and r.value is not None}
    hdr = {n.id for n in cfg.nodes if n.kind == "iter"}

    def _exists_call(x: ast.AST) -> bool:
        return isinstance(x, ast.Call) and ((isinstance(x.func, ast.Attribute) and x.func.attr in ("exists", "is_file")) or (dotted(x.func) or "") in (
            "os.path.exists", "os.path.isfile"))

    def _sets_flag_after(m: int) -> bool:
        for nid in {m} | cfg.reachable_from_without(m, hdr):
            a = cfg.nodes[nid].ast
            if isinstance(a, ast.Assign) and norm(a.targets[0]) in flagvars and isinstance(a.value, ast.Constant) and a.value.value is True:
                return True
            if isinstance(a, ast.Return) and isinstance(a.value, ast.Constant) and a.value.value is True:
                return True
        return False

    new_loops = [lp for lp in own_nodes(sd.node) if isinstance(lp, ast.For) and "new" in tree_of(lp.iter) and "old" not in tree_of(lp.iter)]
    if not new_loops:
        raise AnalysisError(f"{rule}: the loop of _show_diffs over the files of the newly generated tree was not found (anchor)")
    lp = new_loops[0]
    inside = {id(x) for x in ast.walk(lp)}
    # (a) presence test inside the loop
    tests = []
    for n in cfg.nodes:
        if n.kind != "test" or n.ast is None or id(n.ast) not in inside:
            continue
        t = n.ast
        if any(_exists_call(x) for x in ast.walk(t)):
            tv = truthiness(t)
            exists_sense = True if tv is None else tv[1]
            tests.append((n, "false" if exists_sense else "true"))
        else:
            u, pol = t, True
            while isinstance(u, ast.UnaryOp) and isinstance(u.op, ast.Not):
                u, pol = u.operand, not pol
            if isinstance(u, ast.Compare) and len(u.ops) == 1 and isinstance(u.ops[0], (ast.In, ast.NotIn)) and "old" in tree_of(u.comparators[0]) and "new" not in tree_of(u.comparators[0]):
                present_when_true = isinstance(u.ops[0], ast.In) == pol
                tests.append((n, "false" if present_when_true else "true"))
    if not tests:
        raise AnalysisError(f"{rule}: _show_diffs no longer tests whether the existing counterpart of a generated file exists (anchor)")
    for n, missing_lab in tests[:1]:
        missing_succ = [m for m, lab in cfg.succ[n.id] if lab == missing_lab]
        sub = f"{sd.module.relpath}:_show_diffs missing counterpart"
        if any(_sets_flag_after(m) for m in missing_succ):
            rep.ok(rule, sub, "a newly generated file without an existing counterpart sets the difference flag", sd.loc(n.ast))
        else:
            rep.violation(rule, sub, f"{sd.fq}|one-sided-ignored",
                          "a file that would be generated now but is missing from the existing output is skipped: the run reports 'no differences'", sd.loc(n.ast))
    # (b) a content difference sets the flag
    diff_vars = {name for name, ds in SL.defs.items() for k, v, _ in ds if v is not None and any(
        isinstance(c, ast.Call) and (dotted(c.func) or "").split(".")[-1] in ("unified_diff", "ndiff", "context_diff") for c in ast.walk(v))}
    diffs = []
    for n in cfg.nodes:
        if n.kind != "test" or n.ast is None:
            continue
        tv = truthiness(n.ast)
        if tv is not None and isinstance(tv[0], ast.Name) and SL.root(tv[0].id) in diff_vars:
            diffs.append((n, "true" if tv[1] else "false"))
        elif isinstance(n.ast, ast.Compare) and len(n.ast.ops) == 1 and isinstance(n.ast.ops[0], (ast.NotEq, ast.Eq)) and not any(_exists_call(x) for x in ast.walk(n.ast)) \
                and any(isinstance(c, ast.Call) and isinstance(c.func, ast.Attribute) and c.func.attr in ("read_text", "read_bytes", "splitlines") for c in ast.walk(SL.inline(n.ast))):
            diffs.append((n, "true" if isinstance(n.ast.ops[0], ast.NotEq) else "false"))
    if not diffs:
        raise AnalysisError(f"{rule}: cannot find where _show_diffs tests the computed difference (anchor)")
    if any(_sets_flag_after(m) for t, lab_d in diffs for m, lab in cfg.succ[t.id] if lab == lab_d):
        rep.ok(rule, f"{sd.module.relpath}:_show_diffs content difference", "a content difference sets the flag that is returned", sd.loc())
    else:
        rep.violation(rule, f"{sd.module.relpath}:_show_diffs content difference", f"{sd.fq}|diff-flag", "a content difference does not set the returned flag", sd.loc())
    # (c) coverage: the new tree is walked recursively, for every file or at least every *.py
    walk_calls = [c for c in globs_in(sd.node) if True]
    new_walks = []
    for c in walk_calls:
        names = set(names_in(SL.inline(c.func.value, stop=tuple(SL.params)))) if isinstance(c.func, ast.Attribute) else set()
        in_nested = next((d for d in nested.values() if any(x is c for x in ast.walk(d))), None)
        if p_new in names or (in_nested is not None and any(isinstance(k, ast.Call) and isinstance(k.func, ast.Name) and k.func.id == in_nested.name and p_new in {
                y.id for a in k.args for y in ast.walk(a) if isinstance(y, ast.Name)} for k in ast.walk(sd.node))):
            new_walks.append(c)
    good = bool(new_walks) and all(isinstance(c.func, ast.Attribute) and c.func.attr == "rglob" and c.args and const_str(c.args[0]) in ("*.py", "*", "**/*") for c in new_walks)
    if good:
        rep.ok(rule, f"{sd.module.relpath}:_show_diffs coverage", f"walks the newly generated tree recursively (`{norm(new_walks[0])[:40]}`)", sd.loc(new_walks[0]))
    else:
        rep.violation(rule, f"{sd.module.relpath}:_show_diffs coverage", f"{sd.fq}|coverage",
                      f"the comparison no longer walks all generated files recursively ({[norm(g)[:50] for g in new_walks or walk_calls]})", sd.loc())
    # (d) "when the existing output differs from what would be generated now, the non-force run fails": a file that only the existing tree has
    stale = False
    for lp2 in [x for x in own_nodes(sd.node) if isinstance(x, ast.For)]:
        tr = tree_of(lp2.iter)
        if "old" in tr:
            for n in cfg.nodes:
                if n.kind == "stmt" and n.ast is not None and any(y is n.ast for y in ast.walk(lp2)) and isinstance(n.ast, ast.Assign) and norm(n.ast.targets[0]) in flagvars \
                        and isinstance(n.ast.value, ast.Constant) and n.ast.value.value is True:
                    stale = True
    sub_d = f"{sd.module.relpath}:_show_diffs file that only the existing tree has"
    if stale:
        rep.ok(rule, sub_d, "the existing tree is walked as well: a file that would not be generated now sets the flag", sd.loc())
    else:
        rep.violation(rule, sub_d, f"{sd.fq}|stale-files-ignored",
                      "only the newly generated tree is walked: a stale module left in the existing package (a model or endpoint module of a schema / tag that no longer exists, still importable) "
                      "is not a difference - the non-force run succeeds over an output that differs from what would be generated now", sd.loc())


# ------------------------------------------------------------------------------------------------ R9.4 (shared with C10 / C12): no generated file is left out of the comparison
def rule_show_diffs_compares_all(repo: Repo, rep, rule: str = "R9.4") -> None:
    """Every file of the newly generated tree is compared: the loop of _show_diffs runs over the walk result itself - not over a list from which
    generated files were filtered out (the exclusion of `__pycache__` is the one enumerated exception: byte-code caches are not generated) - and has no skip."""
    sd, SL, p_old, p_new, nested, globs_in, tree_of = _show_diffs_model(repo)
    cmp_loops = [lp for lp in own_nodes(sd.node) if isinstance(lp, ast.For) and "new" in tree_of(lp.iter) and "old" not in tree_of(lp.iter)]
    if not cmp_loops:
        raise AnalysisError(f"{rule}: the per-file comparison loop of _show_diffs was not found (anchor)")

    def _harmless_filter(cond: ast.AST) -> bool:
        return any(isinstance(c, ast.Constant) and c.value == "__pycache__" for c in ast.walk(cond)) and not any(isinstance(c, ast.Constant) and isinstance(c.value, str) and c.value != "__pycache__" for c in ast.walk(cond))

    skipped = None
    for lp in cmp_loops:
        seen: Set[int] = set()
        work = [lp.iter]
        while work:
            v = work.pop()
            if id(v) in seen:
                continue
            seen.add(id(v))
            for x in ast.walk(v):
                if isinstance(x, (ast.ListComp, ast.GeneratorExp, ast.SetComp)):
                    for g in x.generators:
                        for cond in g.ifs:
                            if not _harmless_filter(cond) and not (isinstance(cond, ast.Call) and isinstance(cond.func, ast.Attribute) and cond.func.attr in ("is_file",)):
                                skipped = skipped or (x, f"the compared files are a filtered list (`{norm(x)[:60]}`)")
                if isinstance(x, ast.Call) and isinstance(x.func, ast.Name) and x.func.id == "filter":
                    skipped = skipped or (x, f"the compared files are a filtered list (`{norm(x)[:60]}`)")
                if isinstance(x, ast.Name) and x.id in SL.defs and x.id not in SL.params:
                    work += [d for _, d, _ in SL.defs.get(x.id, []) if d is not None]
                if isinstance(x, ast.Call) and isinstance(x.func, ast.Name) and x.func.id in nested:
                    work += [r.value for r in ast.walk(nested[x.func.id]) if isinstance(r, ast.Return) and r.value is not None]
                    work += [a.value for a in ast.walk(nested[x.func.id]) if isinstance(a, ast.Assign)]

        def _own_jump(b: ast.AST) -> bool:
            q = parent(b)
            while q is not None and not isinstance(q, (ast.For, ast.AsyncFor, ast.While)):
                q = parent(q)
            return q is lp

        for x in ast.walk(lp):
            # `if <old content> == <new content>: continue` is the comparison itself, not a skip
            is_cmp = isinstance(x, ast.If) and isinstance(x.test, ast.Compare) and len(x.test.ops) == 1 and isinstance(x.test.ops[0], ast.Eq) and all(
                any(isinstance(c, ast.Call) and isinstance(c.func, ast.Attribute) and c.func.attr in ("read_bytes", "read_text", "splitlines") for c in ast.walk(SL.inline(side)))
                for side in (x.test.left, x.test.comparators[0]))
            if isinstance(x, ast.If) and any(isinstance(b, (ast.Continue, ast.Break)) and _own_jump(b) for b in x.body) and not _harmless_filter(x.test) and not is_cmp:
                skipped = skipped or (x, f"`{norm(x.test)[:60]}` skips files of the newly generated tree")
    if skipped:
        rep.violation(rule, f"{sd.module.relpath}:_show_diffs compares every generated file", f"{sd.fq}|files-left-out",
                      f"{skipped[1]}: a difference (or a missing / stale file) confined to the files that are left out goes unreported and the non-force run succeeds "
                      "over an output that differs from what would be generated", sd.loc(skipped[0]))
    else:
        rep.ok(rule, f"{sd.module.relpath}:_show_diffs compares every generated file", "the comparison loop runs over the walk result itself and skips nothing (byte-code caches aside)", sd.loc(cmp_loops[0]))
