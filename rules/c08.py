"""C08 - parsing terminates with balanced cycle-tracker state.

R8.1  enter/exit typestate on the CFG of every function that calls the tracker
R8.8  parsed_schemas only grows during a load (no del / pop / clear outside ParsingContext's reset API): tracker state and registry stay in step
R8.2  ownership of the tracker state (who may write recursion_depth / schema_stack / schema_states)
R8.3  every recursion cycle of the parser's call graph goes through the gate (_parse_schema)
R8.4  the gate bounds depth (increment before check; depth test dominates CONTINUE_PARSING)
R8.10 every default of the depth limit x frames per depth unit fits CPython's default recursion limit (placeholder before RecursionError)
R8.9  depth accounting: every path through enter changes recursion_depth by exactly +1, every path through exit by -1 (0 at depth 0)
R8.5  exit restores state (decrement, stack removal, IN_PROGRESS -> COMPLETED)
R8.6  build_schemas keeps its "every declared name is present" post-condition
"""
from __future__ import annotations

import ast
from typing import Dict, List, Optional, Set, Tuple

from sa.cfg import CFG, forward, witness_path
from sa.model import AnalysisError, Function, Repo, calls_in, const_str, dotted, norm, own_nodes
from sa.match import Locals, match
from sa.report import Report, with_flatten_fallback
from sa.resolve import CallGraph

ENTER = "unified_enter_schema"
EXIT = "unified_exit_schema"
STATE_ATTRS = {"recursion_depth", "schema_stack", "schema_states"}
UCD = "pyopenapi_gen.core.parsing.unified_cycle_detection"
CTX = "pyopenapi_gen.core.parsing.context"


def _callee_attr(call: ast.Call) -> Optional[str]:
    f = call.func
    if isinstance(f, ast.Attribute):
        return f.attr
    if isinstance(f, ast.Name):
        return f.id
    return None


def _events(node_ast: Optional[ast.AST]) -> List[Tuple[str, ast.Call]]:
    """enter/exit calls evaluated at a CFG node, in source order."""
    if node_ast is None:
        return []
    if isinstance(node_ast, ast.match_case):
        scan: List[ast.AST] = [node_ast.guard] if node_ast.guard is not None else []
    elif isinstance(node_ast, (ast.With, ast.AsyncWith)):
        scan = [i.context_expr for i in node_ast.items]
    elif isinstance(node_ast, ast.ExceptHandler):
        scan = []
    elif isinstance(node_ast, (ast.FunctionDef, ast.AsyncFunctionDef, ast.ClassDef)):
        scan = []
    else:
        scan = [node_ast]
    out = []
    for s in scan:
        for c in calls_in(s) if not isinstance(s, ast.Call) else [s] + calls_in(s):
            nm = _callee_attr(c)
            if nm == ENTER:
                out.append(("enter", c))
            elif nm == EXIT:
                out.append(("exit", c))
    # de-duplicate (calls_in on a Call root may return it twice)
    seen = set()
    uniq = []
    for k, c in sorted(out, key=lambda kc: (kc[1].lineno, kc[1].col_offset)):
        if id(c) not in seen:
            seen.add(id(c))
            uniq.append((k, c))
    return uniq


def typestate(fn: Function, rep: Report, rule: str = "R8.1") -> int:
    """Open-enter counting over all CFG paths incl. exceptional exits. Returns #obligations."""
    cfg = CFG(fn.node)
    LO, HI = -2, 3

    def transfer(node, state, label):
        # state = (open enters, known boolean flags): a local bound to a literal True/False and later tested bare decides its branch
        v, flags = state
        a = node.ast
        if node.kind == "test" and a is not None and label in ("true", "false"):
            t, sense = a, label == "true"
            while isinstance(t, ast.UnaryOp) and isinstance(t.op, ast.Not):
                t, sense = t.operand, not sense
            if isinstance(t, ast.Name) and t.id in dict(flags):
                return ((v, flags),) if dict(flags)[t.id] == sense else ()
            return ((v, flags),)
        if node.kind == "stmt" and isinstance(a, (ast.Assign, ast.AnnAssign, ast.AugAssign)):
            tgs = a.targets if isinstance(a, ast.Assign) else [a.target]
            names = {x.id for t in tgs for x in ast.walk(t) if isinstance(x, ast.Name)}
            if names:
                flags = frozenset((k, b) for k, b in flags if k not in names)
                if isinstance(a, (ast.Assign, ast.AnnAssign)) and len(names) == 1 and isinstance(getattr(a, "value", None), ast.Constant) and isinstance(a.value.value, bool):
                    flags = flags | {(next(iter(names)), a.value.value)}
        evs = _events(node.ast)
        if not evs:
            return ((v, flags),)
        post = v
        for k, _ in evs:
            post = post + 1 if k == "enter" else post - 1
        post = max(LO, min(HI, post))
        if label == "exc":
            # the exception may be raised before or after the tracker call took effect
            return ((v, flags), (post, flags))
        return ((post, flags),)

    states_f, wit_f = forward(cfg, (0, frozenset()), transfer)
    # project the flag component away for reporting (first witness per projected state)
    states = {k: {x[0] for x in vs} for k, vs in states_f.items()}
    wit = {}
    for (nid, st_), pred in wit_f.items():
        wit.setdefault((nid, st_[0]), None if pred is None else (pred[0], pred[1][0]))
    sub = f"{fn.module.relpath}:{fn.qualname}"
    n_obl = 0
    arg_texts: Set[str] = set()
    n_enter = n_exit = 0
    for c in calls_in(fn.node):
        k = _callee_attr(c)
        if k not in (ENTER, EXIT):
            continue
        n_enter += k == ENTER
        n_exit += k == EXIT
        # argument identity: the name argument is the first positional one
        if c.args:
            arg_texts.add(norm(c.args[0]))
    rep.count(f"{rule}:{fn.qualname}:enter_calls", n_enter)
    rep.count(f"{rule}:{fn.qualname}:exit_calls", n_exit)
    rep.count(f"{rule}:{fn.qualname}:cfg_nodes", len(cfg.nodes))
    if len(arg_texts) > 1:
        rep.violation(
            rule, f"{sub} tracker arguments", f"{fn.fq}|args-differ|{sorted(arg_texts)}",
            f"enter/exit are called with different name expressions {sorted(arg_texts)}: exit cannot undo the matching enter",
            fn.loc(),
        )
    else:
        rep.ok(rule, f"{sub} tracker arguments", f"all {n_enter + n_exit} tracker calls use the same name expression {sorted(arg_texts)}", fn.loc())
    n_obl += 1

    # (a) never below zero (an exit without a matching enter: depth under-counted afterwards)
    under = [(nd, v) for nd in cfg.nodes for v in states[nd.id] if isinstance(v, int) and v < 0]
    reported: Set[str] = set()
    for nd, v in under:
        # report at the node that made it negative: the predecessor state was >= 0
        p = wit.get((nd.id, v))
        if p is None or p[1] < 0:
            continue
        culprit = cfg.nodes[p[0]]
        path = [cfg.nodes[n].lineno for n, _ in witness_path(wit, nd.id, v) if cfg.nodes[n].kind not in ("entry", "join", "dispatch")]
        key = f"{fn.fq}|exit-without-open-enter|{norm(culprit.ast) if culprit.ast is not None else culprit.kind}"
        if key in reported:
            continue
        reported.add(key)
        rep.violation(
            rule, f"{sub} path to L{culprit.lineno}", key,
            f"exit_schema runs with no open enter on this path (double exit): depth is under-counted and the name "
            f"is popped early; path lines {_compress(path)}",
            fn.loc(culprit.ast or fn.node), path=path,
        )
    n_obl += 1
    if not reported:
        rep.ok(rule, f"{sub} never-below-zero", f"no path executes more exits than enters ({len(cfg.nodes)} CFG nodes)", fn.loc())

    # (b) balanced at every exit, normal and exceptional
    for term, label in ((cfg.exit, "normal exit"), (cfg.raise_exit, "exceptional exit")):
        vals = sorted(v for v in states[term])
        if not vals:
            continue
        bad = [v for v in vals if v > 0]
        n_obl += 1
        if not bad:
            if all(v == 0 for v in vals):
                rep.ok(rule, f"{sub} {label}", f"open-enter count is 0 on every path reaching the {label}", fn.loc())
            continue
        for v in bad:
            # one finding per last statement before the exit
            preds = {}
            for (n, val), pv in wit.items():
                pass
            wp = witness_path(wit, term, v)
            last = cfg.nodes[wp[-2][0]] if len(wp) >= 2 else cfg.nodes[term]
            path = [cfg.nodes[n].lineno for n, _ in wp if cfg.nodes[n].kind not in ("entry", "join", "dispatch", "exit", "raise_exit")]
            key = f"{fn.fq}|open-enter-at-{label.split()[0]}|{norm(last.ast) if last.ast is not None else last.kind}"
            rep.violation(
                rule, f"{sub} {label}", key,
                f"{v} enter(s) still open at the {label}: recursion_depth stays > 0 and the name stays on the stack; "
                f"path lines {_compress(path)}",
                fn.loc(last.ast or fn.node), path=path,
            )
    # every individual return/raise statement: list them as analysed
    rets = [n for n in own_nodes(fn.node) if isinstance(n, (ast.Return, ast.Raise))]
    rep.count(f"{rule}:{fn.qualname}:return_raise_statements", len(rets))
    return n_obl


def _compress(lines: List[int]) -> str:
    out: List[int] = []
    for l in lines:
        if not out or out[-1] != l:
            out.append(l)
    if len(out) > 14:
        out = out[:6] + [-1] + out[-7:]
    return "[" + ",".join("..." if x == -1 else str(x) for x in out) + "]"


def run(repo: Repo, rep: Report, tier: str) -> None:
    from sa.report import guarded as _guarded

    live = set(repo.import_closure(["generator.client_generator"]))
    rep.count("live_modules", len(live))

    # ---------------------------------------------------------------- R8.1
    subjects: List[Function] = []
    for fn in repo.all_functions():
        if fn.module.name not in live:
            continue
        if fn.module.name == UCD and fn.name in (ENTER, EXIT):
            continue
        if fn.module.name == CTX and fn.name in (ENTER, EXIT):
            continue
        evs = [c for c in calls_in(fn.node) if _callee_attr(c) in (ENTER, EXIT)]
        if evs:
            subjects.append(fn)
    rep.count("R8.1:functions_using_tracker", [f.fq for f in subjects])
    gate = repo.func("core.parsing.schema_parser:_parse_schema")
    rep.require(any(f is gate for f in subjects), "R8.1: _parse_schema no longer calls the cycle tracker (anchor vanished)")
    # A private helper (or context manager) of the same module that performs part of the bookkeeping is analysed *inside* its callers:
    # the caller is examined with that helper written out (sa/flatten.py); the helper on its own is then not a subject - its enter/exit
    # calls are only half of a pair.
    from sa.flatten import flatten as _fl81

    helper_names = {f.name for f in subjects}
    flat = {f.fq: _fl81(f, select=lambda h: h.name in helper_names) for f in subjects}
    inlined_into: Dict[str, List[str]] = {}
    for f in subjects:
        if flat[f.fq] is f:
            continue
        before = {(c.func.id if isinstance(c.func, ast.Name) else c.func.attr if isinstance(c.func, ast.Attribute) else None) for c in calls_in(f.node)}
        after = {(c.func.id if isinstance(c.func, ast.Name) else c.func.attr if isinstance(c.func, ast.Attribute) else None) for c in calls_in(flat[f.fq].node)}
        for hn in (before - after) & helper_names:
            inlined_into.setdefault(hn, []).append(f.qualname)
    for fn in subjects:
        callers = [c for g in repo.all_functions() if g.module is fn.module and g is not fn for c in calls_in(g.node)
                   if (isinstance(c.func, ast.Name) and c.func.id == fn.name) or (isinstance(c.func, ast.Attribute) and c.func.attr == fn.name)]
        if fn.name in inlined_into and callers and fn is not gate:
            rep.ok("R8.1", f"{fn.module.relpath}:{fn.qualname}", f"bookkeeping helper: analysed written out inside {sorted(set(inlined_into[fn.name]))}", fn.loc())
            continue
        typestate(flat[fn.fq], rep)

    # wrappers in ParsingContext delegate on every path
    ctx_cls = repo.cls("core.parsing.context:ParsingContext")
    for wname in (ENTER, EXIT):
        w = ctx_cls.methods.get(wname)
        if w is None:
            raise AnalysisError(f"anchor vanished: ParsingContext.{wname}")
        cfg = CFG(w.node)
        deleg = {n.id for n in cfg.nodes if n.ast is not None and n.kind == "stmt"
                 and any(isinstance(c.func, ast.Name) and c.func.id == wname for c in calls_in(n.ast))}
        path = cfg.must_pass(cfg.entry, deleg)
        sub = f"{w.module.relpath}:{w.qualname}"
        if path is None and deleg:
            rep.ok("R8.1", f"{sub} delegates", f"every path calls {UCD.split('.')[-1]}.{wname}", w.loc())
        else:
            rep.violation("R8.1", f"{sub} delegates", f"{w.fq}|no-delegate",
                          f"a path through the wrapper does not call {wname}: {cfg.describe_path(path or [])}", w.loc())

    _guarded(rep, rule_registry_monotone, repo, rep, "R8.8")
    # ---------------------------------------------------------------- R8.2 state ownership
    allowed_writers = {
        f"{UCD}:unified_cycle_check": "the gate itself",
        f"{UCD}:unified_enter_schema": "the gate itself",
        f"{UCD}:unified_exit_schema": "the gate itself",
        f"{CTX}:ParsingContext.unified_enter_schema": "mirrors tracker fields into legacy attributes of self",
        f"{CTX}:ParsingContext.unified_exit_schema": "mirrors tracker fields into legacy attributes of self",
        f"{CTX}:ParsingContext.clear_cycle_state": "explicit reset API",
        f"{CTX}:ParsingContext.reset_for_new_parse": "explicit reset API",
        f"{CTX}:ParsingContext.enter_schema": "legacy tracker on self.* (not the unified context)",
        f"{CTX}:ParsingContext.exit_schema": "legacy tracker on self.* (not the unified context)",
        f"{CTX}:ParsingContext.__post_init__": "construction",
    }
    # _parse_schema's RETURN_EXISTING re-parse branch resets the state of *its own* name; it is covered by
    # R8.1's counting (the depth) - allowed only for schema_states/schema_stack keyed by its own name argument.
    n_writes = 0
    for fn in repo.all_functions():
        if fn.module.name not in live:
            continue
        for n in own_nodes(fn.node):
            tgt_attr = None
            what = None
            if isinstance(n, (ast.Assign, ast.AugAssign, ast.AnnAssign)):
                tgts = n.targets if isinstance(n, ast.Assign) else [n.target]
                for t in tgts:
                    base = t.value if isinstance(t, ast.Subscript) else t
                    if isinstance(base, ast.Attribute) and base.attr in STATE_ATTRS:
                        tgt_attr, what = base.attr, n
            elif isinstance(n, ast.Call) and isinstance(n.func, ast.Attribute) and n.func.attr in (
                "append", "remove", "clear", "pop", "add", "insert", "extend", "update", "discard", "setdefault"):
                base = n.func.value
                if isinstance(base, ast.Attribute) and base.attr in STATE_ATTRS:
                    tgt_attr, what = base.attr, n
            elif isinstance(n, ast.Delete):
                for t in n.targets:
                    base = t.value if isinstance(t, ast.Subscript) else t
                    if isinstance(base, ast.Attribute) and base.attr in STATE_ATTRS:
                        tgt_attr, what = base.attr, n
            if tgt_attr is None:
                continue
            n_writes += 1
            sub = f"{fn.module.relpath}:{fn.qualname} writes {tgt_attr}"
            # ownership is by unit: the tracker module and the ParsingContext class own the state (their private helpers included)
            owner_unit = fn.module.name.endswith(UCD) or (fn.cls is not None and fn.cls.name == "ParsingContext" and fn.module.name.endswith(CTX))
            if fn.fq in allowed_writers or owner_unit:
                rep.ok("R8.2", sub, f"allowed writer: {allowed_writers.get(fn.fq, 'part of the tracker module / ParsingContext')}", fn.loc(what))
            elif (fn is gate or (fn.module is gate.module and gate.qualname in inlined_into.get(fn.name, []))) and tgt_attr in ("schema_states", "schema_stack") \
                    and any(isinstance(x, ast.Name) and x.id in fn.params for x in ast.walk(what.targets[0].slice if isinstance(what, ast.Assign) and isinstance(what.targets[0], ast.Subscript) else what)):
                rep.ok("R8.2", sub, "re-parse branch of the gate, keyed by its own name argument (depth is covered by R8.1)", fn.loc(what))
            else:
                rep.violation("R8.2", sub, f"{fn.fq}|writes|{tgt_attr}|{norm(what)}",
                              f"cycle-tracker state `{tgt_attr}` is written outside the tracker: `{norm(what)}` "
                              f"(enter/exit balance proven by R8.1 no longer describes the real depth/stack)", fn.loc(what))
    rep.count("R8.2:tracker_state_write_sites", n_writes)
    rep.require(n_writes >= 8, f"R8.2: only {n_writes} tracker-state write sites found (confirmed floor 8)")

    # ---------------------------------------------------------------- R8.3 recursion goes through the gate
    parse_mods = sorted(m for m in live if m.startswith("pyopenapi_gen.core.parsing") or m.startswith("pyopenapi_gen.core.loader"))
    cg = CallGraph(repo, parse_mods, by_name=True)
    rep.count("R8.3:functions", len(cg.funcs))
    rep.count("R8.3:edges", len(cg.edges))
    rep.require(len(cg.funcs) >= 40, f"R8.3: parser call graph has only {len(cg.funcs)} functions (floor 40)")
    n_cyc = 0
    for comp in cg.sccs():
        nontrivial = len(comp) > 1 or comp[0] in cg.succ[comp[0]]
        if not nontrivial:
            continue
        n_cyc += 1
        names = sorted(c.split(":")[1] for c in comp)
        if gate.fq in comp:
            # the cycle must not survive removal of the gate: every cycle passes through it
            sub_succ = {k: {x for x in v if x != gate.fq and x in comp} for k, v in cg.succ.items() if k in comp and k != gate.fq}
            cyc = _find_cycle(sub_succ)
            if cyc:
                rep.violation("R8.3", f"recursion {' -> '.join(c.split(':')[1] for c in cyc)}",
                              f"cycle-bypasses-gate|{'>'.join(sorted(cyc))}",
                              "a recursion cycle in the parser does not pass through _parse_schema (no depth/cycle check on it)",
                              cg.funcs[cyc[0]].loc())
            else:
                rep.ok("R8.3", f"SCC of {len(comp)} functions", f"every cycle passes through _parse_schema: {names}", gate.loc())
        else:
            # recursion over already-built IR (finite, acyclic by construction?) is not gated: list & require reason
            rep.violation("R8.3", f"recursion {names}", f"cycle-without-gate|{'>'.join(sorted(comp))}",
                          "a recursion cycle among parser/loader functions does not include _parse_schema", cg.funcs[comp[0]].loc())
    rep.count("R8.3:recursive_components", n_cyc)
    rep.require(n_cyc >= 1, "R8.3: no recursion found at all in the parser (resolution broken?)")

    ucd = repo.module(UCD)
    def _r84_enter(enter: Function, rep) -> None:
        # ---------------------------------------------------------------- R8.4 the gate bounds depth
        cfg = CFG(enter.node)
        inc = [n.id for n in cfg.nodes if n.kind == "stmt" and n.ast is not None and match("ANY_c.recursion_depth += 1", n.ast) is not None]
        chk = [n.id for n in cfg.nodes if n.ast is not None and n.kind == "stmt" and
               any(_callee_attr(c) == "unified_cycle_check" for c in calls_in(n.ast))]
        dom = cfg.dominators()
        if inc and chk and all(any(i in dom[c] for i in inc) for c in chk):
            rep.ok("R8.4", f"{ucd.relpath}:{ENTER} increment-before-check", "recursion_depth += 1 dominates the call of unified_cycle_check", enter.loc())
        else:
            rep.violation("R8.4", f"{ucd.relpath}:{ENTER} increment-before-check", f"{enter.fq}|increment-before-check",
                          "the depth increment does not dominate the cycle/depth check: the limit is never reached or is off", enter.loc())
        # push only when continuing
        push = [n for n in cfg.nodes if n.ast is not None and n.kind == "stmt" and any(
            isinstance(c.func, ast.Attribute) and c.func.attr == "append" and isinstance(c.func.value, ast.Attribute)
            and c.func.value.attr == "schema_stack" for c in calls_in(n.ast))]
        okp = bool(push)
        for p in push:
            guards = [cfg.nodes[d] for d in dom[p.id] if cfg.nodes[d].kind == "test"]
            if not any("CONTINUE_PARSING" in norm(Locals(enter.node).inline(g.ast)) for g in guards):
                okp = False
        if okp:
            rep.ok("R8.4", f"{ucd.relpath}:{ENTER} push-only-on-continue", "schema_stack.append is guarded by action == CONTINUE_PARSING", enter.loc())
        else:
            rep.violation("R8.4", f"{ucd.relpath}:{ENTER} push-only-on-continue", f"{enter.fq}|push-guard",
                          "schema_stack push is not guarded by CONTINUE_PARSING (placeholders would be left on the stack)", enter.loc())


    with_flatten_fallback(rep, ucd.func(ENTER), _r84_enter)

    # R8.9: depth accounting - the depth equals the number of open enters.  Along every path through enter (the cycle check written out)
    # the net change of recursion_depth is +1; along every path through exit it is -1 (0 only where depth is already 0).  A path of
    # enter that gives the unit back while its caller still calls exit under-counts the nesting: the limit is reached late or never.
    from sa.flatten import flatten as _fl89

    def _net_deltas(fn: Function) -> Dict[int, str]:
        f2 = _fl89(fn)
        cfg = CFG(f2.node)

        def tr(node, v, lab):
            d = v
            if node.kind == "stmt" and isinstance(node.ast, ast.AugAssign) and isinstance(node.ast.target, ast.Attribute) and node.ast.target.attr == "recursion_depth" \
                    and isinstance(node.ast.value, ast.Constant) and isinstance(node.ast.value.value, int):
                k = node.ast.value.value
                d = v + k if isinstance(node.ast.op, ast.Add) else v - k if isinstance(node.ast.op, ast.Sub) else v
            elif node.kind == "stmt" and isinstance(node.ast, ast.Assign) and any(isinstance(t, ast.Attribute) and t.attr == "recursion_depth" for t in node.ast.targets):
                val = node.ast.value
                # `x.recursion_depth = x.recursion_depth + 1` is the same counter step
                if isinstance(val, ast.BinOp) and isinstance(val.op, (ast.Add, ast.Sub)) and isinstance(val.left, ast.Attribute) and val.left.attr == "recursion_depth" \
                        and isinstance(val.right, ast.Constant) and isinstance(val.right.value, int):
                    d = v + val.right.value if isinstance(val.op, ast.Add) else v - val.right.value
                elif isinstance(val, ast.Call) and dotted(val.func) == "max" and len(val.args) == 2 and any(
                        isinstance(a, ast.BinOp) and isinstance(a.op, ast.Sub) and isinstance(a.left, ast.Attribute) and a.left.attr == "recursion_depth" for a in val.args):
                    d = v - 1  # `max(0, depth - 1)`: the clamped decrement
                else:
                    d = 99  # overwritten: not a counter step
            if abs(d) > 5 and d != 99:
                return []
            return [d]

        states, wit = forward(cfg, 0, tr)
        out: Dict[int, str] = {}
        for v in sorted(states[cfg.exit]):
            path = [cfg.nodes[n] for n, _ in witness_path(wit, cfg.exit, v)]
            out[v] = " -> ".join(f"L{n.ast.lineno}" for n in path if n.ast is not None and hasattr(n.ast, "lineno"))[-160:]
        return out

    for fname, want, label in ((ENTER, {1}, "+1"), (EXIT, {-1, 0}, "-1 (0 where the depth is already 0)")):
        fn89 = ucd.func(fname)
        ds = _net_deltas(fn89)
        sub = f"{ucd.relpath}:{fname} net change of recursion_depth"
        if not ds:
            rep.error(f"R8.9: no normal exit of {fname} reached by the depth-accounting dataflow")
        elif set(ds) <= want and (fname != EXIT or -1 in ds):
            rep.ok("R8.9", sub, f"{label} on every path ({sorted(ds)})", fn89.loc())
        else:
            badv = sorted(set(ds) - want)[0] if set(ds) - want else sorted(ds)[0]
            rep.violation("R8.9", sub, f"{fn89.fq}|depth-accounting|{sorted(ds)}",
                          f"a path through {fname} changes recursion_depth by {badv:+d} (expected {label}): {ds[badv]} - the depth no longer equals the number of open "
                          "enters, so the configured limit is reached too late (or never: RecursionError on deep documents) or too early", fn89.loc())

    def _r84_check(check: Function, rep) -> None:
        cfg = CFG(check.node)
        dom = cfg.dominators()
        def _depth_limit(t: ast.AST) -> Optional[ast.AST]:
            """`<ctx>.recursion_depth > L`, `>= L`, `L < <ctx>.recursion_depth`, `L <= ...` -> L"""
            for pt in ("ANY_c.recursion_depth > ANY_l", "ANY_c.recursion_depth >= ANY_l", "ANY_c.recursion_depth <= ANY_l", "ANY_c.recursion_depth < ANY_l"):
                m = match(pt, t)
                if m is not None and not any(isinstance(x, ast.Attribute) and x.attr == "recursion_depth" for x in ast.walk(m["ANY_l"])):
                    return m["ANY_l"]
            return None

        def _exceeded_label(t: ast.AST) -> str:
            """the branch of the depth test on which the limit is exceeded"""
            return "true" if (match("ANY_c.recursion_depth > ANY_l", t) is not None or match("ANY_c.recursion_depth >= ANY_l", t) is not None) else "false"

        depth_tests = [n for n in cfg.nodes if n.kind == "test" and _depth_limit(n.ast) is not None]
        rets_continue = [n for n in cfg.nodes if isinstance(n.ast, ast.Return) and "CONTINUE_PARSING" in norm(n.ast)]
        rep.count("R8.4:continue_returns", len(rets_continue))
        rep.require(len(rets_continue) >= 1, "R8.4: unified_cycle_check has no CONTINUE_PARSING return (anchor vanished)")
        if not depth_tests:
            rep.violation("R8.4", f"{ucd.relpath}:unified_cycle_check depth test", f"{check.fq}|no-depth-test",
                          "no `recursion_depth > limit` test: recursion depth is unbounded", check.loc())
        else:
            T = depth_tests[0]
            # true branch never continues parsing
            true_succ = [m for m, lab in cfg.succ[T.id] if lab == _exceeded_label(T.ast)]
            reach_true: Set[int] = set()
            for m in true_succ:
                reach_true |= cfg.reachable(m)
            bad = [r for r in rets_continue if r.id in reach_true]
            if bad:
                rep.violation("R8.4", f"{ucd.relpath}:unified_cycle_check depth-exceeded branch", f"{check.fq}|depth-branch-continues",
                              "the depth-exceeded branch can return CONTINUE_PARSING", check.loc(bad[0].ast))
            else:
                rep.ok("R8.4", f"{ucd.relpath}:unified_cycle_check depth-exceeded branch", "the `recursion_depth > max_depth` branch returns a placeholder action on every path", check.loc(T.ast))
            for r in rets_continue:
                guards = [cfg.nodes[d] for d in dom[r.id] if cfg.nodes[d].kind == "test"]
                CL = Locals(check.node)
                anon = any((m := match("VAR_p is None", g.ast)) is not None and CL.is_param(m["VAR_p"]) for g in guards) and T.id not in dom[r.id]
                sub = f"{ucd.relpath}:unified_cycle_check return L{r.lineno}"
                if T.id in dom[r.id]:
                    rep.ok("R8.4", sub, "depth test dominates this CONTINUE_PARSING return", check.loc(r.ast))
                elif anon:
                    # the tracker lets anonymous schemas through unchecked: then the gate itself must cut them at the limit (inline compositions and
                    # additionalProperties values nest as deep as the document does - "however deeply they nest")
                    why = _gate_bounds_anonymous(repo)
                    if why is None:
                        rep.ok("R8.4", sub, "anonymous schema (name is None): not depth-checked here, but _parse_schema returns a depth placeholder for every anonymous non-$ref "
                               "node beyond the limit before it descends", check.loc(r.ast))
                    else:
                        rep.violation("R8.4", sub, f"{check.fq}|anonymous-schemas-unbounded",
                                      f"a schema without a name continues without any depth test, and {why}: inline oneOf / anyOf / allOf members and additionalProperties values nested a few "
                                      "hundred levels deep exhaust the interpreter stack (RecursionError) instead of being cut by a placeholder at the depth limit", check.loc(r.ast))
                else:
                    rep.violation("R8.4", sub, f"{check.fq}|continue-without-depth-test",
                                  "a CONTINUE_PARSING return is reachable without passing the depth test", check.loc(r.ast))
            # the limit compared against must come from max_depth / PYOPENAPI_MAX_DEPTH
            lim = Locals(check.node).inline(_depth_limit(T.ast))  # type: ignore[arg-type]
            from_config = any(isinstance(x, ast.Attribute) and x.attr == "max_depth" for x in ast.walk(lim)) or any(
                isinstance(x, ast.Constant) and x.value == "PYOPENAPI_MAX_DEPTH" for x in ast.walk(lim))
            if from_config:
                rep.ok("R8.4", f"{ucd.relpath}:unified_cycle_check limit source", "compared against max_depth (env PYOPENAPI_MAX_DEPTH / context.max_depth)", check.loc(T.ast))
            else:
                rep.violation("R8.4", f"{ucd.relpath}:unified_cycle_check limit source", f"{check.fq}|limit-source",
                              "depth is not compared against the configured max_depth", check.loc(T.ast))


    with_flatten_fallback(rep, ucd.func("unified_cycle_check"), _r84_check)

    def _r85(ex: Function, rep) -> None:
        # ---------------------------------------------------------------- R8.5 exit restores state
        cfg = CFG(ex.node)
        dec = {n.id for n in cfg.nodes if n.kind == "stmt" and n.ast is not None and match("ANY_c.recursion_depth -= 1", n.ast) is not None}
        # allowed bypass: the false edge of a test on recursion_depth itself (already 0)
        bypass_tests = {n.id for n in cfg.nodes if n.kind == "test" and "recursion_depth" in norm(n.ast)}
        saved = {t: list(cfg.succ[t]) for t in bypass_tests}
        for t in bypass_tests:
            cfg.succ[t] = [(m, lab) for m, lab in cfg.succ[t] if lab != "false"]
        p = cfg.must_pass(cfg.entry, dec)
        for t in bypass_tests:
            cfg.succ[t] = saved[t]
        if dec and p is None:
            rep.ok("R8.5", f"{ucd.relpath}:{EXIT} decrement", "recursion_depth -= 1 on every path (only bypass: depth already 0)", ex.loc())
        else:
            rep.violation("R8.5", f"{ucd.relpath}:{EXIT} decrement", f"{ex.fq}|decrement",
                          f"a path through exit does not decrement recursion_depth: {cfg.describe_path(p or [])}", ex.loc())
        XL = Locals(ex.node)

        def _is_attr(e: ast.AST, attr: str) -> bool:
            """`<ctx>.<attr>` directly or through a local alias (`open_names = context.schema_stack`)"""
            ei = XL.inline(e, stop=tuple(XL.params))
            if isinstance(ei, ast.Name):  # a mutated alias is not inlined: look at its single binding
                ds = XL.defs.get(ei.id, [])
                if len(ds) == 1 and ds[0][1] is not None:
                    ei = ds[0][1]
            return isinstance(ei, ast.Attribute) and ei.attr == attr

        rem = [n for n in cfg.nodes if n.ast is not None and n.kind == "stmt" and any(
            isinstance(c.func, ast.Attribute) and c.func.attr in ("remove", "pop") and _is_attr(c.func.value, "schema_stack") for c in calls_in(n.ast))]
        if rem:
            rep.ok("R8.5", f"{ucd.relpath}:{EXIT} stack removal", "the name is removed from schema_stack", ex.loc(rem[0].ast))
        else:
            rep.violation("R8.5", f"{ucd.relpath}:{EXIT} stack removal", f"{ex.fq}|stack-removal",
                          "exit does not remove the name from schema_stack: later references are reported as cycles", ex.loc())
        comp = [n for n in cfg.nodes if isinstance(n.ast, ast.Assign) and "COMPLETED" in norm(n.ast.value) and (
            "schema_states" in norm(n.ast.targets[0]) or (isinstance(n.ast.targets[0], ast.Subscript) and _is_attr(n.ast.targets[0].value, "schema_states")))]
        guarded = False
        if comp:
            dom = cfg.dominators()
            guards = [cfg.nodes[d] for d in dom[comp[0].id] if cfg.nodes[d].kind == "test"]
            guarded = any("IN_PROGRESS" in norm(g.ast) for g in guards)
        # ... and on nothing else: in particular not on the name still being on the stack (a re-parse marks the schema IN_PROGRESS without
        # pushing it; its exit must still complete it)
        extra_guard = None
        if comp:
            from sa.cfg import guards as _guards

            for g, pol in _guards(cfg, comp[0].id, dom):
                if g.kind == "test" and pol is not None and any(isinstance(x, ast.Attribute) and x.attr in ("schema_stack", "recursion_depth") for x in ast.walk(g.ast)):
                    extra_guard = g
        if comp and guarded and extra_guard is not None:
            rep.violation("R8.5", f"{ucd.relpath}:{EXIT} terminal state", f"{ex.fq}|terminal-state-conditional",
                          f"IN_PROGRESS -> COMPLETED happens only when `{norm(extra_guard.ast)[:60]}` allows it: a schema that was re-entered without a stack frame "
                          "stays IN_PROGRESS for ever (non-terminal state, later references look like cycles)", ex.loc(extra_guard.ast))
        elif comp and guarded:
            rep.ok("R8.5", f"{ucd.relpath}:{EXIT} terminal state", "IN_PROGRESS -> COMPLETED on exit (placeholder states untouched)", ex.loc(comp[0].ast))
        else:
            rep.violation("R8.5", f"{ucd.relpath}:{EXIT} terminal state", f"{ex.fq}|terminal-state",
                          "exit does not move IN_PROGRESS to COMPLETED: schemas stay non-terminal / re-entrant refs look like cycles", ex.loc())


    with_flatten_fallback(rep, ucd.func(EXIT), _r85)

    _registration_rules(repo, rep)

    def _r86(bs: Function, rep) -> None:
        # ---------------------------------------------------------------- R8.6 post-condition
        cfg = CFG(bs.node)
        parse_nodes = {n.id for n in cfg.nodes if n.ast is not None and n.kind == "stmt" and any(_callee_attr(c) == "_parse_schema" for c in calls_in(n.ast))}
        BL = Locals(bs.node)
        dom = cfg.dominators()

        def mentions_membership(e: ast.AST) -> bool:
            ei = BL.inline(e)
            return any(isinstance(x, ast.Compare) and isinstance(x.ops[0], (ast.In, ast.NotIn)) and any(
                isinstance(y, ast.Attribute) and y.attr == "parsed_schemas" for y in ast.walk(x.comparators[0])) for x in ast.walk(ei))

        # the checking test: a test about membership in parsed_schemas (directly, through a temporary, a comprehension or next(...)) one of
        # whose branches raises
        raise_nodes = []
        check_points = set()
        for n in cfg.nodes:
            if isinstance(n.ast, ast.Raise) and not n.copy:
                tests = [cfg.nodes[d] for d in dom[n.id] if cfg.nodes[d].kind == "test"]
                hit = [t for t in tests if mentions_membership(t.ast)]
                if hit:
                    raise_nodes.append(n)
                    t = hit[-1]
                    hdr = [d for d in dom[t.id] if cfg.nodes[d].kind == "iter" and t.stmt is not None and any(y is t.stmt for y in ast.walk(cfg.nodes[d].stmt))]
                    check_points |= set(hdr) if hdr else {t.id}
        rep.require(bool(parse_nodes), "R8.6: build_schemas no longer calls _parse_schema (anchor vanished)")
        ok6 = False
        if raise_nodes:
            # every path from a parse call (and from the entry) to the exit visits the check
            parse_loop_hdrs = {d for pn in parse_nodes for d in dom[pn] if cfg.nodes[d].kind == "iter"}
            pts = check_points - parse_loop_hdrs
            ok6 = bool(pts) and all(cfg.must_pass(pn, pts) is None for pn in parse_nodes) and cfg.must_pass(cfg.entry, pts) is None
        if ok6:
            rep.ok("R8.6", f"{bs.module.relpath}:build_schemas post-condition", "every path to the return runs the `not in parsed_schemas -> raise` loop over raw_schemas", bs.loc(raise_nodes[0].ast))
        else:
            rep.violation("R8.6", f"{bs.module.relpath}:build_schemas post-condition", f"{bs.fq}|postcondition",
                          "build_schemas can return without checking that every declared schema name was registered", bs.loc())



    with_flatten_fallback(rep, repo.func("core.loader.schemas.extractor:build_schemas"), _r86)
    _guarded(rep, rule_default_limit_fits_stack, repo, rep, "R8.10")

def _registration_rules(repo: Repo, rep: Report) -> None:
    """R8.7: every declared schema ends up registered (rules of C02/R2.6: registration on the way out of _parse_schema, no vetoing flag
    raised before the decision)."""
    from rules._reuse import reuse

    reuse(repo, rep, "c02", {"R2.6": "R8.7"})


def _find_cycle(succ: Dict[str, Set[str]]) -> Optional[List[str]]:
    WHITE, GREY, BLACK = 0, 1, 2
    col = {k: WHITE for k in succ}
    for root in sorted(succ):
        if col[root] != WHITE:
            continue
        stack = [(root, iter(sorted(succ[root])))]
        col[root] = GREY
        path = [root]
        while stack:
            v, it = stack[-1]
            nxt = next(it, None)
            if nxt is None:
                col[v] = BLACK
                stack.pop()
                path.pop()
                continue
            if nxt not in col:
                continue
            if col[nxt] == GREY:
                return path[path.index(nxt):] + [nxt]
            if col[nxt] == WHITE:
                col[nxt] = GREY
                stack.append((nxt, iter(sorted(succ.get(nxt, ())))))
                path.append(nxt)
    return None


# ------------------------------------------------------------------------------------------------ R8.8 the registry only grows while parsing
def rule_registry_monotone(repo: Repo, rep, rule: str = "R8.8") -> None:
    """The gate answers RETURN_PLACEHOLDER / RETURN_EXISTING from the tracker's *state* of a name and the parser then fetches
    `parsed_schemas[name]`.  State and registry stay in step only if nothing removes a registry entry while a load is in progress:
    in the loader and parsing packages `parsed_schemas` is never deleted from / popped / cleared (the reset API of ParsingContext excepted)."""
    n_fn = 0
    bad = []
    for fn in repo.all_functions():
        mn = "." + fn.module.name + "."
        if ".core.parsing." not in mn and ".core.loader." not in mn:
            continue
        n_fn += 1
        reset_api = fn.cls is not None and fn.cls.name == "ParsingContext" and any(k in fn.name for k in ("reset", "clear"))
        for n in own_nodes(fn.node):
            tgt = None
            if isinstance(n, ast.Delete):
                for t in n.targets:
                    base = t.value if isinstance(t, ast.Subscript) else t
                    if isinstance(base, ast.Attribute) and base.attr == "parsed_schemas":
                        tgt = n
            elif isinstance(n, ast.Call) and isinstance(n.func, ast.Attribute) and n.func.attr in ("pop", "popitem", "clear") \
                    and isinstance(n.func.value, ast.Attribute) and n.func.value.attr == "parsed_schemas":
                tgt = n
            if tgt is not None and not reset_api:
                bad.append((fn, tgt))
    rep.count(f"{rule}:functions", n_fn)
    rep.require(n_fn >= 40, f"{rule}: only {n_fn} functions of core.parsing / core.loader analysed (floor 40)")
    for fn, n in bad:
        rep.violation(rule, f"{fn.module.relpath}:{fn.qualname} removes a registry entry", f"{fn.fq}|registry-entry-removed",
                      f"`{norm(n)[:70]}` takes a name out of parsed_schemas while its tracker state is kept: the gate still answers 'placeholder/existing' for it, "
                      "_parse_schema finds nothing to return and the declared schema is missing from the result ('... was not parsed')", fn.loc(n))
    if not bad:
        rep.ok(rule, "core.parsing / core.loader", f"{n_fn} functions: no entry is ever removed from parsed_schemas outside ParsingContext's reset API", "src/pyopenapi_gen/core:1")


# ------------------------------------------------------------------------------------------------ R8.10 the default limit fits the interpreter's stack
FRAMES_PER_LEVEL = 6  # confirmed by reading: one unit of tracker depth on the costliest chain (a named allOf / oneOf member that is a $ref) is
#                       _parse_schema -> _parse_composition_keywords -> _process_all_of / _parse_one_of_schemas -> <lambda> -> _parse_schema (member)
#                       -> _resolve_ref -> _parse_schema (target); a $ref property costs 3 (_parse_schema -> _parse_properties -> _resolve_ref)
STACK_BUDGET = 1000   # CPython's default recursion limit (the generator never raises it)
BASE_FRAMES = 60      # frames already on the stack when schema parsing starts (CLI, generator, loader, build_schemas)


def rule_default_limit_fits_stack(repo: Repo, rep, rule: str = "R8.10") -> None:
    """Termination "with a placeholder, not with RecursionError" needs the tracker's depth limit to be reached before the interpreter's
    frame limit: default limit x frames per depth unit + frames below the parser <= 1000.  Every default of PYOPENAPI_MAX_DEPTH (and the
    tracker's own `max_depth` field default) is evaluated as an integer constant - an expression over `sys.getrecursionlimit()` is
    evaluated with CPython's default of 1000 - and checked against that budget.  The frames-per-unit figure is confirmed by reading and
    cross-checked against the longest *directly resolvable* recursion cycle through _parse_schema in the call graph."""
    def const_int(e: ast.AST) -> Optional[int]:
        if isinstance(e, ast.Constant) and isinstance(e.value, int) and not isinstance(e.value, bool):
            return e.value
        if isinstance(e, ast.Constant) and isinstance(e.value, str) and e.value.strip().isdigit():
            return int(e.value)
        if isinstance(e, ast.Call) and dotted(e.func) == "sys.getrecursionlimit":
            return STACK_BUDGET
        if isinstance(e, ast.Call) and dotted(e.func) == "int" and len(e.args) == 1:
            return const_int(e.args[0])
        if isinstance(e, ast.BinOp):
            a, b = const_int(e.left), const_int(e.right)
            if a is None or b is None:
                return None
            try:
                return {ast.Add: a + b, ast.Sub: a - b, ast.Mult: a * b, ast.FloorDiv: a // b if b else None}.get(type(e.op))  # type: ignore[return-value]
            except Exception:
                return None
        return None

    live = set(repo.import_closure(["generator.client_generator"]))
    sites: List[Tuple[str, ast.AST, ast.AST]] = []
    for mn in sorted(live):
        if not mn.startswith(("pyopenapi_gen.core.parsing", "pyopenapi_gen.core.loader")):
            continue
        mod = repo.modules[mn]
        for c in ast.walk(mod.tree):
            if isinstance(c, ast.Call) and isinstance(c.func, ast.Attribute) and c.func.attr == "get" and "environ" in norm(c.func.value) and len(c.args) == 2 \
                    and const_str(c.args[0]) == "PYOPENAPI_MAX_DEPTH":
                sites.append((mod.relpath, c, c.args[1]))
        if mn.endswith("unified_cycle_detection"):
            for st in ast.walk(mod.tree):
                if isinstance(st, ast.AnnAssign) and isinstance(st.target, ast.Name) and st.target.id == "max_depth" and st.value is not None:
                    sites.append((mod.relpath, st, st.value))
    rep.require(len(sites) >= 3, f"{rule}: only {len(sites)} defaults of the depth limit found (floor 3)")
    # cross-check of the frozen figure: the longest directly resolvable gate-to-gate cycle must not exceed it
    parse_mods = [m for m in repo.modules if m.startswith(("pyopenapi_gen.core.parsing", "pyopenapi_gen.core.loader"))]
    cg = CallGraph(repo, parse_mods, by_name=True)
    gates = [k for k in cg.funcs if k.endswith(":_parse_schema")]
    longest = 0
    if gates:
        gate = gates[0]

        def dfs(n: str, path: List[str]) -> None:
            nonlocal longest
            for m in cg.succ[n]:
                if m == gate:
                    longest = max(longest, len(path))
                elif m not in path and len(path) < 12:
                    dfs(m, path + [m])

        dfs(gate, [gate])
    if longest > FRAMES_PER_LEVEL:
        rep.error(f"{rule}: the call graph now has a direct recursion cycle of {longest} frames through _parse_schema, more than the {FRAMES_PER_LEVEL} this rule was confirmed with")
        return
    for rel, node, dflt in sites:
        sub = f"{rel}:default depth limit `{norm(dflt)[:40]}`"
        if isinstance(dflt, ast.Attribute) and dflt.attr == "max_depth":
            rep.ok(rule, sub, "falls back to the tracker's max_depth field (checked at its own default)", f"{rel}:{node.lineno}")
            continue
        d = const_int(dflt)
        if d is None:
            rep.error(f"{rule}: the default depth limit `{norm(dflt)[:60]}` ({rel}:{node.lineno}) is not an integer constant this rule can evaluate")
            continue
        need = d * FRAMES_PER_LEVEL + BASE_FRAMES
        if need <= STACK_BUDGET:
            rep.ok(rule, sub, f"{d} x {FRAMES_PER_LEVEL} frames + {BASE_FRAMES} = {need} <= {STACK_BUDGET}: the limit is reached before the interpreter's recursion limit", f"{rel}:{node.lineno}")
        else:
            rep.violation(rule, sub, f"{rel}|default-limit-exceeds-stack|{d}",
                          f"a default limit of {d} needs about {d} x {FRAMES_PER_LEVEL} + {BASE_FRAMES} = {need} Python frames, more than the interpreter's {STACK_BUDGET}: a deep (acyclic) "
                          "document ends in RecursionError instead of being cut by depth placeholders", f"{rel}:{node.lineno}")


def _gate_bounds_anonymous(repo: Repo) -> Optional[str]:
    """None when `_parse_schema` cuts anonymous schemas at the depth limit itself: before its first descent there is an `if` whose test is a
    conjunction of `<name> is None`, a depth comparison (`<ctx>.recursion_depth > <limit>`) and at most the two conjuncts that exempt `$ref`
    nodes (`isinstance(<node>, Mapping)`, `"$ref" not in <node>` - a reference continues to a named schema, which the tracker bounds), and
    whose body returns.  Otherwise the reason."""
    from sa.match import conjuncts as _conj

    gate = repo.func("core.parsing.schema_parser:_parse_schema")
    GL = Locals(gate.node)
    if len(gate.params) < 2:
        return "the signature of _parse_schema changed"
    p_name, p_node = gate.params[0], gate.params[1]
    descents = [c.lineno for c in calls_in(gate.node) if isinstance(c.func, ast.Name) and c.func.id in ("_parse_composition_keywords", "_parse_properties", "_parse_schema", "_resolve_ref")]
    first_descent = min(descents) if descents else 10 ** 9
    for n in own_nodes(gate.node):
        if not (isinstance(n, ast.If) and n.lineno < first_descent and any(isinstance(b, ast.Return) for b in n.body)):
            continue
        cj = _conj(n.test, GL, stop=tuple(GL.params))
        kinds = []
        for c in cj:
            txt = norm(c)
            if match("VAR_p is None", c) is not None and match("VAR_p is None", c)["VAR_p"] == p_name:
                kinds.append("anon")
            elif any(isinstance(x, ast.Attribute) and x.attr == "recursion_depth" for x in ast.walk(c)) and isinstance(c, ast.Compare) and isinstance(c.ops[0], (ast.Gt, ast.GtE)):
                kinds.append("depth")
            elif isinstance(c, ast.Call) and dotted(c.func) == "isinstance" and c.args and isinstance(c.args[0], ast.Name) and c.args[0].id == p_node:
                kinds.append("mapping")
            elif isinstance(c, ast.Compare) and len(c.ops) == 1 and isinstance(c.ops[0], ast.NotIn) and const_str(c.left) == "$ref":
                kinds.append("not-ref")
            else:
                kinds.append("other:" + txt[:40])
        if "anon" in kinds and "depth" in kinds:
            other = [k for k in kinds if k.startswith("other:")]
            if other:
                return f"the depth cut of _parse_schema for anonymous schemas applies only under the further condition `{other[0][6:]}`"
            return None
    return "_parse_schema has no depth cut of its own for them before it descends"
