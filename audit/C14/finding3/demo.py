#!/usr/bin/env python
"""C14 finding 3: a discriminator WITHOUT an explicit `mapping` (implicit mapping: value == schema name,
the form used in the OpenAPI specification's own example) is emitted as `get_mapping() -> None` and the
runtime then ignores the discriminator completely: the variant is guessed, an unmapped value is guessed
too, and a mapped variant that fails to decode is retried as another variant.

Run: PYTHONPATH=/tmp/wt6_C14/src /venv/bin/python demo.py
Exit 1 = violation present, exit 0 = behaviour correct.
"""
import os
import shutil
import subprocess
import sys
import tempfile
import textwrap

SPEC = textwrap.dedent(
    """
    openapi: 3.0.3
    info: {title: Pets API, version: "1"}
    paths:
      /pets/{id}:
        get:
          operationId: getPet
          parameters:
            - {name: id, in: path, required: true, schema: {type: string}}
          responses:
            "200":
              description: ok
              content:
                application/json:
                  schema: {$ref: '#/components/schemas/Pet'}
      /pets:
        get:
          operationId: listPets
          responses:
            "200":
              description: ok
              content:
                application/json:
                  schema:
                    type: array
                    items: {$ref: '#/components/schemas/Pet'}
    components:
      schemas:
        Pet:                       # as in the OpenAPI 3.0 specification, "Discriminator Object"
          oneOf:
            - $ref: '#/components/schemas/Cat'
            - $ref: '#/components/schemas/Dog'
            - $ref: '#/components/schemas/Lizard'
          discriminator:
            propertyName: petType
        Cat:
          type: object
          required: [petType, name]
          properties:
            petType: {type: string}
            name: {type: string}
            huntingSkill: {type: string}
        Dog:
          type: object
          required: [petType, name]
          properties:
            petType: {type: string}
            name: {type: string}
            packSize: {type: integer}
        Lizard:
          type: object
          required: [petType, name, lovesRocks]
          properties:
            petType: {type: string}
            name: {type: string}
            lovesRocks: {type: boolean}
    """
)

CHECK = textwrap.dedent(
    """
    import asyncio, json, sys
    import httpx
    from pets.client import APIClient
    from pets.core.config import ClientConfig
    from pets.core.http_transport import HttpxTransport
    from pets.core.cattrs_converter import unstructure_to_dict

    def strip_none(x):
        if isinstance(x, dict):
            return {k: strip_none(v) for k, v in x.items() if v is not None}
        if isinstance(x, list):
            return [strip_none(v) for v in x]
        return x

    async def call(op, payload, **kw):
        transport = HttpxTransport(base_url="http://api.test")
        transport._client = httpx.AsyncClient(
            transport=httpx.MockTransport(lambda request: httpx.Response(200, json=payload)),
            base_url="http://api.test",
        )
        client = APIClient(ClientConfig(base_url="http://api.test"), transport=transport)
        return await getattr(client.default, op)(**kw)

    bad = 0

    print("(a) mapped value, variants of the same shape: petType='Dog' must give a Dog")
    p = {"petType": "Dog", "name": "Rex"}
    o = asyncio.run(call("get_pet", p, id_="1"))
    print(f"    {json.dumps(p)} -> {o!r}")
    if type(o).__name__ != "Dog":
        bad += 1
        print(f"    VIOLATION: discriminator value 'Dog' decoded as {type(o).__name__}")

    print("(b) mapped value with the variant's own optional key (list item)")
    p = [{"petType": "Dog", "name": "Rex", "packSize": 4}]
    o = asyncio.run(call("list_pets", p))
    back = [strip_none(json.loads(json.dumps(unstructure_to_dict(x)))) for x in o]
    print(f"    {json.dumps(p)} -> {o!r} -> {json.dumps(back)}")
    if back != p:
        bad += 1
        print("    VIOLATION: re-encoded payload differs (packSize silently discarded)")

    print("(c) unmapped value: petType='Hamster' names no variant, must be an error")
    p = {"petType": "Hamster", "name": "Bob"}
    try:
        o = asyncio.run(call("get_pet", p, id_="1"))
        bad += 1
        print(f"    {json.dumps(p)} -> {o!r}")
        print(f"    VIOLATION: unmapped discriminator value was guessed as {type(o).__name__}, no error")
    except Exception as e:
        print(f"    error raised as required: {type(e).__name__}: {str(e)[:120]}")

    print("(d) mapped variant that fails to decode: Lizard without its required 'lovesRocks' must be reported")
    p = {"petType": "Lizard", "name": "Liz"}
    try:
        o = asyncio.run(call("get_pet", p, id_="1"))
        bad += 1
        print(f"    {json.dumps(p)} -> {o!r}")
        print(f"    VIOLATION: failing Lizard payload was retried and accepted as {type(o).__name__}")
    except Exception as e:
        print(f"    error raised as required: {type(e).__name__}: {str(e)[:120]}")

    print(f"\\n{bad} of 4 checks violated")
    sys.exit(1 if bad else 0)
    """
)


def main() -> int:
    work = tempfile.mkdtemp(prefix="audit_C14_f3_", dir="/tmp")
    try:
        spec = os.path.join(work, "spec.yaml")
        with open(spec, "w") as fh:
            fh.write(SPEC)
        out = os.path.join(work, "out")
        os.makedirs(out)
        gen = subprocess.run(
            [sys.executable, "-m", "pyopenapi_gen", spec, "--project-root", out, "--output-package", "pets",
             "--force", "--no-postprocess"],
            capture_output=True, text=True,
        )
        if gen.returncode != 0:
            print("generation failed", gen.stdout[-2000:], gen.stderr[-2000:])
            return 2
        print("--- generated models/pet.py (discriminator part) ---")
        show = False
        for line in open(os.path.join(out, "pets", "models", "pet.py")):
            if line.startswith("@dataclass"):
                show = True
            if show and line.strip():
                print(line.rstrip())
        print()
        check = os.path.join(work, "check.py")
        with open(check, "w") as fh:
            fh.write(CHECK)
        env = dict(os.environ)
        env["PYTHONPATH"] = out + os.pathsep + env.get("PYTHONPATH", "")
        run = subprocess.run([sys.executable, check], env=env, capture_output=True, text=True)
        print(run.stdout)
        if run.returncode not in (0, 1):
            print(run.stderr[-3000:])
            return 2
        print("RESULT:", "VIOLATION PRESENT" if run.returncode == 1 else "no violation")
        return run.returncode
    finally:
        shutil.rmtree(work, ignore_errors=True)


if __name__ == "__main__":
    sys.exit(main())
