#!/usr/bin/env python
"""C14 finding 2: unions of primitive variants (oneOf/anyOf of integer/string/boolean/number) are decoded
by *coercing* the payload into the first listed primitive, so a payload that conforms to a later variant is
silently turned into a different value ("007" -> 7, "false" -> True, 2.5 -> 2, 404 -> "404").

Run: PYTHONPATH=/tmp/wt6_C14/src /venv/bin/python demo.py
Exit 1 = violation present, exit 0 = behaviour correct.
"""
import os
import shutil
import subprocess
import sys
import tempfile
import textwrap

SPEC = textwrap.dedent(
    """
    openapi: 3.0.3
    info: {title: Tickets API, version: "1"}
    paths:
      /tickets/{id}:
        get:
          operationId: getTicket
          parameters:
            - {name: id, in: path, required: true, schema: {type: string}}
          responses:
            "200":
              description: ok
              content:
                application/json:
                  schema: {$ref: '#/components/schemas/Ticket'}
    components:
      schemas:
        Ticket:
          type: object
          required: [externalId]
          properties:
            externalId:            # numeric id of the legacy system OR opaque string id
              oneOf:
                - {type: integer}
                - {type: string}
            resolved:              # true/false OR a free-text state
              oneOf:
                - {type: boolean}
                - {type: string}
            estimate:              # whole days OR fractional days
              oneOf:
                - {type: integer}
                - {type: number}
            code:                  # symbolic OR numeric code
              anyOf:
                - {type: string}
                - {type: integer}
            labels:
              type: array
              items:
                oneOf:
                  - {type: integer}
                  - {type: string}
    """
)

CHECK = textwrap.dedent(
    """
    import asyncio, json, sys
    import httpx
    from tickets.client import APIClient
    from tickets.core.config import ClientConfig
    from tickets.core.http_transport import HttpxTransport
    from tickets.core.cattrs_converter import unstructure_to_dict

    def strip_none(x):
        if isinstance(x, dict):
            return {k: strip_none(v) for k, v in x.items() if v is not None}
        if isinstance(x, list):
            return [strip_none(v) for v in x]
        return x

    async def call(payload):
        transport = HttpxTransport(base_url="http://api.test")
        transport._client = httpx.AsyncClient(
            transport=httpx.MockTransport(lambda request: httpx.Response(200, json=payload)),
            base_url="http://api.test",
        )
        client = APIClient(ClientConfig(base_url="http://api.test"), transport=transport)
        return await client.default.get_ticket(id_="1")

    CASES = [
        ("string id with leading zeros (string variant)", {"externalId": "007"}),
        ("string 'false' (string variant)", {"externalId": "A-1", "resolved": "false"}),
        ("fractional estimate (number variant)", {"externalId": "A-1", "estimate": 2.5}),
        ("numeric code (integer variant of anyOf)", {"externalId": "A-1", "code": 404}),
        ("list items that are numeric strings", {"externalId": "A-1", "labels": ["10", "x", 3]}),
        # controls that are decoded correctly
        ("control: plain integer id", {"externalId": 7}),
        ("control: non-numeric string id", {"externalId": "abc"}),
    ]
    bad = 0
    for title, payload in CASES:
        obj = asyncio.run(call(payload))
        back = strip_none(json.loads(json.dumps(unstructure_to_dict(obj))))
        back = {k: v for k, v in back.items() if not (k == "labels" and v == [] and "labels" not in payload)}
        same = json.dumps(back, sort_keys=True) == json.dumps(payload, sort_keys=True)
        print(f"{title}")
        print(f"   wire payload = {json.dumps(payload, sort_keys=True)}")
        print(f"   decoded      = {obj!r}")
        print(f"   re-encoded   = {json.dumps(back, sort_keys=True)}   {'OK' if same else '<-- VIOLATION: value silently changed'}")
        if not same:
            bad += 1
    print(f"\\n{bad} payload(s) decoded lossily")
    sys.exit(1 if bad else 0)
    """
)


def main() -> int:
    work = tempfile.mkdtemp(prefix="audit_C14_f2_", dir="/tmp")
    try:
        spec = os.path.join(work, "spec.yaml")
        with open(spec, "w") as fh:
            fh.write(SPEC)
        out = os.path.join(work, "out")
        os.makedirs(out)
        gen = subprocess.run(
            [sys.executable, "-m", "pyopenapi_gen", spec, "--project-root", out, "--output-package", "tickets",
             "--force", "--no-postprocess"],
            capture_output=True, text=True,
        )
        if gen.returncode != 0:
            print("generation failed", gen.stdout[-2000:], gen.stderr[-2000:])
            return 2
        print("--- generated union aliases ---")
        models = os.path.join(out, "tickets", "models")
        for name in sorted(os.listdir(models)):
            for line in open(os.path.join(models, name)):
                if "TypeAlias =" in line:
                    print(f"{name}: {line.rstrip()}")
        print()
        check = os.path.join(work, "check.py")
        with open(check, "w") as fh:
            fh.write(CHECK)
        env = dict(os.environ)
        env["PYTHONPATH"] = out + os.pathsep + env.get("PYTHONPATH", "")
        run = subprocess.run([sys.executable, check], env=env, capture_output=True, text=True)
        print(run.stdout)
        if run.returncode not in (0, 1):
            print(run.stderr[-3000:])
            return 2
        print("RESULT:", "VIOLATION PRESENT" if run.returncode == 1 else "no violation")
        return run.returncode
    finally:
        shutil.rmtree(work, ignore_errors=True)


if __name__ == "__main__":
    sys.exit(main())
