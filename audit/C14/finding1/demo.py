#!/usr/bin/env python
"""C14 finding 1: an explicitly mapped discriminator is silently ignored for every union field of a
model that also has a self-referencing field (string annotation) -> wrong variant, keys lost.

Run: PYTHONPATH=/tmp/wt6_C14/src /venv/bin/python demo.py
Exit 1 = violation present, exit 0 = behaviour correct.
"""
import json
import os
import shutil
import subprocess
import sys
import tempfile
import textwrap

SPEC = textwrap.dedent(
    """
    openapi: 3.0.3
    info: {title: Staff API, version: "1"}
    paths:
      /employees/{id}:
        get:
          operationId: getEmployee
          parameters:
            - {name: id, in: path, required: true, schema: {type: string}}
          responses:
            "200":
              description: ok
              content:
                application/json:
                  schema: {$ref: '#/components/schemas/Employee'}
      /visitors/{id}:
        get:
          operationId: getVisitor
          parameters:
            - {name: id, in: path, required: true, schema: {type: string}}
          responses:
            "200":
              description: ok
              content:
                application/json:
                  schema: {$ref: '#/components/schemas/Visitor'}
    components:
      schemas:
        Cat:
          type: object
          required: [petType, name]
          properties:
            petType: {type: string}
            name: {type: string}
            lives: {type: integer}
        Dog:
          type: object
          required: [petType, name]
          properties:
            petType: {type: string}
            name: {type: string}
            bark: {type: string}
        Pet:
          oneOf:
            - $ref: '#/components/schemas/Cat'
            - $ref: '#/components/schemas/Dog'
          discriminator:
            propertyName: petType
            mapping:
              cat: '#/components/schemas/Cat'
              dog: '#/components/schemas/Dog'
        # control: same union field, no self reference
        Visitor:
          type: object
          required: [id]
          properties:
            id: {type: string}
            pet: {$ref: '#/components/schemas/Pet'}
        # same union field + a self reference (manager)
        Employee:
          type: object
          required: [id]
          properties:
            id: {type: string}
            pet: {$ref: '#/components/schemas/Pet'}
            manager: {$ref: '#/components/schemas/Employee'}
    """
)

CHECK = textwrap.dedent(
    """
    import asyncio, json, sys
    import httpx
    from staff.client import APIClient
    from staff.core.config import ClientConfig
    from staff.core.http_transport import HttpxTransport
    from staff.core.cattrs_converter import unstructure_to_dict

    PAYLOAD = {"id": "7", "pet": {"petType": "dog", "name": "Rex", "bark": "loud"}}

    def strip_none(x):
        if isinstance(x, dict):
            return {k: strip_none(v) for k, v in x.items() if v is not None}
        if isinstance(x, list):
            return [strip_none(v) for v in x]
        return x

    async def call(op):
        transport = HttpxTransport(base_url="http://api.test")
        transport._client = httpx.AsyncClient(
            transport=httpx.MockTransport(lambda request: httpx.Response(200, json=PAYLOAD)),
            base_url="http://api.test",
        )
        client = APIClient(ClientConfig(base_url="http://api.test"), transport=transport)
        return await getattr(client.default, op)(id_="7")

    bad = False
    for op in ("get_visitor", "get_employee"):
        obj = asyncio.run(call(op))
        back = strip_none(json.loads(json.dumps(unstructure_to_dict(obj))))
        same = back == PAYLOAD
        variant = type(obj.pet).__name__
        print(f"{op}: wire payload   = {json.dumps(PAYLOAD, sort_keys=True)}")
        print(f"{op}: decoded        = {obj!r}")
        print(f"{op}: re-encoded     = {json.dumps(back, sort_keys=True)}")
        print(f"{op}: variant={variant} (discriminator petType='dog' maps to Dog), round-trip identical: {same}")
        if variant != "Dog" or not same:
            bad = True
            print(f"{op}: VIOLATION - discriminator ignored, 'bark' silently discarded")
        print()
    sys.exit(1 if bad else 0)
    """
)


def main() -> int:
    work = tempfile.mkdtemp(prefix="audit_C14_f1_", dir="/tmp")
    try:
        spec = os.path.join(work, "spec.yaml")
        with open(spec, "w") as fh:
            fh.write(SPEC)
        out = os.path.join(work, "out")
        os.makedirs(out)
        gen = subprocess.run(
            [sys.executable, "-m", "pyopenapi_gen", spec, "--project-root", out, "--output-package", "staff",
             "--force", "--no-postprocess"],
            capture_output=True, text=True,
        )
        if gen.returncode != 0:
            print("generation failed", gen.stdout[-2000:], gen.stderr[-2000:])
            return 2
        print("--- generated models/employee.py (fields) ---")
        for line in open(os.path.join(out, "staff", "models", "employee.py")):
            if ": " in line and "=" in line and line.startswith("    ") and '"' not in line.split(":")[0]:
                print(line.rstrip())
        print("--- generated models/pet.py (alias) ---")
        print([l.rstrip() for l in open(os.path.join(out, "staff", "models", "pet.py")) if l.startswith("Pet:")][0])
        print()
        check = os.path.join(work, "check.py")
        with open(check, "w") as fh:
            fh.write(CHECK)
        env = dict(os.environ)
        env["PYTHONPATH"] = out + os.pathsep + env.get("PYTHONPATH", "")
        run = subprocess.run([sys.executable, check], env=env, capture_output=True, text=True)
        print(run.stdout)
        if run.returncode not in (0, 1):
            print(run.stderr[-3000:])
            return 2
        print("RESULT:", "VIOLATION PRESENT" if run.returncode == 1 else "no violation")
        return run.returncode
    finally:
        shutil.rmtree(work, ignore_errors=True)


if __name__ == "__main__":
    sys.exit(main())
