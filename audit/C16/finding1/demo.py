"""C16 finding 1: a dataclass that refers to itself through a container (List["T"], Dict[str, "T"], Optional["T"])
cannot be decoded at all and is encoded with raw dataclass instances left inside the result.

Run:  PYTHONPATH=/tmp/wt6_C16/src /venv/bin/python demo.py
Exit 1 = violation present, exit 0 = behaviour correct.
"""
from __future__ import annotations

import json
import os
import subprocess
import sys
import tempfile
import textwrap

violations: list[str] = []

# --------------------------------------------------------------------------------------------------------------
# Part A - the bundled converter alone, with a hand written dataclass (no generator involved)
# --------------------------------------------------------------------------------------------------------------
PART_A = r'''
import json
from dataclasses import dataclass, field
from typing import Dict, List, Optional
from pyopenapi_gen.core.cattrs_converter import structure_from_dict, unstructure_to_dict

@dataclass
class Category:
    cat_name: str
    sub_categories: List["Category"] = field(default_factory=list)

    class Meta:
        key_transform_with_load = {"catName": "cat_name", "subCategories": "sub_categories"}
        key_transform_with_dump = {"cat_name": "catName", "sub_categories": "subCategories"}

@dataclass
class Folder:                       # same thing without any wire-key map, via dict and Optional
    name: str
    by_name: Dict[str, "Folder"] = field(default_factory=dict)
    parent: Optional["Folder"] = None

bad = []
wire = {"catName": "root", "subCategories": [{"catName": "leaf", "subCategories": []}]}
print("[A1] decode", wire)
try:
    obj = structure_from_dict(wire, Category)
    print("     ->", obj)
    if unstructure_to_dict(obj) != wire:
        bad.append("A1: decode-then-encode differs")
except Exception as e:
    print("     -> %s: %s" % (type(e).__name__, e))
    bad.append("A1: conforming JSON for Category cannot be decoded")

inst = Category("root", [Category("leaf")])
print("[A2] encode", inst)
out = unstructure_to_dict(inst)
print("     ->", out)
try:
    json.dumps(out)
except TypeError as e:
    print("     json.dumps ->", e)
    bad.append("A2: encode left a raw Category instance inside the result (wire key map not applied to it)")
else:
    if out != wire:
        bad.append("A2: encode result differs from the wire form")

wire2 = {"name": "r", "by_name": {"a": {"name": "a", "by_name": {}, "parent": None}}, "parent": None}
print("[A3] decode (no key map, Dict/Optional)", wire2)
try:
    print("     ->", structure_from_dict(wire2, Folder))
except Exception as e:
    print("     -> %s: %s" % (type(e).__name__, e))
    bad.append("A3: conforming JSON for Folder cannot be decoded")

print("PART_A_VIOLATIONS=" + json.dumps(bad))
'''

# --------------------------------------------------------------------------------------------------------------
# Part B - a generated client for the most ordinary recursive schema there is (a category tree)
# --------------------------------------------------------------------------------------------------------------
SPEC = {
    "openapi": "3.0.3",
    "info": {"title": "Shop", "version": "1"},
    "paths": {
        "/categories/root": {
            "get": {
                "operationId": "getRootCategory",
                "responses": {
                    "200": {
                        "description": "ok",
                        "content": {"application/json": {"schema": {"$ref": "#/components/schemas/Category"}}},
                    }
                },
            }
        }
    },
    "components": {
        "schemas": {
            "Category": {
                "type": "object",
                "required": ["catName"],
                "properties": {
                    "catName": {"type": "string"},
                    "subCategories": {"type": "array", "items": {"$ref": "#/components/schemas/Category"}},
                },
            }
        }
    },
}

PART_B = r'''
import asyncio, json, sys
import httpx
from shopclient.client import APIClient
from shopclient.core.config import ClientConfig
from shopclient.core.http_transport import HttpxTransport
from shopclient.core.cattrs_converter import structure_from_dict, unstructure_to_dict
from shopclient.models.category import Category

WIRE = {"catName": "root", "subCategories": [{"catName": "leaf", "subCategories": []}]}
bad = []

def handler(request):
    return httpx.Response(200, json=WIRE)

async def main():
    transport = HttpxTransport("http://api.test")
    transport._client = httpx.AsyncClient(base_url="http://api.test", transport=httpx.MockTransport(handler))
    client = APIClient(ClientConfig(base_url="http://api.test"), transport=transport)
    print("[B1] client.default.get_root_category(), server answers", WIRE)
    try:
        got = await client.default.get_root_category()
        print("     ->", got)
        if unstructure_to_dict(got) != WIRE:
            bad.append("B1: round trip differs")
    except Exception as e:
        print("     -> %s: %s" % (type(e).__name__, e))
        bad.append("B1: generated client cannot decode a conforming Category response")
    await client.close()

asyncio.run(main())

inst = Category(cat_name="root", sub_categories=[Category(cat_name="leaf")])
out = unstructure_to_dict(inst)
print("[B2] unstructure_to_dict(", inst, ")")
print("     ->", out)
try:
    json.dumps(out)
except TypeError as e:
    print("     json.dumps ->", e)
    bad.append("B2: encode of generated Category leaves raw instances in the result")
print("PART_B_VIOLATIONS=" + json.dumps(bad))
'''


def run(code: str, extra_path: str | None = None) -> list[str]:
    env = dict(os.environ)
    if extra_path:
        env["PYTHONPATH"] = extra_path + os.pathsep + env.get("PYTHONPATH", "")
    p = subprocess.run([sys.executable, "-c", code], capture_output=True, text=True, env=env, timeout=100)
    sys.stdout.write(p.stdout)
    if p.returncode != 0:
        sys.stdout.write(p.stderr[-2000:])
        return ["subprocess crashed"]
    for line in p.stdout.splitlines():
        if line.startswith("PART_") and "_VIOLATIONS=" in line:
            return list(json.loads(line.split("=", 1)[1]))
    return ["no verdict line"]


print("=== Part A: bundled converter, hand written dataclasses ===")
violations += run(PART_A)

print("\n=== Part B: generated client ===")
with tempfile.TemporaryDirectory(prefix="audit_C16_f1_") as tmp:
    spec_path = os.path.join(tmp, "spec.json")
    with open(spec_path, "w") as fh:
        json.dump(SPEC, fh)
    root = os.path.join(tmp, "proj")
    os.makedirs(root)
    gen = subprocess.run(
        [sys.executable, "-m", "pyopenapi_gen", spec_path, "--project-root", root, "--output-package", "shopclient",
         "--force", "--no-postprocess"],
        capture_output=True, text=True, timeout=100,
    )
    if gen.returncode != 0:
        print(gen.stdout[-1500:], gen.stderr[-1500:])
        violations.append("generation failed")
    else:
        with open(os.path.join(root, "shopclient", "models", "category.py")) as fh:
            for line in fh:
                if "sub_categories:" in line:
                    print("generated field:", line.strip())
        violations += run(PART_B, extra_path=root)

print("\n=== verdict ===")
for v in violations:
    print("VIOLATION:", v)
if violations:
    sys.exit(1)
print("no violation")
sys.exit(0)
