"""C16 finding 3: wire-key maps are looked up with hasattr(cls, "Meta") / cls.Meta only, i.e. on the most derived
Meta. A dataclass that inherits mapped fields from a base dataclass and declares a Meta for its own fields loses the
base class' map: conforming JSON cannot be decoded and instances are encoded with the Python name of the inherited
fields (silently).

Run:  PYTHONPATH=/tmp/wt6_C16/src /venv/bin/python demo.py
Exit 1 = violation present, exit 0 = behaviour correct.
"""
import json
import sys
from dataclasses import dataclass
from datetime import datetime, timezone

from pyopenapi_gen.core.cattrs_converter import structure_from_dict, unstructure_to_dict
from pyopenapi_gen.core.utils import DataclassSerializer


@dataclass
class Timestamped:
    created_at: datetime

    class Meta:
        key_transform_with_load = {"createdAt": "created_at"}
        key_transform_with_dump = {"created_at": "createdAt"}


@dataclass
class User(Timestamped):
    user_name: str = ""

    class Meta:
        key_transform_with_load = {"userName": "user_name"}
        key_transform_with_dump = {"user_name": "userName"}


@dataclass
class Group(Timestamped):
    group_name: str = ""

    class Meta(Timestamped.Meta):  # even "inheriting" the base Meta does not help: the dict attributes are replaced
        key_transform_with_load = {"groupName": "group_name"}
        key_transform_with_dump = {"group_name": "groupName"}


@dataclass
class Plain(Timestamped):  # control: no Meta of its own -> base map is found through attribute inheritance
    note: str = ""


violations = []
WHEN = "2024-05-06T07:08:09+00:00"
when = datetime(2024, 5, 6, 7, 8, 9, tzinfo=timezone.utc)


def check(cls, wire, instance):
    name = cls.__name__
    print("[%s] decode %s" % (name, wire))
    try:
        got = structure_from_dict(wire, cls)
        print("     ->", got)
        if got != instance:
            violations.append("%s: decode gives a different instance" % name)
        back = unstructure_to_dict(got)
        if back != wire:
            violations.append("%s: decode-then-encode differs: %s" % (name, back))
    except ValueError as e:
        print("     -> ValueError:", str(e).replace("\n", " | "))
        violations.append("%s: conforming JSON cannot be decoded" % name)
    print("[%s] encode %s" % (name, instance))
    out = unstructure_to_dict(instance)
    print("     unstructure_to_dict      ->", out)
    print("     DataclassSerializer      ->", DataclassSerializer.serialize(instance))
    if out != wire:
        violations.append("%s: encode emits %s instead of %s" % (name, sorted(out), sorted(wire)))
    else:
        try:
            if structure_from_dict(out, cls) != instance:
                violations.append("%s: encode-then-decode gives a different instance" % name)
        except ValueError as e:
            violations.append("%s: encode-then-decode fails: %s" % (name, e))


check(Plain, {"createdAt": WHEN, "note": "n"}, Plain(created_at=when, note="n"))
check(User, {"createdAt": WHEN, "userName": "ann"}, User(created_at=when, user_name="ann"))
check(Group, {"createdAt": WHEN, "groupName": "ops"}, Group(created_at=when, group_name="ops"))

print("\n=== verdict ===")
for v in violations:
    print("VIOLATION:", v)
if violations:
    sys.exit(1)
print("no violation")
sys.exit(0)
