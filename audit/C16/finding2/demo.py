"""C16 finding 2: a decoding failure that happens anywhere below an Optional[...] field is reported without the
offending field: the union hook flattens the nested cattrs error with str(e), which is just
"While structuring X (1 sub-exception)".

Run:  PYTHONPATH=/tmp/wt6_C16/src /venv/bin/python demo.py
Exit 1 = violation present, exit 0 = behaviour correct.
"""
from __future__ import annotations

import json
import os
import subprocess
import sys
import tempfile

PART_A = r'''
import json
from dataclasses import dataclass, field
from typing import Dict, List, Optional
from pyopenapi_gen.core.cattrs_converter import structure_from_dict

@dataclass
class Address:
    street: str
    zip_code: int
    class Meta:
        key_transform_with_load = {"street": "street", "zipCode": "zip_code"}
        key_transform_with_dump = {"street": "street", "zip_code": "zipCode"}

@dataclass
class CustomerStrict:            # nested object is required  -> reference behaviour
    full_name: str
    address: Address
    class Meta:
        key_transform_with_load = {"fullName": "full_name", "address": "address"}
        key_transform_with_dump = {"full_name": "fullName", "address": "address"}

@dataclass
class Customer:                  # nested object / list / dict are optional -> what every non-required property becomes
    full_name: str
    address: Optional[Address] = None
    previous: Optional[List[Address]] = None
    by_label: Optional[Dict[str, Address]] = None
    class Meta:
        key_transform_with_load = {"fullName": "full_name", "address": "address", "previous": "previous", "byLabel": "by_label"}
        key_transform_with_dump = {"full_name": "fullName", "address": "address", "previous": "previous", "by_label": "byLabel"}

def attempt(label, data, cls):
    print("[%s] decode %s as %s" % (label, data, cls.__name__))
    try:
        structure_from_dict(data, cls)
    except ValueError as e:
        msg = str(e)
        print("     ValueError:", msg.replace("\n", "\n       "))
        return msg
    except Exception as e:
        print("     %s: %s" % (type(e).__name__, e))
        return "NOT-A-VALUEERROR"
    print("     no error")
    return "NO-ERROR"

bad = []
def names_field(msg):   # python name or wire name of the field that is wrong
    # the "Data: ..." line is only a (200 character) repr of the whole rejected payload, not a statement about
    # which field is wrong - it shows every key, good and bad alike - so it does not count as naming the field
    msg = "\n".join(l for l in msg.splitlines() if not l.strip().startswith("Data:"))
    return "zip_code" in msg or "zipCode" in msg

ref = attempt("ref ", {"fullName": "Ann", "address": {"street": "Main", "zipCode": "12a45"}}, CustomerStrict)
if not names_field(ref):
    bad.append("reference case does not name the field either (unexpected)")

m = attempt("A1  ", {"fullName": "Ann", "address": {"street": "Main", "zipCode": "12a45"}}, Customer)
if not names_field(m): bad.append("A1: wrong value under Optional[Address]: zip_code / zipCode not named")
m = attempt("A2  ", {"fullName": "Ann", "address": {"street": "Main"}}, Customer)
if not names_field(m): bad.append("A2: missing required key under Optional[Address]: zip_code / zipCode not named")
m = attempt("A3  ", {"fullName": "Ann", "previous": [{"street": "a", "zipCode": 1}, {"street": "b", "zipCode": "x"}]}, Customer)
if not names_field(m): bad.append("A3: wrong value under Optional[List[Address]]: zip_code / zipCode not named")
m = attempt("A4  ", {"fullName": "Ann", "byLabel": {"home": {"street": "a", "zipCode": "x"}}}, Customer)
if not names_field(m): bad.append("A4: wrong value under Optional[Dict[str, Address]]: zip_code / zipCode not named")
print("PART_A_VIOLATIONS=" + json.dumps(bad))
'''

SPEC = {
    "openapi": "3.0.3",
    "info": {"title": "Orders", "version": "1"},
    "paths": {
        "/orders/{orderId}": {
            "get": {
                "operationId": "getOrder",
                "parameters": [{"name": "orderId", "in": "path", "required": True, "schema": {"type": "integer"}}],
                "responses": {
                    "200": {
                        "description": "ok",
                        "content": {"application/json": {"schema": {"$ref": "#/components/schemas/Order"}}},
                    }
                },
            }
        }
    },
    "components": {
        "schemas": {
            "Order": {
                "type": "object",
                "required": ["orderId"],
                "properties": {
                    "orderId": {"type": "integer"},
                    # not listed in `required` -> generated as `Customer | None`
                    "customer": {"$ref": "#/components/schemas/Customer"},
                },
            },
            "Customer": {
                "type": "object",
                "required": ["customerId", "loyaltyPoints"],
                "properties": {"customerId": {"type": "integer"}, "loyaltyPoints": {"type": "integer"}},
            },
        }
    },
}

PART_B = r'''
import asyncio, json
import httpx
from ordersclient.client import APIClient
from ordersclient.core.config import ClientConfig
from ordersclient.core.http_transport import HttpxTransport

# the server forgets the required loyaltyPoints of the nested customer
WIRE = {"orderId": 7, "customer": {"customerId": 3}}
bad = []

async def main():
    transport = HttpxTransport("http://api.test")
    transport._client = httpx.AsyncClient(base_url="http://api.test",
                                          transport=httpx.MockTransport(lambda req: httpx.Response(200, json=WIRE)))
    client = APIClient(ClientConfig(base_url="http://api.test"), transport=transport)
    print("[B1] client.default.get_order(7), server answers", WIRE)
    try:
        print("     ->", await client.default.get_order(order_id=7))
        bad.append("B1: no error at all")
    except ValueError as e:
        msg = str(e)
        print("     ValueError:", msg.replace("\n", "\n       "))
        if "loyalty_points" not in msg and "loyaltyPoints" not in msg:
            bad.append("B1: generated client: missing customer.loyaltyPoints is reported without naming loyaltyPoints")
    await client.close()

asyncio.run(main())
print("PART_B_VIOLATIONS=" + json.dumps(bad))
'''


def run(code: str, extra_path: str | None = None) -> list[str]:
    env = dict(os.environ)
    if extra_path:
        env["PYTHONPATH"] = extra_path + os.pathsep + env.get("PYTHONPATH", "")
    p = subprocess.run([sys.executable, "-c", code], capture_output=True, text=True, env=env, timeout=100)
    sys.stdout.write(p.stdout)
    if p.returncode != 0:
        sys.stdout.write(p.stderr[-2000:])
        return ["subprocess crashed"]
    for line in p.stdout.splitlines():
        if line.startswith("PART_") and "_VIOLATIONS=" in line:
            return list(json.loads(line.split("=", 1)[1]))
    return ["no verdict line"]


violations: list[str] = []
print("=== Part A: bundled converter, hand written dataclasses ===")
violations += run(PART_A)

print("\n=== Part B: generated client ===")
with tempfile.TemporaryDirectory(prefix="audit_C16_f2_") as tmp:
    spec_path = os.path.join(tmp, "spec.json")
    with open(spec_path, "w") as fh:
        json.dump(SPEC, fh)
    root = os.path.join(tmp, "proj")
    os.makedirs(root)
    gen = subprocess.run(
        [sys.executable, "-m", "pyopenapi_gen", spec_path, "--project-root", root, "--output-package", "ordersclient",
         "--force", "--no-postprocess"],
        capture_output=True, text=True, timeout=100,
    )
    if gen.returncode != 0:
        print(gen.stdout[-1500:], gen.stderr[-1500:])
        violations.append("generation failed")
    else:
        violations += run(PART_B, extra_path=root)

print("\n=== verdict ===")
for v in violations:
    print("VIOLATION:", v)
if violations:
    sys.exit(1)
print("no violation")
sys.exit(0)
