"""C07 finding 2: operations of a Path Item Object that is given by `$ref` (OpenAPI 3.1 `components.pathItems`,
or the usual multi-file layout `paths: {/users: {$ref: ./paths/users.yaml}}`) are dropped silently.
Related witness (separate `continue` of the same loop): the OpenAPI 3.2 `query` operation.

Run:  PYTHONPATH=/tmp/wt6_C07/src /venv/bin/python demo.py
Exit 1 = violation present (generation succeeds, operations missing), exit 0 = all reachable or visible failure.
"""
import contextlib
import io
import json
import logging
import os
import shutil
import subprocess
import sys
import tempfile
import warnings
from pathlib import Path

logging.disable(logging.CRITICAL)

from pyopenapi_gen.core.loader.loader import SpecLoader  # noqa: E402
from pyopenapi_gen.generator.client_generator import ClientGenerator  # noqa: E402

OK = {"200": {"description": "ok"}}
ID = [{"name": "id", "in": "path", "required": True, "schema": {"type": "string"}}]

# --- case A: self-contained OpenAPI 3.1 document with a reusable path item ------------------------------------
DOC_31 = {
    "openapi": "3.1.0",
    "info": {"title": "Orders", "version": "1.0.0"},
    "paths": {
        "/health": {"get": {"operationId": "health", "tags": ["Ops"], "responses": OK}},
        "/orders/{id}": {"$ref": "#/components/pathItems/OrderItem"},
    },
    "components": {
        "pathItems": {
            "OrderItem": {
                "parameters": ID,
                "get": {"operationId": "getOrder", "tags": ["Orders"], "responses": OK},
                "delete": {"operationId": "deleteOrder", "tags": ["Orders"], "responses": OK},
            }
        }
    },
}
EXPECT_31 = {("GET", "/health"), ("GET", "/orders/v"), ("DELETE", "/orders/v")}

# --- case B: the common multi-file layout (root document + one file per path) -----------------------------------
ROOT_YAML = """\
openapi: 3.0.3
info: {title: Users, version: 1.0.0}
paths:
  /health:
    get:
      operationId: health
      tags: [Ops]
      responses: {'200': {description: ok}}
  /users:
    $ref: './paths/users.yaml'
"""
USERS_YAML = """\
get:
  operationId: listUsers
  tags: [Users]
  responses: {'200': {description: ok}}
post:
  operationId: createUser
  tags: [Users]
  responses: {'200': {description: ok}}
"""
EXPECT_MULTI = {("GET", "/health"), ("GET", "/users"), ("POST", "/users")}

# --- case C (related): OpenAPI 3.2 `query` operation --------------------------------------------------------------
DOC_32 = {
    "openapi": "3.2.0",
    "info": {"title": "Search", "version": "1.0.0"},
    "paths": {
        "/items": {
            "get": {"operationId": "listItems", "tags": ["Items"], "responses": OK},
            "query": {"operationId": "searchItems", "tags": ["Items"], "responses": OK},
        }
    },
}
EXPECT_32 = {("GET", "/items"), ("QUERY", "/items")}

PROBE = r'''
import sys, json, asyncio, inspect, importlib
root, pkg = sys.argv[1], sys.argv[2]
sys.path.insert(0, root)
import httpx
out = {"construct_error": None, "calls": [], "problems": []}
client_mod = importlib.import_module(pkg + ".client")
cfg_mod = importlib.import_module(pkg + ".core.config")
calls = []
class Recorder:
    async def request(self, method, url, **kw):
        calls.append([method, str(url)])
        return httpx.Response(200, json={}, request=httpx.Request(method, "http://api.test/"))
    async def close(self):
        pass
try:
    client = client_mod.APIClient(cfg_mod.ClientConfig(base_url="http://api.test"), transport=Recorder())
except Exception as e:
    out["construct_error"] = f"{type(e).__name__}: {e}"
    print(json.dumps(out)); sys.exit(0)
for name, member in vars(client_mod.APIClient).items():
    if name.startswith("__"):
        continue
    try:
        tag_client = getattr(client, name)
    except Exception as e:
        out["problems"].append(f"APIClient.{name}: {type(e).__name__}: {e}"); continue
    if not type(tag_client).__name__.endswith("Client") or type(tag_client) is client_mod.APIClient:
        if isinstance(member, property):
            out["problems"].append(f"APIClient.{name} is a property but yields {type(tag_client).__name__}")
        continue
    for mname, fn in inspect.getmembers(type(tag_client), inspect.isfunction):
        if mname.startswith("_"):
            continue
        kwargs = {p.name: "v" for p in inspect.signature(fn).parameters.values()
                  if p.name != "self" and p.default is inspect._empty}
        calls.clear()
        try:
            asyncio.run(getattr(tag_client, mname)(**kwargs))
        except Exception as e:
            out["problems"].append(f"client.{name}.{mname}(): {type(e).__name__}: {e}")
        for method, url in calls:
            out["calls"].append([name, mname, method, url])
print(json.dumps(out))
'''


def check(label, write_spec, expected, workdir):
    root = Path(tempfile.mkdtemp(prefix="case_", dir=workdir))
    spec_path = write_spec(root)
    buf = io.StringIO()
    caught = []
    try:
        with warnings.catch_warnings(record=True) as caught, contextlib.redirect_stdout(buf), contextlib.redirect_stderr(
            buf
        ):
            warnings.simplefilter("always")
            ClientGenerator(verbose=False).generate(str(spec_path), root, "client_pkg", force=True)
    except BaseException as e:  # a visible failure is acceptable behaviour
        print(f"[{label}] generation failed visibly: {type(e).__name__}: {e}")
        return True
    told = [str(w.message) for w in caught if "ref" in str(w.message).lower() or "query" in str(w.message).lower()]
    print(f"[{label}] generation succeeded; warnings that mention the skipped item: {told or 'none'}")
    probe = root / "probe.py"
    probe.write_text(PROBE)
    p = subprocess.run([sys.executable, str(probe), str(root), "client_pkg"], capture_output=True, text=True)
    if p.returncode != 0:
        print(f"[{label}] generated package cannot be imported:\n{p.stderr[-800:]}")
        return False
    res = json.loads(p.stdout.strip().splitlines()[-1])
    for c in res["calls"]:
        print(f"[{label}] client.{c[0]}.{c[1]}() -> {c[2]} {c[3]}")
    reached = {(m, u.replace("http://api.test", "")) for _, _, m, u in res["calls"]}
    missing = sorted(expected - reached)
    for m, u in missing:
        print(f"[{label}] SILENTLY DROPPED operation: {m} {u}")
    return not missing


def write_31(root):
    print("[3.1 pathItems] openapi-spec-validator complaints:", SpecLoader(DOC_31).validate() or "none (valid document)")
    p = root / "openapi.json"
    p.write_text(json.dumps(DOC_31))
    return p


def write_multi(root):
    (root / "paths").mkdir()
    (root / "paths" / "users.yaml").write_text(USERS_YAML)
    p = root / "openapi.yaml"
    p.write_text(ROOT_YAML)
    return p


def write_32(root):
    print("[3.2 query] openapi-spec-validator complaints:", SpecLoader(DOC_32).validate() or "none (valid document)")
    p = root / "openapi.json"
    p.write_text(json.dumps(DOC_32))
    return p


def main():
    workdir = tempfile.mkdtemp(prefix="audit_C07_f2_")
    os.environ["RUFF_CACHE_DIR"] = str(Path(workdir) / ".ruff_cache")  # keep ruff's cache out of the cwd
    try:
        ok_31 = check("3.1 pathItems", write_31, EXPECT_31, workdir)
        ok_multi = check("multi-file $ref", write_multi, EXPECT_MULTI, workdir)
        ok_32 = check("3.2 query", write_32, EXPECT_32, workdir)
    finally:
        shutil.rmtree(workdir, ignore_errors=True)
        for log in Path(tempfile.gettempdir()).glob("pyopenapi_gen_*.log"):
            try:
                log.unlink()
            except OSError:
                pass
    if ok_31 and ok_multi and ok_32:
        print("OK: every operation is reachable (or generation failed visibly)")
        return 0
    print("VIOLATION: generation succeeded although operations of the document are missing from the client")
    return 1


if __name__ == "__main__":
    sys.exit(main())
