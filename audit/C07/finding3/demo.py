"""C07 finding 3: naming strategy `clean` ("strip FastAPI suffixes") does not recognise the operationIds FastAPI
really produces for any route with a path parameter or a trailing slash, so most methods of a FastAPI client keep
the auto-generated name although `clean` was selected (and the client mixes both styles).

Run:  PYTHONPATH=/tmp/wt6_C07/src /venv/bin/python demo.py
Exit 1 = violation present, exit 0 = every method carries the clean (handler) name.
"""
import json
import logging
import re
import shutil
import subprocess
import sys
import tempfile
import warnings
from pathlib import Path

logging.disable(logging.CRITICAL)
warnings.simplefilter("ignore")

from pyopenapi_gen import NamingStrategy, generate_client  # noqa: E402


def fastapi_generate_unique_id(name: str, path_format: str, method: str) -> str:
    """Verbatim logic of fastapi.utils.generate_unique_id (the default `generate_unique_id_function`):

        operation_id = f"{route.name}{route.path_format}"
        operation_id = re.sub(r"\\W", "_", operation_id)
        operation_id = f"{operation_id}_{list(route.methods)[0].lower()}"
    """
    operation_id = f"{name}{path_format}"
    operation_id = re.sub(r"\W", "_", operation_id)  # one "_" per non-word character, nothing is collapsed
    return f"{operation_id}_{method.lower()}"


# (handler function, path, method) of a small FastAPI application
ROUTES = [
    ("list_items", "/items", "get"),
    ("create_item", "/items", "post"),
    ("read_item", "/items/{item_id}", "get"),
    ("update_item", "/items/{item_id}", "put"),
    ("delete_item", "/items/{item_id}", "delete"),
    ("list_item_tags", "/items/{item_id}/tags", "get"),
    ("list_users", "/users/", "get"),  # trailing slash, as in the FastAPI tutorial
]


def build_doc():
    paths = {}
    for name, path, method in ROUTES:
        op = {
            "operationId": fastapi_generate_unique_id(name, path, method),
            "summary": name.replace("_", " ").title(),
            "tags": ["items" if "item" in name else "users"],
            "responses": {"200": {"description": "Successful Response"}},
        }
        if "{item_id}" in path:
            op["parameters"] = [{"name": "item_id", "in": "path", "required": True, "schema": {"type": "integer"}}]
        paths.setdefault(path, {})[method] = op
    return {"openapi": "3.1.0", "info": {"title": "FastAPI", "version": "0.1.0"}, "paths": paths}


LIST_METHODS = r'''
import sys, json, inspect, importlib
sys.path.insert(0, sys.argv[1])
ep = importlib.import_module("fastapi_client.endpoints")
out = {}
for cls_name in ("ItemsClient", "UsersClient"):
    cls = getattr(ep, cls_name)
    out[cls_name] = [n for n, f in vars(cls).items() if inspect.isfunction(f) and not n.startswith("_")]
print(json.dumps(out))
'''


def main():
    workdir = Path(tempfile.mkdtemp(prefix="audit_C07_f3_"))
    try:
        doc = build_doc()
        print("operationIds as FastAPI emits them:")
        for path, item in doc["paths"].items():
            for method, op in item.items():
                print(f"   {method.upper():6} {path:24} {op['operationId']}")
        spec_path = workdir / "openapi.json"
        spec_path.write_text(json.dumps(doc))
        generate_client(
            spec_path=str(spec_path),
            project_root=str(workdir),
            output_package="fastapi_client",
            force=True,
            no_postprocess=True,
            naming_strategy=NamingStrategy.CLEAN,
        )
        probe = workdir / "probe.py"
        probe.write_text(LIST_METHODS)
        p = subprocess.run([sys.executable, str(probe), str(workdir)], capture_output=True, text=True)
        if p.returncode != 0:
            print("cannot import generated client:\n" + p.stderr[-800:])
            return 1
        methods = json.loads(p.stdout.strip().splitlines()[-1])
    finally:
        shutil.rmtree(workdir, ignore_errors=True)
        for log in Path(tempfile.gettempdir()).glob("pyopenapi_gen_*.log"):
            try:
                log.unlink()
            except OSError:
                pass

    generated = set(methods["ItemsClient"]) | set(methods["UsersClient"])
    print("\nmethods generated with --naming-strategy clean:")
    for cls, names in methods.items():
        for n in names:
            print(f"   {cls}.{n}")
    expected = {name for name, _, _ in ROUTES}
    not_clean = sorted(generated - expected)
    missing = sorted(expected - generated)
    print(f"\nexpected handler names : {sorted(expected)}")
    print(f"names left uncleaned   : {not_clean}")
    if not_clean or missing:
        print(
            f"VIOLATION: {len(not_clean)} of {len(ROUTES)} methods do not follow the selected naming strategy "
            "(FastAPI suffix not stripped); no warning was given"
        )
        return 1
    print("OK: all methods follow the `clean` strategy")
    return 0


if __name__ == "__main__":
    sys.exit(main())
