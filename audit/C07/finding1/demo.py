"""C07 finding 1: a tag whose attribute name equals a member of the generated APIClient
(`transport`, `request`, `close`, `_base_url` ...) silently produces a broken client.

Run:  PYTHONPATH=/tmp/wt6_C07/src /venv/bin/python demo.py
Exit 1 = violation present (operations unreachable), exit 0 = every operation reachable.
"""
import contextlib
import io
import json
import logging
import os
import shutil
import subprocess
import sys
import tempfile
import warnings
from pathlib import Path

logging.disable(logging.CRITICAL)
warnings.simplefilter("ignore")

from pyopenapi_gen.generator.client_generator import ClientGenerator  # noqa: E402

OK = {"200": {"description": "ok"}}


def doc(title, ops):
    """ops: list of (path, method, operationId, tag)"""
    paths = {}
    for path, method, op_id, tag in ops:
        paths.setdefault(path, {})[method] = {"operationId": op_id, "tags": [tag], "responses": OK}
    return {"openapi": "3.0.3", "info": {"title": title, "version": "1.0.0"}, "paths": paths}


# A logistics API: tags "Shipments" and "Transport" (vehicles, carriers ...)
LOGISTICS = [
    ("/shipments", "get", "listShipments", "Shipments"),
    ("/shipments", "post", "createShipment", "Shipments"),
    ("/vehicles", "get", "listVehicles", "Transport"),
    ("/carriers", "get", "listCarriers", "Transport"),
]
# A service-desk API: tags "Tickets" and "Request"
SERVICEDESK = [
    ("/tickets", "get", "listTickets", "Tickets"),
    ("/requests", "get", "listRequests", "Request"),
    ("/requests", "post", "createRequest", "Request"),
]
# Tag "Base URL" (e.g. an admin API that manages the base URLs of tenants)
TENANTS = [
    ("/tenants", "get", "listTenants", "Tenants"),
    ("/base-urls", "get", "listBaseUrls", "Base URL"),
]

# Runs inside a fresh interpreter: builds APIClient with a recording transport, walks over every property of
# APIClient, calls every public method of every tag client and reports the requests that reached the transport.
PROBE = r'''
import sys, json, asyncio, inspect, importlib
root, pkg = sys.argv[1], sys.argv[2]
sys.path.insert(0, root)
import httpx
out = {"construct_error": None, "calls": [], "problems": []}
client_mod = importlib.import_module(pkg + ".client")
cfg_mod = importlib.import_module(pkg + ".core.config")
calls = []
class Recorder:
    async def request(self, method, url, **kw):
        calls.append([method, str(url)])
        return httpx.Response(200, json={}, request=httpx.Request(method, "http://api.test/"))
    async def close(self):
        pass
try:
    client = client_mod.APIClient(cfg_mod.ClientConfig(base_url="http://api.test"), transport=Recorder())
except Exception as e:
    out["construct_error"] = f"{type(e).__name__}: {e}"
    print(json.dumps(out)); sys.exit(0)
for name, member in vars(client_mod.APIClient).items():
    if name.startswith("__"):
        continue
    try:
        tag_client = getattr(client, name)
    except Exception as e:
        out["problems"].append(f"APIClient.{name}: {type(e).__name__}: {e}"); continue
    if not type(tag_client).__name__.endswith("Client") or type(tag_client) is client_mod.APIClient:
        if isinstance(member, property):
            out["problems"].append(f"APIClient.{name} is a property but yields {type(tag_client).__name__}")
        continue
    for mname, fn in inspect.getmembers(type(tag_client), inspect.isfunction):
        if mname.startswith("_"):
            continue
        kwargs = {p.name: "v" for p in inspect.signature(fn).parameters.values()
                  if p.name != "self" and p.default is inspect._empty}
        calls.clear()
        try:
            asyncio.run(getattr(tag_client, mname)(**kwargs))
        except Exception as e:
            out["problems"].append(f"client.{name}.{mname}(): {type(e).__name__}: {e}")
        for method, url in calls:
            out["calls"].append([name, mname, method, url])
print(json.dumps(out))
'''


def check(label, ops, workdir):
    root = Path(tempfile.mkdtemp(prefix="case_", dir=workdir))
    spec_path = root / "openapi.json"
    spec_path.write_text(json.dumps(doc(label, ops)))
    buf = io.StringIO()
    try:
        with contextlib.redirect_stdout(buf), contextlib.redirect_stderr(buf):
            # all defaults of the CLI (post-processing on); force=True only because the directory is new anyway
            ClientGenerator(verbose=False).generate(str(spec_path), root, "client_pkg", force=True)
    except BaseException as e:  # a visible failure would be acceptable behaviour
        print(f"[{label}] generation failed visibly: {type(e).__name__}: {e}")
        return True
    print(f"[{label}] generation succeeded without any error or warning about the tags")
    probe = root / "probe.py"
    probe.write_text(PROBE)
    p = subprocess.run([sys.executable, str(probe), str(root), "client_pkg"], capture_output=True, text=True)
    if p.returncode != 0:
        print(f"[{label}] generated package cannot even be imported:\n{p.stderr[-800:]}")
        return False
    res = json.loads(p.stdout.strip().splitlines()[-1])
    expected = {(m.upper(), "http://api.test" + path) for path, m, _, _ in ops}
    reached = {(m, u) for _, _, m, u in res["calls"]}
    if res["construct_error"]:
        print(f"[{label}] APIClient(config) raises -> {res['construct_error']}")
    for prob in res["problems"]:
        print(f"[{label}] problem: {prob}")
    for c in res["calls"]:
        print(f"[{label}] client.{c[0]}.{c[1]}() -> {c[2]} {c[3]}")
    missing = sorted(expected - reached)
    for m, u in missing:
        print(f"[{label}] UNREACHABLE operation: {m} {u}")
    return not missing


def main():
    workdir = tempfile.mkdtemp(prefix="audit_C07_f1_")
    os.environ["RUFF_CACHE_DIR"] = str(Path(workdir) / ".ruff_cache")  # keep ruff's cache out of the cwd
    try:
        results = [
            check("Logistics API (tag 'Transport')", LOGISTICS, workdir),
            check("Service desk API (tag 'Request')", SERVICEDESK, workdir),
            check("Tenant API (tag 'Base URL')", TENANTS, workdir),
        ]
    finally:
        shutil.rmtree(workdir, ignore_errors=True)
        for log in Path(tempfile.gettempdir()).glob("pyopenapi_gen_*.log"):
            try:
                log.unlink()
            except OSError:
                pass
    if all(results):
        print("OK: every operation of every document is reachable through APIClient")
        return 0
    print("VIOLATION: generation succeeded, but operations are not reachable through APIClient")
    return 1


if __name__ == "__main__":
    sys.exit(main())
