"""C17 finding 1: header names are merged case-SENSITIVELY.

HTTP header names are case-insensitive, but HttpxTransport._prepare_headers and every auth plugin merge
plain dicts.  A per-request header (or a plugin's header) whose spelling differs only in case from a
default / per-request header does not replace it: both leave the transport.

Run: PYTHONPATH=/tmp/wt6_C17/src /venv/bin/python demo.py      (exit 1 = violation present)
"""
import asyncio
import importlib
import subprocess
import sys
import tempfile
import textwrap
from pathlib import Path

import httpx

from pyopenapi_gen.core.auth.plugins import ApiKeyAuth, BearerAuth
from pyopenapi_gen.core.http_transport import HttpxTransport

SPEC = textwrap.dedent(
    """
    openapi: 3.0.3
    info: {title: Catalog, version: "1"}
    servers: [{url: "https://api.example.com"}]
    paths:
      /articles:
        get:
          operationId: listArticles
          tags: [articles]
          parameters:
            - {name: accept-language, in: header, required: false, schema: {type: string}}
          responses:
            "200":
              description: ok
              content: {application/json: {schema: {type: array, items: {type: string}}}}
    """
)

violations: list[str] = []


def wire(transport, seen):
    """Replace the network layer of an HttpxTransport by a recording httpx.MockTransport."""

    def handler(request: httpx.Request) -> httpx.Response:
        seen.append(request)
        return httpx.Response(200, json=[])

    transport._client = httpx.AsyncClient(base_url="https://api.example.com", transport=httpx.MockTransport(handler))


def check(label: str, request: httpx.Request, name: str, expected: list[str]) -> None:
    got = request.headers.get_list(name)
    raw = [(k.decode(), v.decode()) for k, v in request.headers.raw if k.decode().lower() == name.lower()]
    ok = got == expected
    print(f"[{label}] {name!r} fields on the wire: {raw}  -> server-side value {request.headers.get(name)!r}"
          f"  expected {expected}  {'OK' if ok else 'VIOLATION'}")
    if not ok:
        violations.append(label)


async def direct() -> None:
    # (a) per-request header must win over the transport default
    seen: list[httpx.Request] = []
    t = HttpxTransport("https://api.example.com", default_headers={"Accept-Language": "en"})
    wire(t, seen)
    await t.request("GET", "/articles", headers={"accept-language": "de"})
    check("a: default vs per-request", seen[0], "Accept-Language", ["de"])
    await t.close()

    # (b) the bearer plugin's Authorization must replace whatever Authorization came before it
    seen = []
    t = HttpxTransport("https://api.example.com", auth=BearerAuth("TOKEN"))
    wire(t, seen)
    await t.request("GET", "/articles", headers={"authorization": "Basic dXNlcjpwdw=="})
    check("b: per-request vs BearerAuth", seen[0], "Authorization", ["Bearer TOKEN"])
    await t.close()

    # (c) API key configured as 'x-api-key' (OpenAPI securityScheme spelling), default header 'X-API-Key'
    seen = []
    t = HttpxTransport(
        "https://api.example.com",
        default_headers={"X-API-Key": "anonymous"},
        auth=ApiKeyAuth("SECRET", location="header", name="x-api-key"),
    )
    wire(t, seen)
    await t.request("GET", "/articles")
    check("c: default vs ApiKeyAuth", seen[0], "x-api-key", ["SECRET"])
    await t.close()


async def generated() -> None:
    # (d) the same through a generated client: the spec spells the header parameter in lower case
    with tempfile.TemporaryDirectory(prefix="audit_C17_f1_") as tmp:
        root = Path(tmp)
        (root / "spec.yaml").write_text(SPEC)
        res = subprocess.run(
            [sys.executable, "-m", "pyopenapi_gen", str(root / "spec.yaml"), "--project-root", str(root),
             "--output-package", "catalog_client", "--force", "--no-postprocess"],
            capture_output=True, text=True,
        )
        if res.returncode != 0:
            print(res.stdout, res.stderr)
            raise SystemExit("generation failed")
        sys.path.insert(0, str(root))
        try:
            client_mod = importlib.import_module("catalog_client.client")
            cfg_mod = importlib.import_module("catalog_client.core.config")
            tr_mod = importlib.import_module("catalog_client.core.http_transport")
            seen: list[httpx.Request] = []
            t = tr_mod.HttpxTransport("https://api.example.com", default_headers={"Accept-Language": "en"})
            wire(t, seen)
            client = client_mod.APIClient(cfg_mod.ClientConfig(base_url="https://api.example.com"), transport=t)
            await client.articles.list_articles(accept_language="de")
            check("d: generated client, list_articles(accept_language='de')", seen[0], "Accept-Language", ["de"])
            await client.close()
        finally:
            sys.path.remove(str(root))


async def main() -> None:
    await direct()
    await generated()


asyncio.run(main())
if violations:
    print(f"\nVIOLATION: {len(violations)} case(s) where an overridden header still leaves the transport: {violations}")
    sys.exit(1)
print("\nno violation")
sys.exit(0)
