"""C17 finding 2: a query-string API key wipes the query parameters the caller put in the URL.

With ApiKeyAuth(location="query") (alone or anywhere in a CompositeAuth) HttpxTransport injects a
`params=` kwarg for the key.  httpx REPLACES the query component of the URL when `params` is given, so
a caller URL such as "/users?limit=50&page_token=abc" (the shape used in core/pagination.py's own
example, and the shape of every "next" link an API returns) leaves the transport as "/users?api_key=K".
The same call with no auth, bearer auth or a header/cookie API key keeps the caller's query intact.

Run: PYTHONPATH=/tmp/wt6_C17/src /venv/bin/python demo.py      (exit 1 = violation present)
"""
import asyncio
import sys

import httpx

from pyopenapi_gen.core.auth.base import CompositeAuth
from pyopenapi_gen.core.auth.plugins import ApiKeyAuth, BearerAuth, HeadersAuth
from pyopenapi_gen.core.http_transport import HttpxTransport
from pyopenapi_gen.core.pagination import paginate_by_next

violations: list[str] = []


def make(auth):
    seen: list[httpx.Request] = []

    def handler(request: httpx.Request) -> httpx.Response:
        seen.append(request)
        token = request.url.params.get("page_token")
        # two pages: the first one hands out the token of the second one
        if token is None:
            return httpx.Response(200, json={"users": ["u1", "u2"], "page_token": "p2"})
        return httpx.Response(200, json={"users": ["u3"], "page_token": None})

    t = HttpxTransport("https://api.example.com", auth=auth)
    t._client = httpx.AsyncClient(base_url="https://api.example.com", transport=httpx.MockTransport(handler))
    return t, seen


async def one(label: str, auth, url: str, must_contain: dict[str, str], **kwargs) -> None:
    t, seen = make(auth)
    await t.request("GET", url, **kwargs)
    sent = seen[0].url
    got = dict(sent.params.multi_items())
    missing = {k: v for k, v in must_contain.items() if got.get(k) != v}
    print(f"[{label}] caller url={url!r} kwargs={kwargs} -> sent {str(sent)!r}"
          f"  {'OK' if not missing else 'VIOLATION: lost ' + repr(missing)}")
    if missing:
        violations.append(label)
    await t.close()


async def main() -> None:
    caller = {"limit": "50", "page_token": "abc"}
    url = "/users?limit=50&page_token=abc"
    # controls: the caller's query survives
    await one("control: no auth", None, url, caller)
    await one("control: bearer", BearerAuth("T"), url, caller)
    await one("control: api key in header", ApiKeyAuth("K", "header", "X-API-Key"), url, caller)
    await one("control: api key in query, caller uses params=", ApiKeyAuth("K", "query", "api_key"), "/users",
              {**caller, "api_key": "K"}, params={"limit": "50", "page_token": "abc"})
    # violations
    await one("api key in query, relative url", ApiKeyAuth("K", "query", "api_key"), url, {**caller, "api_key": "K"})
    await one("api key in query, absolute next-link", ApiKeyAuth("K", "query", "api_key"),
              "https://api.example.com/users?cursor=eyJpZCI6NDJ9", {"cursor": "eyJpZCI6NDJ9", "api_key": "K"})
    await one("composite(bearer, api key in query, extra headers)",
              CompositeAuth(BearerAuth("T"), ApiKeyAuth("K", "query", "api_key"), HeadersAuth({"X-Client": "a"})),
              url, {**caller, "api_key": "K"})

    # The example from the docstring of core/pagination.paginate_by_next, driven through the transport
    t, seen = make(ApiKeyAuth("K", "query", "api_key"))

    async def fetch_users_page(page_token=None, limit=100):
        u = f"/users?limit={limit}"
        if page_token:
            u += f"&page_token={page_token}"
        return (await t.request("GET", u)).json()

    users: list[str] = []
    async for user in paginate_by_next(fetch_users_page, items_key="users", next_key="page_token", limit=50):
        users.append(user)
        if len(users) >= 10:  # the real loop never terminates: the token never reaches the server
            break
    await t.close()
    ok = users == ["u1", "u2", "u3"]
    print(f"[pagination example] requests sent: {[str(r.url) for r in seen][:4]}{' ...' if len(seen) > 4 else ''}")
    print(f"[pagination example] users collected: {users}  expected ['u1', 'u2', 'u3']  {'OK' if ok else 'VIOLATION'}")
    if not ok:
        violations.append("pagination example")


asyncio.run(main())
if violations:
    print(f"\nVIOLATION: caller's query parameters did not pass through unchanged in: {violations}")
    sys.exit(1)
print("\nno violation")
sys.exit(0)
