"""C17 finding 3: an API key configured for location="cookie" silently never leaves the transport
as soon as the request also has a Cookie *header* (from default_headers, from per-request headers,
or from a HeadersAuth plugin composed before the ApiKeyAuth).

HttpxTransport forwards the plugin's cookie through httpx's `cookies=` kwarg but forwards the headers
through `headers=`; httpx only derives a Cookie header from `cookies=` when the request has no Cookie
header yet, so the plugin's contribution is dropped without any error or warning.

Run: PYTHONPATH=/tmp/wt6_C17/src /venv/bin/python demo.py      (exit 1 = violation present)
"""
import asyncio
import sys
import warnings
from http.cookies import SimpleCookie

import httpx

from pyopenapi_gen.core.auth.base import CompositeAuth
from pyopenapi_gen.core.auth.plugins import ApiKeyAuth, BearerAuth, HeadersAuth
from pyopenapi_gen.core.http_transport import HttpxTransport

warnings.simplefilter("ignore", DeprecationWarning)  # httpx: per-request cookies= is deprecated (unrelated)
violations: list[str] = []


async def one(label: str, expect: dict[str, str], *, auth, default_headers=None, **kwargs) -> None:
    seen: list[httpx.Request] = []

    def handler(request: httpx.Request) -> httpx.Response:
        seen.append(request)
        return httpx.Response(200, json={})

    t = HttpxTransport("https://api.example.com", auth=auth, default_headers=default_headers)
    t._client = httpx.AsyncClient(base_url="https://api.example.com", transport=httpx.MockTransport(handler))
    await t.request("GET", "/me", **kwargs)
    await t.close()
    fields = seen[0].headers.get_list("cookie")
    jar = SimpleCookie()
    for f in fields:
        jar.load(f)
    got = {k: m.value for k, m in jar.items()}
    missing = {k: v for k, v in expect.items() if got.get(k) != v}
    print(f"[{label}] Cookie header(s) sent: {fields}  {'OK' if not missing else 'VIOLATION: missing ' + repr(missing)}")
    if missing:
        violations.append(label)


async def main() -> None:
    key = ApiKeyAuth("SECRET", location="cookie", name="session")  # the README's cookie example
    # controls
    await one("control: key only", {"session": "SECRET"}, auth=key)
    await one("control: key + caller cookies=", {"session": "SECRET", "locale": "en"}, auth=key, cookies={"locale": "en"})
    # violations
    await one("default_headers has Cookie", {"session": "SECRET", "locale": "en"},
              auth=key, default_headers={"Cookie": "locale=en"})
    await one("per-request headers has Cookie", {"session": "SECRET", "locale": "en"},
              auth=key, headers={"Cookie": "locale=en"})
    await one("CompositeAuth(HeadersAuth(Cookie), ApiKeyAuth(cookie))", {"session": "SECRET", "consent": "1"},
              auth=CompositeAuth(HeadersAuth({"Cookie": "consent=1"}), key))
    await one("CompositeAuth(HeadersAuth(Cookie), BearerAuth, ApiKeyAuth(cookie)) + caller cookies=",
              {"session": "SECRET", "consent": "1", "locale": "en"},
              auth=CompositeAuth(HeadersAuth({"Cookie": "consent=1"}), BearerAuth("T"), key), cookies={"locale": "en"})


asyncio.run(main())
if violations:
    print(f"\nVIOLATION: the cookie API key was not placed on the outgoing request in: {violations}")
    sys.exit(1)
print("\nno violation")
sys.exit(0)
