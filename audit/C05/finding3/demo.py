"""C05 finding 3: a text or binary success response declared WITHOUT a `schema` (e.g. `image/png: {}`,
`application/pdf: {}`, `text/plain: {}`) is JSON-decoded: the call raises on the bytes/text the server
sent, or - when the text happens to look like JSON - silently returns a different value ("1.10" -> 1.1).

Run:  PYTHONPATH=/tmp/wt6_C05/src /venv/bin/python demo.py
Exit 1 = violation present (unmodified tree), exit 0 = behaviour correct.
"""
import asyncio
import importlib
import json
import logging
import shutil
import sys
import tempfile
from pathlib import Path

import httpx

logging.disable(logging.CRITICAL)


def get(op_id: str, media_type: str, media_obj: dict) -> dict:
    return {"get": {"operationId": op_id, "responses": {"200": {"description": "ok", "content": {media_type: media_obj}}}}}


SPEC = {
    "openapi": "3.0.3",
    "info": {"title": "Assets", "version": "1.0"},
    "paths": {
        "/logo": get("getLogo", "image/png", {}),
        "/report": get("getReport", "application/pdf", {}),
        "/version": get("getVersion", "text/plain", {"example": "1.10"}),
        "/motd": get("getMotd", "text/plain", {}),
    },
}

PNG = b"\x89PNG\r\n\x1a\n\x00\x00\x00\rIHDR"
PDF = b"%PDF-1.7\n%\xe2\xe3\xcf\xd3\n1 0 obj\n"
SENT = {
    "/logo": (PNG, "image/png"),
    "/report": (PDF, "application/pdf"),
    "/version": (b"1.10", "text/plain; charset=utf-8"),
    "/motd": (b"hello, world", "text/plain; charset=utf-8"),
}
EXPECTED = {"/logo": PNG, "/report": PDF, "/version": "1.10", "/motd": "hello, world"}


def handler(request: httpx.Request) -> httpx.Response:
    body, ctype = SENT[request.url.path]
    return httpx.Response(200, content=body, headers={"content-type": ctype})


async def run(pkg: str) -> int:
    client_mod = importlib.import_module(f"{pkg}.client")
    config_mod = importlib.import_module(f"{pkg}.core.config")
    transport_mod = importlib.import_module(f"{pkg}.core.http_transport")
    transport = transport_mod.HttpxTransport(base_url="https://api.test")
    transport._client = httpx.AsyncClient(transport=httpx.MockTransport(handler), base_url="https://api.test")
    api = client_mod.APIClient(config_mod.ClientConfig(base_url="https://api.test"), transport=transport)
    bad = 0
    for path, method in (("/logo", "get_logo"), ("/report", "get_report"), ("/version", "get_version"), ("/motd", "get_motd")):
        want = EXPECTED[path]
        try:
            got = await getattr(api.default, method)()
            outcome = f"returned {got!r} ({type(got).__name__})"
            ok = got == want and type(got) is type(want)
        except Exception as exc:  # noqa: BLE001
            outcome = f"raised {type(exc).__name__}: {str(exc)[:70]}"
            ok = False
        print(f"GET {path:8s} server sent {SENT[path][0]!r} as {SENT[path][1]}")
        print(f"             expected {want!r}")
        print(f"             call {outcome}")
        print("             -> ok" if ok else "             -> VIOLATION")
        bad += 0 if ok else 1
    await api.close()
    return bad


def main() -> int:
    from pyopenapi_gen import generate_client

    root = Path(tempfile.mkdtemp(prefix="audit_C05_f3_"))
    try:
        spec_path = root / "spec.json"
        spec_path.write_text(json.dumps(SPEC))
        generate_client(spec_path=str(spec_path), project_root=str(root), output_package="assets_client", force=True)
        sys.path.insert(0, str(root))
        src = (root / "assets_client" / "endpoints" / "default.py").read_text().splitlines()
        print("--- generated endpoints/default.py: annotated return types and `case 200` bodies")
        for i, l in enumerate(src):
            if l.strip().startswith(") -> ") and l.rstrip().endswith(":") and "None" not in l:
                print(f"{src[i - 2].strip()} ... {l.strip()}")
            if l.strip() == "case 200:":
                print("       ", src[i + 1].strip())
        print()
        bad = asyncio.run(run("assets_client"))
    finally:
        shutil.rmtree(root, ignore_errors=True)
    print(f"\n{bad} of 4 schema-less text/binary responses were not returned as sent")
    return 1 if bad else 0


if __name__ == "__main__":
    sys.exit(main())
