"""C05 finding 1: a free-form JSON object (`type: object` without `properties`) in a success
response is deserialised into an EMPTY dataclass -- every key the server sent is silently dropped.

Run:  PYTHONPATH=/tmp/wt6_C05/src /venv/bin/python demo.py
Exit 1 = violation present (unmodified tree), exit 0 = behaviour correct.
"""
import asyncio
import importlib
import json
import logging
import shutil
import sys
import tempfile
from pathlib import Path

import httpx

logging.disable(logging.CRITICAL)

SPEC = {
    "openapi": "3.0.3",
    "info": {"title": "Jobs", "version": "1.0"},
    "paths": {
        # (a) the whole 200 body is a free-form object
        "/settings": {
            "get": {
                "operationId": "getSettings",
                "responses": {
                    "200": {
                        "description": "tenant settings (free-form)",
                        "content": {"application/json": {"schema": {"type": "object"}}},
                    }
                },
            }
        },
        # (b) a declared model with a free-form `metadata` property
        "/jobs/{id}": {
            "get": {
                "operationId": "getJob",
                "parameters": [{"name": "id", "in": "path", "required": True, "schema": {"type": "integer"}}],
                "responses": {
                    "200": {
                        "description": "a job",
                        "content": {"application/json": {"schema": {"$ref": "#/components/schemas/Job"}}},
                    }
                },
            }
        },
    },
    "components": {
        "schemas": {
            "Job": {
                "type": "object",
                "required": ["id"],
                "properties": {
                    "id": {"type": "integer"},
                    "metadata": {"type": "object", "description": "arbitrary key/value pairs"},
                },
            }
        }
    },
}

SETTINGS_BODY = {"theme": "dark", "limits": {"rps": 10}, "flags": ["a", "b"]}
JOB_BODY = {"id": 7, "metadata": {"owner": "ann", "retries": 3}}


def handler(request: httpx.Request) -> httpx.Response:
    body = SETTINGS_BODY if request.url.path == "/settings" else JOB_BODY
    return httpx.Response(200, content=json.dumps(body).encode(), headers={"content-type": "application/json"})


async def run(pkg: str) -> int:
    client_mod = importlib.import_module(f"{pkg}.client")
    config_mod = importlib.import_module(f"{pkg}.core.config")
    transport_mod = importlib.import_module(f"{pkg}.core.http_transport")
    utils_mod = importlib.import_module(f"{pkg}.core.utils")
    cattrs_mod = importlib.import_module(f"{pkg}.core.cattrs_converter")

    transport = transport_mod.HttpxTransport(base_url="https://api.test")
    transport._client = httpx.AsyncClient(transport=httpx.MockTransport(handler), base_url="https://api.test")
    api = client_mod.APIClient(config_mod.ClientConfig(base_url="https://api.test"), transport=transport)

    bad = 0
    for label, coro, sent in (
        ("GET /settings (body is `type: object`)", api.default.get_settings(), SETTINGS_BODY),
        ("GET /jobs/7  (property `metadata` is `type: object`)", api.default.get_job(7), JOB_BODY),
    ):
        value = await coro
        reser_a = utils_mod.DataclassSerializer.serialize(value)  # what the client uses for request bodies
        reser_b = cattrs_mod.unstructure_to_dict(value)  # the converter's own inverse
        print(label)
        print("   server sent        :", sent)
        print("   returned value     :", repr(value))
        print("   DataclassSerializer:", reser_a)
        print("   unstructure_to_dict:", reser_b)
        if reser_a != sent and reser_b != sent:
            print("   -> VIOLATION: no exception, but the data the server sent is gone")
            bad += 1
        else:
            print("   -> ok")
    await api.close()
    return bad


def main() -> int:
    from pyopenapi_gen import generate_client

    root = Path(tempfile.mkdtemp(prefix="audit_C05_f1_"))
    try:
        spec_path = root / "spec.json"
        spec_path.write_text(json.dumps(SPEC))
        generate_client(spec_path=str(spec_path), project_root=str(root), output_package="jobs_client", force=True)
        sys.path.insert(0, str(root))
        for name in ("get_settings_200_response", "job_metadata"):
            p = root / "jobs_client" / "models" / f"{name}.py"
            if p.exists():
                body = [l for l in p.read_text().splitlines() if l.strip() and not l.strip().startswith(('"""', "#"))]
                print(f"--- generated models/{name}.py (abridged)")
                print("\n".join(body[-6:]))
        bad = asyncio.run(run("jobs_client"))
    finally:
        shutil.rmtree(root, ignore_errors=True)
    print(f"\n{bad} of 2 calls lost the response data")
    return 1 if bad else 0


if __name__ == "__main__":
    sys.exit(main())
