"""C05 finding 2: a streamed `application/x-ndjson` (also `application/json-seq`) success response
is consumed with the Server-Sent-Events parser, so the generated async generator yields NOTHING
(no exception) although the server sent N well-formed records.

Run:  PYTHONPATH=/tmp/wt6_C05/src /venv/bin/python demo.py
Exit 1 = violation present (unmodified tree), exit 0 = behaviour correct.
"""
import asyncio
import importlib
import json
import logging
import shutil
import sys
import tempfile
from pathlib import Path

import httpx

logging.disable(logging.CRITICAL)

SPEC = {
    "openapi": "3.0.3",
    "info": {"title": "Logs", "version": "1.0"},
    "paths": {
        "/logs": {
            "get": {
                "operationId": "tailLogs",
                "responses": {
                    "200": {
                        "description": "one JSON document per line",
                        "content": {"application/x-ndjson": {"schema": {"$ref": "#/components/schemas/LogLine"}}},
                    }
                },
            }
        }
    },
    "components": {
        "schemas": {
            "LogLine": {
                "type": "object",
                "required": ["seq", "msg"],
                "properties": {"seq": {"type": "integer"}, "msg": {"type": "string"}},
            }
        }
    },
}

RECORDS = [{"seq": 1, "msg": "boot"}, {"seq": 2, "msg": "ready"}, {"seq": 3, "msg": "bye"}]


async def body_chunks():
    # the server streams one record per chunk
    for rec in RECORDS:
        yield (json.dumps(rec) + "\n").encode()


def handler(request: httpx.Request) -> httpx.Response:
    return httpx.Response(200, content=body_chunks(), headers={"content-type": "application/x-ndjson"})


async def run(pkg: str) -> list:
    client_mod = importlib.import_module(f"{pkg}.client")
    config_mod = importlib.import_module(f"{pkg}.core.config")
    transport_mod = importlib.import_module(f"{pkg}.core.http_transport")
    transport = transport_mod.HttpxTransport(base_url="https://api.test")
    transport._client = httpx.AsyncClient(transport=httpx.MockTransport(handler), base_url="https://api.test")
    api = client_mod.APIClient(config_mod.ClientConfig(base_url="https://api.test"), transport=transport)
    got = [item async for item in api.default.tail_logs()]
    await api.close()
    return got


def main() -> int:
    from pyopenapi_gen import generate_client

    root = Path(tempfile.mkdtemp(prefix="audit_C05_f2_"))
    try:
        spec_path = root / "spec.json"
        spec_path.write_text(json.dumps(SPEC))
        generate_client(spec_path=str(spec_path), project_root=str(root), output_package="logs_client", force=True)
        sys.path.insert(0, str(root))
        src = (root / "logs_client" / "endpoints" / "default.py").read_text().splitlines()
        start = max(i for i, l in enumerate(src) if "async def tail_logs" in l)
        print("--- generated endpoints/default.py :: tail_logs (signature and response handling)")
        for l in src[start : start + 3]:
            print(l)
        print("        ...")
        for i, l in enumerate(src[start:], start):
            if "match response.status_code" in l:
                print("\n".join(src[i : i + 6]))
                break
        got = asyncio.run(run("logs_client"))
    finally:
        shutil.rmtree(root, ignore_errors=True)

    print("\nserver sent (3 NDJSON lines):", RECORDS)
    print("client yielded              :", got)

    def plain(x):
        return x if isinstance(x, dict) else {k: getattr(x, k) for k in ("seq", "msg")}

    ok = len(got) == len(RECORDS) and [plain(g) for g in got] == RECORDS
    if ok:
        print("-> ok: every record was yielded, in order")
        return 0
    print(f"-> VIOLATION: {len(RECORDS)} records sent, {len(got)} yielded, no exception raised")
    return 1


if __name__ == "__main__":
    sys.exit(main())
