"""C04 finding 1: path parameter values are interpolated into the URL without percent-encoding.

Run:  PYTHONPATH=/tmp/wt6_C04/src /venv/bin/python demo.py
Exit 1 = violation present (unmodified tree), exit 0 = behaviour correct.
"""
import asyncio
import json
import logging
import shutil
import sys
import tempfile
from pathlib import Path
from urllib.parse import unquote

import httpx

logging.disable(logging.CRITICAL)

SPEC = {
    "openapi": "3.0.3",
    "info": {"title": "Tag service", "version": "1.0.0"},
    "paths": {
        "/tags/{tag}/articles": {
            "get": {
                "operationId": "listArticlesByTag",
                "tags": ["tags"],
                "summary": "List the articles that carry a tag",
                "parameters": [
                    {"name": "tag", "in": "path", "required": True, "schema": {"type": "string"}},
                    {"name": "limit", "in": "query", "required": False, "schema": {"type": "integer"}},
                ],
                "responses": {"204": {"description": "no content"}},
            }
        }
    },
}

# every one of these is a perfectly well-typed `str`
VALUES = ["python", "c#", "what?", "ci/cd", "100%25", "a?limit=1000"]
# shown for information only (dot segments are collapsed by httpx even when percent-encoding is applied)
INFO_ONLY = [".."]


def main() -> int:
    work = Path(tempfile.mkdtemp(prefix="audit_C04_f1_"))
    try:
        from pyopenapi_gen.generator.client_generator import ClientGenerator

        spec_path = work / "spec.json"
        spec_path.write_text(json.dumps(SPEC))
        ClientGenerator(verbose=False).generate(str(spec_path), work, "c04f1_client", force=True, no_postprocess=True)
        sys.path.insert(0, str(work))

        from c04f1_client.client import APIClient
        from c04f1_client.core.config import ClientConfig
        from c04f1_client.core.http_transport import HttpxTransport

        src = (work / "c04f1_client" / "endpoints" / "tags.py").read_text()
        print("generated URL line:", next(line.strip() for line in src.splitlines() if line.strip().startswith("url =")))

        seen: list[httpx.Request] = []

        def handler(request: httpx.Request) -> httpx.Response:
            seen.append(request)
            return httpx.Response(204)

        base = "http://api.test"
        transport = HttpxTransport(base)
        transport._client = httpx.AsyncClient(base_url=base, transport=httpx.MockTransport(handler))
        client = APIClient(ClientConfig(base_url=base), transport=transport)

        bad = 0

        async def run() -> None:
            nonlocal bad
            for value in VALUES + INFO_ONLY:
                seen.clear()
                await client.tags.list_articles_by_tag(value, limit=5)
                assert len(seen) == 1
                raw = seen[0].url.raw_path.decode("ascii")  # exactly the request target on the wire
                raw_path, _, raw_query = raw.partition("?")
                segments = raw_path.split("/")
                # template /tags/{tag}/articles  ->  ['', 'tags', <tag>, 'articles']
                ok = (
                    len(segments) == 4
                    and segments[1] == "tags"
                    and segments[3] == "articles"
                    and unquote(segments[2]) == value
                    and raw_query == "limit=5"
                )
                print(f"tag={value!r:16} wire target: {raw!r:40} {'ok' if ok else 'WRONG'}{' (info only)' if value in INFO_ONLY else ''}")
                if not ok and value not in INFO_ONLY:
                    bad += 1

        asyncio.run(run())
        if bad:
            print(f"VIOLATION: {bad}/{len(VALUES)} well-typed path values did not arrive as the {{tag}} segment of the path template")
            return 1
        print("all path values were substituted faithfully")
        return 0
    finally:
        shutil.rmtree(work, ignore_errors=True)


if __name__ == "__main__":
    sys.exit(main())
