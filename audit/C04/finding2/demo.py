"""C04 finding 2: for a request body with several media types the `content_type` the caller selects is ignored;
media types that share the parameter name `body` are all sent through the first branch.

Run:  PYTHONPATH=/tmp/wt6_C04/src /venv/bin/python demo.py
Exit 1 = violation present (unmodified tree), exit 0 = behaviour correct.
"""
import asyncio
import json
import logging
import shutil
import sys
import tempfile
from pathlib import Path

import httpx

logging.disable(logging.CRITICAL)

PET = {"type": "object", "required": ["name"], "properties": {"name": {"type": "string"}, "status": {"type": "string"}}}

SPEC = {
    "openapi": "3.0.3",
    "info": {"title": "Petstore", "version": "1.0.0"},
    "paths": {
        # the shape of addPet / updatePet in the official Swagger Petstore (json + xml [+ form])
        "/pet": {
            "post": {
                "operationId": "addPet",
                "tags": ["pets"],
                "summary": "Add a new pet to the store",
                "requestBody": {
                    "required": True,
                    "content": {
                        "application/json": {"schema": {"$ref": "#/components/schemas/Pet"}},
                        "application/xml": {"schema": {"$ref": "#/components/schemas/Pet"}},
                    },
                },
                "responses": {"204": {"description": "ok"}},
            }
        },
        # the shape of every Kubernetes-style PATCH (plain JSON or RFC 7386 merge patch)
        "/pet/{petId}": {
            "patch": {
                "operationId": "patchPet",
                "tags": ["pets"],
                "summary": "Patch a pet",
                "parameters": [{"name": "petId", "in": "path", "required": True, "schema": {"type": "integer"}}],
                "requestBody": {
                    "required": True,
                    "content": {
                        "application/json": {"schema": {"$ref": "#/components/schemas/Pet"}},
                        "application/merge-patch+json": {"schema": {"type": "object", "additionalProperties": True}},
                    },
                },
                "responses": {"204": {"description": "ok"}},
            }
        },
    },
    "components": {"schemas": {"Pet": PET}},
}


def main() -> int:
    work = Path(tempfile.mkdtemp(prefix="audit_C04_f2_"))
    try:
        from pyopenapi_gen.generator.client_generator import ClientGenerator

        spec_path = work / "spec.json"
        spec_path.write_text(json.dumps(SPEC))
        ClientGenerator(verbose=False).generate(str(spec_path), work, "c04f2_client", force=True, no_postprocess=True)
        sys.path.insert(0, str(work))

        from c04f2_client.client import APIClient
        from c04f2_client.core.config import ClientConfig
        from c04f2_client.core.http_transport import HttpxTransport

        src = (work / "c04f2_client" / "endpoints" / "pets.py").read_text()
        impl = src[src.rindex("async def add_pet(") :]
        impl = impl[: impl.index("match response.status_code")]
        print("---- generated implementation of add_pet (dispatch part) ----")
        print("\n".join(line for line in impl.splitlines() if line.strip() and not line.strip().startswith(("#", '"""', "-", "Supports", "Add a new"))))
        print("--------------------------------------------------------------")

        seen: list[httpx.Request] = []

        def handler(request: httpx.Request) -> httpx.Response:
            seen.append(request)
            return httpx.Response(204)

        base = "http://api.test"
        transport = HttpxTransport(base)
        transport._client = httpx.AsyncClient(base_url=base, transport=httpx.MockTransport(handler))
        client = APIClient(ClientConfig(base_url=base), transport=transport)

        bad = 0

        def media_type(req: httpx.Request) -> str:
            return req.headers.get("content-type", "<none>").split(";")[0].strip()

        async def run() -> None:
            nonlocal bad
            # 1. the XML overload:  add_pet(*, body: Any, content_type: Literal["application/xml"])
            xml = "<pet><name>Rex</name><status>available</status></pet>"
            seen.clear()
            await client.pets.add_pet(body=xml, content_type="application/xml")
            assert len(seen) == 1
            print(f"add_pet(body=<xml>, content_type='application/xml')")
            print(f"   wire Content-Type: {media_type(seen[0])!r}   wire body: {seen[0].content!r}")
            if media_type(seen[0]) != "application/xml" or seen[0].content != xml.encode():
                print("   WRONG: expected Content-Type 'application/xml' and the XML document as the body")
                bad += 1

            # 2. the merge-patch overload: patch_pet(pet_id, *, body: Any, content_type: Literal["application/merge-patch+json"])
            seen.clear()
            await client.pets.patch_pet(7, body={"status": "sold"}, content_type="application/merge-patch+json")
            assert len(seen) == 1
            print(f"patch_pet(7, body={{'status': 'sold'}}, content_type='application/merge-patch+json')")
            print(f"   wire Content-Type: {media_type(seen[0])!r}   wire body: {seen[0].content!r}")
            if media_type(seen[0]) != "application/merge-patch+json" or json.loads(seen[0].content) != {"status": "sold"}:
                print("   WRONG: expected Content-Type 'application/merge-patch+json'")
                bad += 1

        asyncio.run(run())
        if bad:
            print(f"VIOLATION: {bad}/2 requests went out with a content type other than the one the caller selected")
            return 1
        print("content types were honoured")
        return 0
    finally:
        shutil.rmtree(work, ignore_errors=True)


if __name__ == "__main__":
    sys.exit(main())
