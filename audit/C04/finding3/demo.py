"""C04 finding 3: a header parameter whose type is not `string` (integer, number, boolean, array) makes the generated
method raise TypeError before anything is sent - the request is never issued.

Run:  PYTHONPATH=/tmp/wt6_C04/src /venv/bin/python demo.py
Exit 1 = violation present (unmodified tree), exit 0 = behaviour correct.
"""
import asyncio
import json
import logging
import shutil
import sys
import tempfile
from pathlib import Path

import httpx

logging.disable(logging.CRITICAL)

SPEC = {
    "openapi": "3.0.3",
    "info": {"title": "Invoices", "version": "1.0.0"},
    "paths": {
        "/invoices": {
            "get": {
                "operationId": "listInvoices",
                "tags": ["invoices"],
                "summary": "List invoices of a tenant",
                "parameters": [
                    {"name": "X-Tenant-Id", "in": "header", "required": True, "schema": {"type": "integer"}},
                    {"name": "X-Dry-Run", "in": "header", "required": False, "schema": {"type": "boolean"}},
                    {"name": "X-Timeout-Seconds", "in": "header", "required": False, "schema": {"type": "number"}},
                    {
                        "name": "X-Expand",
                        "in": "header",
                        "required": False,
                        "schema": {"type": "array", "items": {"type": "string"}},
                    },
                    # the same kinds of values are fine in the query string
                    {"name": "page", "in": "query", "required": False, "schema": {"type": "integer"}},
                ],
                "responses": {"204": {"description": "ok"}},
            }
        }
    },
}


def main() -> int:
    work = Path(tempfile.mkdtemp(prefix="audit_C04_f3_"))
    try:
        from pyopenapi_gen.generator.client_generator import ClientGenerator

        spec_path = work / "spec.json"
        spec_path.write_text(json.dumps(SPEC))
        ClientGenerator(verbose=False).generate(str(spec_path), work, "c04f3_client", force=True, no_postprocess=True)
        sys.path.insert(0, str(work))

        from c04f3_client.client import APIClient
        from c04f3_client.core.config import ClientConfig
        from c04f3_client.core.http_transport import HttpxTransport

        src = (work / "c04f3_client" / "endpoints" / "invoices.py").read_text()
        impl = src[src.rindex("async def list_invoices(") :]
        print("---- generated signature ----")
        print(impl[: impl.index('"""')].rstrip())
        print("---- generated header dict ----")
        start = impl.index("headers: dict[str, Any] = {")
        print(impl[start : impl.index("}\n", impl.index("X-Expand", start)) + 1])
        print("-------------------------------")

        seen: list[httpx.Request] = []

        def handler(request: httpx.Request) -> httpx.Response:
            seen.append(request)
            return httpx.Response(204)

        base = "http://api.test"
        transport = HttpxTransport(base)  # the transport the generated client uses by default
        transport._client = httpx.AsyncClient(base_url=base, transport=httpx.MockTransport(handler))
        client = APIClient(ClientConfig(base_url=base), transport=transport)

        cases = [
            ("x_tenant_id=42 (required integer header)", dict(x_tenant_id=42), {"x-tenant-id": "42"}),
            ("x_tenant_id=42, page=2", dict(x_tenant_id=42, page=2), {"x-tenant-id": "42"}),
            ("x_tenant_id=42, x_dry_run=True", dict(x_tenant_id=42, x_dry_run=True), {"x-tenant-id": "42", "x-dry-run": "true"}),
            ("x_tenant_id=42, x_timeout_seconds=2.5", dict(x_tenant_id=42, x_timeout_seconds=2.5), {"x-tenant-id": "42", "x-timeout-seconds": "2.5"}),
            ("x_tenant_id=42, x_expand=['lines','customer']", dict(x_tenant_id=42, x_expand=["lines", "customer"]), {"x-tenant-id": "42", "x-expand": "lines,customer"}),
        ]
        bad = 0

        async def run() -> None:
            nonlocal bad
            for label, kwargs, expected in cases:
                seen.clear()
                error = None
                try:
                    await client.invoices.list_invoices(**kwargs)
                except Exception as exc:  # noqa: BLE001 - we want to show whatever comes out
                    error = exc
                print(f"list_invoices({label})")
                if error is not None:
                    print(f"   raised {type(error).__name__}: {error}")
                print(f"   requests on the wire: {len(seen)}")
                ok = error is None and len(seen) == 1
                if ok:
                    got = {k: seen[0].headers.get(k) for k in expected}
                    print(f"   headers sent: {got}")
                    # booleans: accept either spelling; the point is that the header arrives
                    ok = all(
                        got[k] is not None and got[k].lower() == v.lower() for k, v in expected.items()
                    )
                if not ok:
                    print("   WRONG: expected exactly one request carrying", expected)
                    bad += 1

        asyncio.run(run())
        if bad:
            print(f"VIOLATION: {bad}/{len(cases)} well-typed calls did not put the supplied header parameters on the wire")
            return 1
        print("all header parameters were sent")
        return 0
    finally:
        shutil.rmtree(work, ignore_errors=True)


if __name__ == "__main__":
    sys.exit(main())
