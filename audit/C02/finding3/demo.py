"""C02 finding 3: a subtype loses ALL inherited fields when its allOf parent is (transitively) being parsed - order dependent.

Employee has a property `manager: $ref Manager`; Manager is `allOf: [ {$ref: Employee}, {...own properties...} ]`.
With `Employee` declared before `Manager` (alphabetical order, what most tools emit) the parser reaches Manager while
Employee is still on the parsing stack, so the allOf parent is answered with an empty cycle placeholder and
`_process_all_of` merges the placeholder's (zero) properties and required names.

Expected: Manager has fields id, name, manager (inherited) + reports, budget (own); `id`, `name`, `reports` required -
          for both declaration orders.
Observed on the unmodified tree, Employee declared first: Manager has only reports/budget, the declared schema
          `Employee` is emitted as class `Employee2` in `employee_2.py`, `manager.py` imports the non-existent module
          `.employee` (ModuleNotFoundError on import). Manager declared first: Manager has all five fields.

Run: PYTHONPATH=/tmp/wt6_C02/src /venv/bin/python demo.py      (exit 1 = violation present)
"""
import ast
import json
import logging
import shutil
import subprocess
import sys
import tempfile
import warnings
from pathlib import Path

warnings.filterwarnings("ignore")
logging.disable(logging.CRITICAL)

from pyopenapi_gen import generate_client  # noqa: E402


def ref(n):
    return {"$ref": "#/components/schemas/" + n}


EMPLOYEE = {
    "type": "object",
    "required": ["id", "name"],
    "properties": {"id": {"type": "integer"}, "name": {"type": "string"}, "manager": ref("Manager")},
}
MANAGER = {
    "allOf": [
        ref("Employee"),
        {
            "type": "object",
            "required": ["reports"],
            "properties": {"reports": {"type": "array", "items": ref("Employee")}, "budget": {"type": "number"}},
        },
    ]
}
EXPECTED_KEYS = {"id", "name", "manager", "reports", "budget"}
EXPECTED_REQUIRED = {"id", "name", "reports"}


def spec(schemas):
    return {
        "openapi": "3.0.3",
        "info": {"title": "Staff", "version": "1.0.0"},
        "paths": {
            "/managers/{id}": {
                "get": {
                    "operationId": "getManager",
                    "parameters": [{"name": "id", "in": "path", "required": True, "schema": {"type": "integer"}}],
                    "responses": {
                        "200": {"description": "ok", "content": {"application/json": {"schema": ref("Manager")}}}
                    },
                }
            }
        },
        "components": {"schemas": schemas},
    }


def model_summary(path: Path):
    """(class name, {json key: python field}, {required python fields}) read from the generated source with ast."""
    tree = ast.parse(path.read_text())
    for node in tree.body:
        if isinstance(node, ast.ClassDef):
            fields, required, mapping = [], set(), {}
            for n in node.body:
                if isinstance(n, ast.AnnAssign):
                    fields.append(n.target.id)
                    if n.value is None:
                        required.add(n.target.id)
                elif isinstance(n, ast.ClassDef) and n.name == "Meta":
                    for m in n.body:
                        if isinstance(m, ast.Assign) and m.targets[0].id == "key_transform_with_load":
                            mapping = ast.literal_eval(m.value)
            return node.name, mapping, required
    return None, {}, set()


def run(order_name, schemas):
    tmp = Path(tempfile.mkdtemp(prefix="audit_C02_f3_", dir="/tmp"))
    problems = []
    try:
        (tmp / "spec.json").write_text(json.dumps(spec(schemas)))
        generate_client(str(tmp / "spec.json"), str(tmp), "staffc", force=True, no_postprocess=True)
        models = tmp / "staffc" / "models"
        mods = sorted(p.name for p in models.glob("*.py"))
        print(f"[{order_name}] declaration order {list(schemas)} -> model modules {mods}")
        cls, mapping, required = model_summary(models / "manager.py")
        inv = {v: k for k, v in mapping.items()}
        req_keys = {inv.get(f, f) for f in required}
        print(f"[{order_name}]   class {cls}: json keys {sorted(mapping)} ; required {sorted(req_keys)}")
        imports = [ln for ln in (models / "manager.py").read_text().splitlines() if ln.startswith("from .")]
        print(f"[{order_name}]   manager.py relative imports: {imports}")
        if set(mapping) != EXPECTED_KEYS:
            problems.append(f"Manager lacks declared/inherited properties {sorted(EXPECTED_KEYS - set(mapping))}")
        if req_keys != EXPECTED_REQUIRED:
            problems.append(f"Manager required set is {sorted(req_keys)}, spec says {sorted(EXPECTED_REQUIRED)}")
        if "employee.py" not in mods:
            problems.append(f"declared schema 'Employee' has no module employee.py (modules: {mods})")
        # every relative import of manager.py must point to a module that was actually written
        for ln in imports:
            stem = ln.split()[1].lstrip(".")
            if not (models / f"{stem}.py").exists():
                problems.append(f"manager.py has a dangling import: '{ln}' (no models/{stem}.py)")
        # informational only: mutually referencing model modules import each other at module level, which is a
        # separate defect (circular import) and is NOT counted here
        res = subprocess.run(
            [sys.executable, "-c", "import staffc.models as m; print(sorted(n for n in m.__all__))"],
            cwd=tmp, capture_output=True, text=True, env={"PYTHONPATH": str(tmp)},
        )
        last = (res.stdout if res.returncode == 0 else res.stderr).strip().splitlines()[-1][:160]
        print(f"[{order_name}]   (info) import staffc.models -> {'ok ' if res.returncode == 0 else 'FAILS: '}{last}")
        return problems
    finally:
        shutil.rmtree(tmp, ignore_errors=True)


def main() -> int:
    p1 = run("employee-first", {"Employee": EMPLOYEE, "Manager": MANAGER})
    p2 = run("manager-first", {"Manager": MANAGER, "Employee": EMPLOYEE})
    if p1 or p2:
        print("\nVIOLATION (C02: one field per property, own or inherited through allOf, regardless of cycles and order):")
        for name, ps in (("employee-first", p1), ("manager-first", p2)):
            for p in ps:
                print(f"  - [{name}] {p}")
        return 1
    print("\nOK: Manager has all own and inherited fields in both declaration orders")
    return 0


if __name__ == "__main__":
    sys.exit(main())
