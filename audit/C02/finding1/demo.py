"""C02 finding 1: inline schemas of two anonymous allOf members that share a property name are merged into ONE model.

Cat and Dog both extend Pet with the usual `allOf: [ {$ref: Pet}, {type: object, properties: {...}} ]` idiom.
Both declare `details` (inline object), `mood` (inline enum) and `toys` (array of inline objects) - with DIFFERENT content.
Expected: Dog.details has field `breed`, Dog.mood is an enum of happy/excited, Dog.toys items have field `ball`.
Observed on the unmodified tree: Dog silently gets Cat's models (`lives`, grumpy/sleepy, `mouse`).

Run: PYTHONPATH=/tmp/wt6_C02/src /venv/bin/python demo.py      (exit 1 = violation present)
"""
import json
import logging
import shutil
import subprocess
import sys
import tempfile
import textwrap
import warnings
from pathlib import Path

warnings.filterwarnings("ignore")
logging.disable(logging.CRITICAL)

from pyopenapi_gen import generate_client  # noqa: E402


def ref(n):
    return {"$ref": "#/components/schemas/" + n}


def subtype(details_props, moods, toy_props):
    return {
        "allOf": [
            ref("Pet"),
            {
                "type": "object",
                "properties": {
                    "details": {"type": "object", "properties": details_props},
                    "mood": {"type": "string", "enum": moods},
                    "toys": {"type": "array", "items": {"type": "object", "properties": toy_props}},
                },
            },
        ]
    }


SPEC = {
    "openapi": "3.0.3",
    "info": {"title": "Pets", "version": "1.0.0"},
    "paths": {
        "/dogs/{id}": {
            "get": {
                "operationId": "getDog",
                "parameters": [{"name": "id", "in": "path", "required": True, "schema": {"type": "integer"}}],
                "responses": {
                    "200": {"description": "ok", "content": {"application/json": {"schema": ref("Dog")}}}
                },
            }
        }
    },
    "components": {
        "schemas": {
            "Pet": {"type": "object", "required": ["id"], "properties": {"id": {"type": "integer"}}},
            "Cat": subtype({"lives": {"type": "integer"}}, ["grumpy", "sleepy"], {"mouse": {"type": "boolean"}}),
            "Dog": subtype({"breed": {"type": "string"}}, ["happy", "excited"], {"ball": {"type": "boolean"}}),
        }
    },
}

PROBE = textwrap.dedent(
    """
    import dataclasses, enum, json, sys, typing
    import petc.models as m
    from petc.models.dog import Dog
    from petc.models.cat import Cat
    from petc.core.cattrs_converter import structure_from_dict

    def field_type(cls, name):
        hints = typing.get_type_hints(cls, vars(sys.modules[cls.__module__]) | vars(m))
        t = hints[name]
        args = [a for a in typing.get_args(t) if a is not type(None)]
        return args[0] if args else t

    def describe(t):
        if isinstance(t, type) and issubclass(t, enum.Enum):
            return {"model": t.__name__, "enum": [e.value for e in t]}
        if dataclasses.is_dataclass(t):
            return {"model": t.__name__, "fields": [f.name for f in dataclasses.fields(t)]}
        origin = typing.get_origin(t)
        if origin in (list, typing.List):
            return {"list_of": describe(typing.get_args(t)[0])}
        return {"other": str(t)}

    out = {}
    for cls in (Cat, Dog):
        out[cls.__name__] = {p: describe(field_type(cls, p)) for p in ("details", "mood", "toys")}
    payload = {"id": 7, "details": {"breed": "collie"}, "mood": "happy", "toys": [{"ball": True}]}
    try:
        dog = structure_from_dict(payload, Dog)
        out["structured"] = repr(dog)
    except Exception as e:
        out["structured"] = "EXCEPTION " + type(e).__name__ + ": " + str(e)[:300]
    print(json.dumps(out))
    """
)


def main() -> int:
    tmp = Path(tempfile.mkdtemp(prefix="audit_C02_f1_", dir="/tmp"))
    try:
        (tmp / "spec.json").write_text(json.dumps(SPEC))
        generate_client(str(tmp / "spec.json"), str(tmp), "petc", force=True, no_postprocess=True)
        print("generated model modules:", sorted(p.name for p in (tmp / "petc" / "models").glob("*.py")))
        res = subprocess.run(
            [sys.executable, "-c", PROBE], cwd=tmp, capture_output=True, text=True, env={"PYTHONPATH": str(tmp)}
        )
        if res.returncode != 0:
            print("probe failed:\n", res.stderr[-2000:])
            return 1
        out = json.loads(res.stdout.strip().splitlines()[-1])
        for k in ("Cat", "Dog"):
            print(f"{k}:")
            for p, d in out[k].items():
                print(f"    {p:8s} -> {d}")
        print("structure_from_dict({'id':7,'details':{'breed':'collie'},'mood':'happy','toys':[{'ball':true}]}, Dog) ->")
        print("   ", out["structured"])

        problems = []
        dog = out["Dog"]
        if "breed" not in dog["details"].get("fields", []):
            problems.append(f"Dog.details has no field 'breed' (model {dog['details']})")
        if sorted(dog["mood"].get("enum", [])) != ["excited", "happy"]:
            problems.append(f"Dog.mood is not the enum happy/excited (got {dog['mood']})")
        if "ball" not in dog["toys"].get("list_of", {}).get("fields", []):
            problems.append(f"Dog.toys items have no field 'ball' (got {dog['toys']})")
        if dog["details"].get("model") == out["Cat"]["details"].get("model"):
            problems.append("Cat.details and Dog.details are the SAME model although the spec declares different objects")
        if problems:
            print("\nVIOLATION (C02: one field per declared property, typed with the right model/enum):")
            for p in problems:
                print("  -", p)
            return 1
        print("\nOK: Dog's inline schemas are kept apart from Cat's")
        return 0
    finally:
        shutil.rmtree(tmp, ignore_errors=True)


if __name__ == "__main__":
    sys.exit(main())
