"""C02 finding 2: a property declared as `allOf: [ {$ref: <enum / array / primitive schema>} ]` becomes an EMPTY dataclass.

`allOf` with a single `$ref` is the standard OpenAPI 3.0 idiom to attach `description` / `nullable` / `default` /
`readOnly` to a referenced schema (a bare `$ref` must not have siblings in 3.0). Many generators emit it for every
enum-typed property (NestJS/@nestjs/swagger, FastAPI/pydantic v1, springdoc, drf-spectacular ...).

Expected: Task.status is typed with the enum `Status` (or an equivalent enum), Task.labels with a list of strings.
Observed on the unmodified tree: new models `TaskStatus` / `TaskLabels` are invented - dataclasses WITHOUT any field -
and the properties are typed with them; a response `{"status": "open", "labels": ["a"]}` cannot be structured faithfully.
The same happens to a declared schema `StatusAlias: {allOf: [{$ref: Status}]}`.

Run: PYTHONPATH=/tmp/wt6_C02/src /venv/bin/python demo.py      (exit 1 = violation present)
"""
import json
import logging
import shutil
import subprocess
import sys
import tempfile
import textwrap
import warnings
from pathlib import Path

warnings.filterwarnings("ignore")
logging.disable(logging.CRITICAL)

from pyopenapi_gen import generate_client  # noqa: E402


def ref(n):
    return {"$ref": "#/components/schemas/" + n}


SPEC = {
    "openapi": "3.0.3",
    "info": {"title": "Tasks", "version": "1.0.0"},
    "paths": {
        "/tasks/{id}": {
            "get": {
                "operationId": "getTask",
                "parameters": [{"name": "id", "in": "path", "required": True, "schema": {"type": "integer"}}],
                "responses": {
                    "200": {"description": "ok", "content": {"application/json": {"schema": ref("Task")}}}
                },
            }
        }
    },
    "components": {
        "schemas": {
            "Status": {"type": "string", "enum": ["open", "done"]},
            "Labels": {"type": "array", "items": {"type": "string"}},
            "Task": {
                "type": "object",
                "required": ["id", "status"],
                "properties": {
                    "id": {"type": "integer"},
                    # the usual way to document / make nullable a referenced enum in OpenAPI 3.0
                    "status": {"allOf": [ref("Status")], "description": "Current state of the task"},
                    "labels": {"allOf": [ref("Labels")], "nullable": True},
                    # control: a bare $ref works
                    "previous_status": ref("Status"),
                },
            },
            "StatusAlias": {"allOf": [ref("Status")]},
        }
    },
}

PROBE = textwrap.dedent(
    """
    import dataclasses, enum, json, sys, typing
    import taskc.models as m
    from taskc.models.task import Task
    from taskc.core.cattrs_converter import structure_from_dict

    def field_type(cls, name):
        hints = typing.get_type_hints(cls, vars(sys.modules[cls.__module__]) | vars(m))
        t = hints[name]
        args = [a for a in typing.get_args(t) if a is not type(None)]
        return args[0] if len(args) == 1 and typing.get_origin(t) is not list else t

    def describe(t):
        if isinstance(t, type) and issubclass(t, enum.Enum):
            return {"kind": "enum", "model": t.__name__, "values": [e.value for e in t]}
        if dataclasses.is_dataclass(t):
            return {"kind": "dataclass", "model": t.__name__, "fields": [f.name for f in dataclasses.fields(t)]}
        origin = typing.get_origin(t)
        if origin in (list, typing.List):
            return {"kind": "list", "of": describe(typing.get_args(t)[0])}
        return {"kind": "other", "repr": getattr(t, "__name__", str(t))}

    out = {p: describe(field_type(Task, p)) for p in ("status", "labels", "previous_status")}
    out["StatusAlias"] = describe(m.StatusAlias)
    payload = {"id": 1, "status": "open", "labels": ["a", "b"], "previous_status": "done"}
    try:
        out["structured"] = repr(structure_from_dict(payload, Task))
    except Exception as e:
        out["structured"] = "EXCEPTION " + type(e).__name__ + ": " + " ".join(str(e).split())[:300]
    print(json.dumps(out))
    """
)


def main() -> int:
    tmp = Path(tempfile.mkdtemp(prefix="audit_C02_f2_", dir="/tmp"))
    try:
        (tmp / "spec.json").write_text(json.dumps(SPEC))
        generate_client(str(tmp / "spec.json"), str(tmp), "taskc", force=True, no_postprocess=True)
        print("generated model modules:", sorted(p.name for p in (tmp / "taskc" / "models").glob("*.py")))
        for stem in ("task_status", "task_labels", "status_alias"):
            p = tmp / "taskc" / "models" / f"{stem}.py"
            if p.exists():
                body = [ln for ln in p.read_text().splitlines() if ln.strip()]
                print(f"--- models/{stem}.py ---")
                print("\n".join(body))
        res = subprocess.run(
            [sys.executable, "-c", PROBE], cwd=tmp, capture_output=True, text=True, env={"PYTHONPATH": str(tmp)}
        )
        if res.returncode != 0:
            print("probe failed:\n", res.stderr[-2000:])
            return 1
        out = json.loads(res.stdout.strip().splitlines()[-1])
        print("--- resolved field types of Task ---")
        for p in ("status", "labels", "previous_status"):
            print(f"    {p:16s} -> {out[p]}")
        print(f"    (schema) StatusAlias -> {out['StatusAlias']}")
        print("structure_from_dict({'id':1,'status':'open','labels':['a','b'],'previous_status':'done'}, Task) ->")
        print("   ", out["structured"])

        problems = []
        if out["status"]["kind"] != "enum" or sorted(out["status"].get("values", [])) != ["done", "open"]:
            problems.append(f"Task.status (allOf:[$ref Status]) is not an enum open/done: {out['status']}")
        if out["labels"]["kind"] != "list":
            problems.append(f"Task.labels (allOf:[$ref Labels], Labels = array of string) is not a list: {out['labels']}")
        if out["StatusAlias"]["kind"] != "enum":
            problems.append(f"declared schema StatusAlias (allOf:[$ref Status]) is not an enum: {out['StatusAlias']}")
        if out["previous_status"]["kind"] != "enum":
            problems.append(f"control failed: bare $ref is not an enum: {out['previous_status']}")
        if problems:
            print("\nVIOLATION (C02: field typed with the structural kind the spec gives - enum / list-of):")
            for p in problems:
                print("  -", p)
            return 1
        print("\nOK: allOf-wrapped references keep the kind of the referenced schema")
        return 0
    finally:
        shutil.rmtree(tmp, ignore_errors=True)


if __name__ == "__main__":
    sys.exit(main())
