"""C10 finding 1: compare-only (no force) generation writes .ruff_cache/ into the project root.

Run: PYTHONPATH=/tmp/wt6_C10/src /venv/bin/python demo.py
Exit 1 = violation present, exit 0 = behaviour correct.
"""
import contextlib
import hashlib
import io
import os
import shutil
import sys
import tempfile
from pathlib import Path

WORK = Path(tempfile.mkdtemp(prefix="audit_C10_f1_"))
# keep the generator's own debug logs / temp trees out of /tmp proper (and out of the project root)
(WORK / "tmp").mkdir()
tempfile.tempdir = str(WORK / "tmp")

from pyopenapi_gen import GenerationError, generate_client  # noqa: E402

SPEC = """\
openapi: 3.0.3
info: {title: Pets, version: "1.0"}
paths:
  /pets:
    get:
      operationId: listPets
      summary: List pets
      tags: [pets]
      parameters:
        - {name: limit, in: query, schema: {type: integer}}
      responses:
        "200":
          description: ok
          content:
            application/json:
              schema:
                type: array
                items: {$ref: '#/components/schemas/Pet'}
        "404": {description: not found}
components:
  schemas:
    Pet:
      type: object
      required: [id]
      properties:
        id: {type: integer}
        name: {type: string}
"""


def snap(root: Path) -> dict[str, str]:
    out: dict[str, str] = {}
    for dp, dns, fns in os.walk(root):
        for d in dns:
            out[str((Path(dp) / d).relative_to(root)) + "/"] = "DIR"
        for f in fns:
            p = Path(dp) / f
            out[str(p.relative_to(root))] = hashlib.sha256(p.read_bytes()).hexdigest()
    return out


def changes(a: dict[str, str], b: dict[str, str]) -> list[tuple[str, str]]:
    res = []
    for k in sorted(set(a) | set(b)):
        if k not in a:
            res.append(("CREATED", k))
        elif k not in b:
            res.append(("DELETED", k))
        elif a[k] != b[k]:
            res.append(("MODIFIED", k))
    return res


def gen(**kw) -> str:
    buf = io.StringIO()
    try:
        with contextlib.redirect_stdout(buf):
            generate_client(**kw)
        return "succeeded"
    except GenerationError as e:
        return f"raised GenerationError: {e}"


violations = 0
try:
    spec = WORK / "openapi.yaml"
    spec.write_text(SPEC)

    # ------------------------------------------------------------------ scenario A
    # README usage: `pyopenapi-gen openapi.yaml --project-root . --output-package myapi`
    project = WORK / "project"
    project.mkdir()
    (project / "app.py").write_text("print('my application')\n")
    os.chdir(project)

    before_first = snap(project)
    r = gen(spec_path=str(spec), project_root=".", output_package="myapi")
    after_first = snap(project)
    print(f"[A] first generation (output package absent): {r}")
    outside = [c for c in changes(before_first, after_first) if not c[1].startswith("myapi")]
    print(f"[A] paths written under the project root OUTSIDE myapi/ (= output pkg, contains core): {len(outside)}")
    for c in outside[:6]:
        print("      ", c)
    if outside:
        violations += 1

    # what a fresh checkout looks like: .ruff_cache is never committed (ruff puts a '*' .gitignore in it)
    shutil.rmtree(project / ".ruff_cache", ignore_errors=True)
    existing = snap(project)
    r = gen(spec_path=str(spec), project_root=".", output_package="myapi")  # force NOT given, package exists
    after = snap(project)
    ch = changes(existing, after)
    print(f"[A] re-run without force on the unchanged spec: {r}")
    print(f"[A] changes under the project root after that compare-only run: {len(ch)}")
    for c in ch[:8]:
        print("      ", c)
    if ch:
        violations += 1

    # run it once more WITHOUT deleting the cache: the existing tree is modified again
    existing = snap(project)
    r = gen(spec_path=str(spec), project_root=".", output_package="myapi")
    ch = changes(existing, snap(project))
    print(f"[A] third run without force: {r}; further changes: {len(ch)}")
    for c in ch[:4]:
        print("      ", c)
    if ch:
        violations += 1

    # the same happens when the run ends in an error (a changed spec -> "Differences found")
    spec2 = WORK / "openapi_v2.yaml"
    spec2.write_text(SPEC.replace("name: {type: string}", "name: {type: string}\n        tag: {type: string}"))
    existing = snap(project)
    r = gen(spec_path=str(spec2), project_root=".", output_package="myapi")
    ch = changes(existing, snap(project))
    print(f"[A] run without force on a CHANGED spec: {r}; changes under the project root: {len(ch)}")
    for c in ch[:4]:
        print("      ", c)
    if ch:
        violations += 1

    # ------------------------------------------------------------------ scenario B
    # cwd is NOT the project root, but the project has a [tool.ruff] section (very common):
    # direct generation (first run / --force) drops the cache next to that pyproject.toml
    os.chdir(WORK)
    project_b = WORK / "project_b"
    project_b.mkdir()
    (project_b / "pyproject.toml").write_text('[project]\nname = "app"\nversion = "0"\n\n[tool.ruff]\nline-length = 88\n')
    before = snap(project_b)
    r = gen(spec_path=str(spec), project_root=str(project_b), output_package="myapi", force=True)
    ch = [c for c in changes(before, snap(project_b)) if not c[1].startswith("myapi")]
    print(f"[B] --force generation from another cwd, project has [tool.ruff]: {r}; written outside myapi/: {len(ch)}")
    for c in ch[:4]:
        print("      ", c)
    if ch:
        violations += 1
finally:
    os.chdir("/")
    shutil.rmtree(WORK, ignore_errors=True)

if violations:
    print(f"\nVIOLATION: {violations} check(s) saw paths created/modified under the project root outside the "
          "output/core package (.ruff_cache), including in compare-only mode.")
    sys.exit(1)
print("\nOK: nothing outside the output/core package was touched.")
sys.exit(0)
