"""C10 finding 3: the compare-only run formats its temp tree with a different ruff configuration /
package context than the direct run used for the real tree, so an unchanged spec "differs".

Run: PYTHONPATH=/tmp/wt6_C10/src /venv/bin/python demo.py
Exit 1 = violation present, exit 0 = behaviour correct.
"""
import contextlib
import hashlib
import io
import os
import shutil
import sys
import tempfile
from pathlib import Path

WORK = Path(tempfile.mkdtemp(prefix="audit_C10_f3_"))
(WORK / "tmp").mkdir()
tempfile.tempdir = str(WORK / "tmp")  # generator's temp trees / debug logs go here

from pyopenapi_gen import GenerationError, generate_client  # noqa: E402

SPEC = """\
openapi: 3.0.3
info: {title: Pets, version: "1.0"}
paths:
  /pets:
    get:
      operationId: listPets
      summary: List pets
      tags: [pets]
      parameters:
        - {name: limit, in: query, schema: {type: integer}}
      responses:
        "200":
          description: ok
          content:
            application/json:
              schema:
                type: array
                items: {$ref: '#/components/schemas/Pet'}
        "404": {description: not found}
components:
  schemas:
    Pet:
      type: object
      required: [id]
      properties:
        id: {type: integer}
        name: {type: string}
        owner: {$ref: '#/components/schemas/Owner'}
    Owner:
      type: object
      properties:
        email: {type: string}
"""
PYPROJECT_HEAD = '[project]\nname = "billing"\nversion = "0.1.0"\n\n'


def snap(root: Path) -> dict[str, str]:
    out: dict[str, str] = {}
    for dp, dns, fns in os.walk(root):
        dns[:] = [d for d in dns if d != ".ruff_cache"]  # that is finding 1, not the point here
        for f in fns:
            p = Path(dp) / f
            out[str(p.relative_to(root))] = hashlib.sha256(p.read_bytes()).hexdigest()
    return out


def gen(**kw) -> tuple[str, str]:
    buf = io.StringIO()
    try:
        with contextlib.redirect_stdout(buf), contextlib.redirect_stderr(io.StringIO()):
            generate_client(**kw)
        return "succeeded", buf.getvalue()
    except GenerationError as e:
        return f"raised GenerationError: {e}", buf.getvalue()


def scenario(label: str, repo_files: dict[str, str], project_rel: str, cwd_rel: str) -> bool:
    repo = WORK / "repo"
    shutil.rmtree(repo, ignore_errors=True)
    repo.mkdir()
    for rel, content in repo_files.items():
        (repo / rel).parent.mkdir(parents=True, exist_ok=True)
        (repo / rel).write_text(content)
    project = repo / project_rel
    project.mkdir(parents=True, exist_ok=True)
    os.chdir(repo / cwd_rel)
    kw = dict(spec_path=str(WORK / "openapi.yaml"), project_root=str(project), output_package="myapi")
    r1, _ = gen(**kw)
    existing = snap(repo)
    r2, out2 = gen(**kw)
    untouched = snap(repo) == existing
    print(f"--- {label}")
    print(f"    cwd={cwd_rel or '.'}  project_root={project_rel or '.'}  files: {sorted(repo_files)}")
    print(f"    first generation : {r1}")
    print(f"    identical re-run : {r2}   (existing tree untouched: {untouched})")
    shown = 0
    for line in out2.splitlines():
        if line.startswith(("--- ", "Missing file")) and shown < 3:
            print(f"      differs: {line[4:] if line.startswith('--- ') else line}")
            shown += 1
    os.chdir(WORK)
    return r2 == "succeeded" and untouched


bad = 0
try:
    (WORK / "openapi.yaml").write_text(SPEC)

    ok = scenario("control: no ruff configuration anywhere", {}, "", "")
    if not ok:
        print("    (unexpected: control failed)")
        bad += 1

    # monorepo: the tool is started from the repository root, the service has its own pyproject.toml
    ok = scenario(
        "monorepo service with its own [tool.ruff] line-length, generator started from the repo root",
        {"services/billing/pyproject.toml": PYPROJECT_HEAD + "[tool.ruff]\nline-length = 120\n"},
        "services/billing",
        "",
    )
    bad += 0 if ok else 1

    # README usage (--project-root .), pyproject silences lint rules for the generated package by path
    ok = scenario(
        "cwd == project root, per-file-ignores for the generated package",
        {"pyproject.toml": PYPROJECT_HEAD + '[tool.ruff.lint.per-file-ignores]\n"myapi/**" = ["F401", "I001"]\n'},
        "",
        "",
    )
    bad += 0 if ok else 1

    # the directory handed over as project root is itself a package (has __init__.py), other cwd
    ok = scenario(
        "project root is itself a package (backend/__init__.py), generator started from the repo root",
        {"backend/__init__.py": ""},
        "backend",
        "",
    )
    bad += 0 if ok else 1
finally:
    os.chdir("/")
    shutil.rmtree(WORK, ignore_errors=True)

if bad:
    print(f"\nVIOLATION: in {bad} set-up(s) re-generating the unchanged spec without force raises "
          "'Differences found' although nothing changed ('on a match it succeeds').")
    sys.exit(1)
print("\nOK: every identical re-run without force succeeded.")
sys.exit(0)
