"""C10 finding 2: with a core nested below the client package (e.g. myapi.shared.core) a no-force
re-generation of the *unchanged* spec never matches: it raises "Differences found".

Run: PYTHONPATH=/tmp/wt6_C10/src /venv/bin/python demo.py
Exit 1 = violation present, exit 0 = behaviour correct.
"""
import contextlib
import hashlib
import io
import os
import shutil
import sys
import tempfile
from pathlib import Path

WORK = Path(tempfile.mkdtemp(prefix="audit_C10_f2_"))
(WORK / "tmp").mkdir()
tempfile.tempdir = str(WORK / "tmp")  # generator's temp trees / debug logs go here

from pyopenapi_gen import GenerationError, generate_client  # noqa: E402

SPEC = """\
openapi: 3.0.3
info: {title: Pets, version: "1.0"}
paths:
  /pets:
    get:
      operationId: listPets
      summary: List pets
      tags: [pets]
      responses:
        "200":
          description: ok
          content:
            application/json:
              schema:
                type: array
                items: {$ref: '#/components/schemas/Pet'}
        "404": {description: not found}
components:
  schemas:
    Pet:
      type: object
      required: [id]
      properties:
        id: {type: integer}
        name: {type: string}
"""


def snap(root: Path) -> dict[str, str]:
    out: dict[str, str] = {}
    for dp, dns, fns in os.walk(root):
        for d in dns:
            out[str((Path(dp) / d).relative_to(root)) + "/"] = "DIR"
        for f in fns:
            p = Path(dp) / f
            out[str(p.relative_to(root))] = hashlib.sha256(p.read_bytes()).hexdigest()
    return out


def gen(**kw) -> tuple[str, str]:
    buf = io.StringIO()
    try:
        with contextlib.redirect_stdout(buf), contextlib.redirect_stderr(io.StringIO()):
            generate_client(**kw)
        return "succeeded", buf.getvalue()
    except GenerationError as e:
        return f"raised GenerationError: {e}", buf.getvalue()


violations = 0
try:
    spec = WORK / "openapi.yaml"
    spec.write_text(SPEC)
    os.chdir(WORK)  # neutral cwd, no ruff configuration anywhere

    for label, out_pkg, core_pkg, extra in [
        ("core one level below the client (control)", "myapi", "myapi.core", {}),
        ("core two levels below the client", "myapi", "myapi.shared.core", {}),
        ("same, post-processing switched off", "myapi", "myapi.shared.core", {"no_postprocess": True}),
        ("nested client, deeper core", "pyapis.billing", "pyapis.billing.runtime.core", {}),
    ]:
        project = WORK / "project"
        shutil.rmtree(project, ignore_errors=True)
        project.mkdir()
        kw = dict(spec_path=str(spec), project_root=str(project), output_package=out_pkg, core_package=core_pkg, **extra)
        r1, _ = gen(**kw)  # first run: package absent -> direct generation
        existing = snap(project)
        r2, out2 = gen(**kw)  # identical call, force not given -> compare-only
        untouched = snap(project) == existing
        print(f"--- {label}: output_package={out_pkg} core_package={core_pkg} {extra or ''}")
        print(f"    first generation : {r1}")
        print(f"    identical re-run : {r2}   (existing tree untouched: {untouched})")
        for line in out2.splitlines():
            if line.startswith("Missing file in existing output") or line.startswith(("--- ", "+++ ")):
                print(f"      generator says: {line}")
        inits = sorted(str(p.relative_to(project)) for p in project.rglob("__init__.py") if "endpoints" not in p.parts
                       and "models" not in p.parts and "mocks" not in p.parts and "auth" not in p.parts)
        print(f"    __init__.py files written by the direct run: {inits}")
        if r2 != "succeeded" or not untouched:
            if "control" in label:
                print("    (unexpected: the control failed too)")
            violations += 1
finally:
    os.chdir("/")
    shutil.rmtree(WORK, ignore_errors=True)

if violations:
    print(f"\nVIOLATION: {violations} layout(s) where re-generating the unchanged spec without force raises "
          "instead of succeeding ('on a match it succeeds').")
    sys.exit(1)
print("\nOK: every identical re-run without force succeeded.")
sys.exit(0)
