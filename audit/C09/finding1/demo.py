"""C09 finding 1: the post-processor (ruff) picks up the *target project's* ruff configuration.

Direct generation formats the files that live below <project_root>, so ruff discovers
<project_root>/pyproject.toml ([tool.ruff] line-length = 120 - a very common setting).  The compare-only
generation of a re-run happens in /tmp/tmpXXXX, where no configuration is found, so ruff uses its defaults
(line-length 88).  Result:
  (a) same document + same options, two output locations  -> different bytes
  (b) immediate re-run without force over an up-to-date output -> "Differences found", GenerationError

Run:  PYTHONPATH=/tmp/wt6_C09/src /venv/bin/python demo.py      (exit 1 = violation present)
"""

import contextlib
import hashlib
import io
import json
import shutil
import sys
import tempfile
from pathlib import Path

from pyopenapi_gen import GenerationError, generate_client

SPEC = {
    "openapi": "3.0.3",
    "info": {"title": "Pets", "version": "1.0"},
    "paths": {
        "/pets/{petId}": {
            "get": {
                "operationId": "getPet",
                "tags": ["pets"],
                "parameters": [{"name": "petId", "in": "path", "required": True, "schema": {"type": "string"}}],
                "responses": {
                    "200": {
                        "description": "ok",
                        "content": {"application/json": {"schema": {"$ref": "#/components/schemas/Pet"}}},
                    },
                    "404": {"description": "not found"},
                },
            }
        }
    },
    "components": {
        "schemas": {
            "Pet": {
                "type": "object",
                "required": ["id"],
                "properties": {"id": {"type": "string"}, "name": {"type": "string"}},
            }
        }
    },
}

PYPROJECT = """[project]
name = "myapp"
version = "0.1.0"

[tool.ruff]
line-length = 120
"""


def tree(root: Path) -> dict[str, str]:
    return {
        str(p.relative_to(root)): hashlib.sha256(p.read_bytes()).hexdigest()
        for p in sorted(root.rglob("*"))
        if p.is_file() and "__pycache__" not in p.parts
    }


def run(spec: Path, project_root: Path, force: bool) -> str:
    buf = io.StringIO()
    try:
        with contextlib.redirect_stdout(buf), contextlib.redirect_stderr(buf):
            generate_client(str(spec), str(project_root), "client", force=force)
        return "OK"
    except GenerationError as e:
        return f"GenerationError: {e}"


def main() -> int:
    base = Path(tempfile.mkdtemp(prefix="audit_C09_f1_"))
    try:
        spec = base / "spec.json"
        spec.write_text(json.dumps(SPEC))

        plain = base / "plain_project"  # no ruff configuration anywhere above it
        configured = base / "configured_project"  # an ordinary project with [tool.ruff] in pyproject.toml
        plain.mkdir()
        configured.mkdir()
        (configured / "pyproject.toml").write_text(PYPROJECT)

        print("first generation, plain project      :", run(spec, plain, force=False))
        print("first generation, configured project :", run(spec, configured, force=False))

        t_plain, t_conf = tree(plain / "client"), tree(configured / "client")
        differing = sorted(k for k in set(t_plain) | set(t_conf) if t_plain.get(k) != t_conf.get(k))
        print(f"(a) files of client/ whose bytes differ between the two locations: {len(differing)}")
        for k in differing:
            print("      ", k)

        before = tree(configured / "client")
        rerun_plain = run(spec, plain, force=False)
        rerun_conf = run(spec, configured, force=False)
        print("(b) re-run without force, plain project      :", rerun_plain)
        print("(b) re-run without force, configured project :", rerun_conf)
        print("    configured output untouched by the re-run:", before == tree(configured / "client"))

        violated = bool(differing) or rerun_conf != "OK" or rerun_plain != "OK"
        print("VIOLATION" if violated else "no violation")
        return 1 if violated else 0
    finally:
        shutil.rmtree(base, ignore_errors=True)


if __name__ == "__main__":
    sys.exit(main())
