"""C09 finding 3: the no-force comparison only looks at the *.py files of the NEW tree.

ClientGenerator._show_diffs() walks `Path(new_dir).rglob("*.py")` and compares each with its counterpart in the
existing output.  Everything else of the generated file tree is invisible to it:
  * files that exist only in the existing output (a stale module that a fresh generation would not contain),
  * every generated non-Python artefact: py.typed markers, core/README.md, core/.exception_registry.json.
So the existing output can differ from what would be generated now and the non-force run still takes the
"No differences found" path and succeeds.

Run:  PYTHONPATH=/tmp/wt6_C09/src /venv/bin/python demo.py      (exit 1 = violation present)
"""

import contextlib
import hashlib
import io
import json
import shutil
import sys
import tempfile
from pathlib import Path

from pyopenapi_gen import GenerationError, generate_client

SPEC = {
    "openapi": "3.0.3",
    "info": {"title": "Pets", "version": "1.0"},
    "paths": {
        "/pets/{petId}": {
            "get": {
                "operationId": "getPet",
                "tags": ["pets"],
                "parameters": [{"name": "petId", "in": "path", "required": True, "schema": {"type": "string"}}],
                "responses": {
                    "200": {
                        "description": "ok",
                        "content": {"application/json": {"schema": {"$ref": "#/components/schemas/Pet"}}},
                    },
                    "404": {"description": "not found"},
                },
            }
        }
    },
    "components": {
        "schemas": {"Pet": {"type": "object", "properties": {"id": {"type": "string"}, "name": {"type": "string"}}}}
    },
}


def tree(root: Path) -> dict[str, str]:
    return {
        str(p.relative_to(root)): hashlib.sha256(p.read_bytes()).hexdigest()
        for p in sorted(root.rglob("*"))
        if p.is_file() and "__pycache__" not in p.parts
    }


def run(spec: Path, root: Path, force: bool) -> str:
    buf = io.StringIO()
    try:
        with contextlib.redirect_stdout(buf), contextlib.redirect_stderr(buf):
            generate_client(str(spec), str(root), "client", force=force)
        return "OK"
    except GenerationError as e:
        return f"GenerationError: {e}"


def main() -> int:
    base = Path(tempfile.mkdtemp(prefix="audit_C09_f3_"))
    try:
        spec = base / "spec.json"
        spec.write_text(json.dumps(SPEC))

        # what a generation "now" produces
        reference_root = base / "reference"
        reference_root.mkdir()
        assert run(spec, reference_root, force=True).startswith("OK")
        reference = tree(reference_root / "client")

        def stale_module(c: Path) -> None:
            # e.g. left over from an earlier spec / generator version / merge; would not be generated now
            (c / "endpoints" / "orders.py").write_text("raise ImportError('stale module')\n")
            (c / "models" / "order.py").write_text("class Order: ...\n")

        def typed_marker_lost(c: Path) -> None:
            (c / "py.typed").unlink()
            (c / "models" / "py.typed").unlink()

        def readme_changed(c: Path) -> None:
            (c / "core" / "README.md").write_text("outdated documentation of an older core\n")

        def registry_changed(c: Path) -> None:
            # same status codes, other serialisation: the .py files stay identical, the generated file does not
            (c / "core" / ".exception_registry.json").write_text('{"client": [404]}')

        def control_py_changed(c: Path) -> None:
            p = c / "models" / "pet.py"
            p.write_text(p.read_text() + "\n# edited\n")

        silent = []
        cases = [
            ("control: a generated .py file edited", control_py_changed),
            ("stale modules only in the existing output", stale_module),
            ("py.typed markers deleted", typed_marker_lost),
            ("core/README.md differs", readme_changed),
            ("core/.exception_registry.json differs", registry_changed),
        ]
        for index, (label, mutate) in enumerate(cases):
            root = base / f"case_{index}"
            root.mkdir()
            assert run(spec, root, force=True).startswith("OK")
            assert tree(root / "client") == reference, "generation is not reproducible?!"
            mutate(root / "client")
            existing = tree(root / "client")
            n_diff = len([k for k in set(existing) | set(reference) if existing.get(k) != reference.get(k)])
            result = run(spec, root, force=False)
            untouched = tree(root / "client") == existing
            print(f"{label}")
            print(f"    files differing from a fresh generation: {n_diff}")
            print(f"    re-run without force                  : {result}   (existing output left as is: {untouched})")
            if n_diff and result == "OK":
                silent.append(label)

        print("existing outputs that differ from a fresh generation but were accepted:", silent)
        print("VIOLATION" if silent else "no violation")
        return 1 if silent else 0
    finally:
        shutil.rmtree(base, ignore_errors=True)


if __name__ == "__main__":
    sys.exit(main())
