"""C09 finding 2: a core package nested two (or more) levels below the client package is generated with a
different package skeleton by direct generation than by the compare-only generation of a re-run.

output_package = "petstore", core_package = "petstore.runtime.core"
  * direct generation creates the missing __init__.py files only for the ancestors of the *client* package, and
    for the ancestors of the core package only `if not str(core_dir).startswith(str(out_dir))` - so
    petstore/runtime/__init__.py is never written;
  * the compare-only branch writes __init__.py for every ancestor of both packages.
An immediate re-run without force therefore reports "Missing file in existing output: .../runtime/__init__.py"
(and, with post-processing, a different import order in exception_aliases.py, because ruff's package detection
depends on those files) and raises GenerationError although nothing changed.

The same `startswith` on path *strings* also misfires for a core that is NOT inside the client package but
whose path merely begins with the same characters (apis.client  vs  apis.client_shared.core).

Run:  PYTHONPATH=/tmp/wt6_C09/src /venv/bin/python demo.py      (exit 1 = violation present)
"""

import contextlib
import io
import json
import shutil
import sys
import tempfile
from pathlib import Path

from pyopenapi_gen import GenerationError, generate_client

SPEC = {
    "openapi": "3.0.3",
    "info": {"title": "Pets", "version": "1.0"},
    "paths": {
        "/pets/{petId}": {
            "get": {
                "operationId": "getPet",
                "tags": ["pets"],
                "parameters": [{"name": "petId", "in": "path", "required": True, "schema": {"type": "string"}}],
                "responses": {
                    "200": {
                        "description": "ok",
                        "content": {"application/json": {"schema": {"$ref": "#/components/schemas/Pet"}}},
                    },
                    "404": {"description": "not found"},
                },
            }
        }
    },
    "components": {
        "schemas": {"Pet": {"type": "object", "properties": {"id": {"type": "string"}, "name": {"type": "string"}}}}
    },
}


def run(spec: Path, root: Path, pkg: str, core: str | None, force: bool, no_postprocess: bool = False):
    buf = io.StringIO()
    try:
        with contextlib.redirect_stdout(buf), contextlib.redirect_stderr(buf):
            generate_client(
                str(spec), str(root), pkg, core_package=core, force=force, no_postprocess=no_postprocess
            )
        return "OK", buf.getvalue()
    except GenerationError as e:
        return f"GenerationError: {e}", buf.getvalue()


def interesting(output: str) -> list[str]:
    return [ln for ln in output.splitlines() if ln.startswith(("Missing file", "--- ", "+++ ", "+from", "-from"))]


def scenario(base: Path, spec: Path, name: str, pkg: str, core: str | None, no_postprocess: bool) -> bool:
    root = base / name
    root.mkdir()
    print(f"== output_package={pkg!r} core_package={core!r} no_postprocess={no_postprocess}")
    first, _ = run(spec, root, pkg, core, force=False, no_postprocess=no_postprocess)
    print("   first generation        :", first)
    second, out = run(spec, root, pkg, core, force=False, no_postprocess=no_postprocess)
    print("   re-run, nothing changed :", second)
    for ln in interesting(out):
        print("      |", ln.replace(str(base), "<base>"))
    return first == "OK" and second == "OK"


def main() -> int:
    base = Path(tempfile.mkdtemp(prefix="audit_C09_f2_"))
    try:
        spec = base / "spec.json"
        spec.write_text(json.dumps(SPEC))
        results = [
            # control: the documented layouts are idempotent
            scenario(base, spec, "control_default", "petstore", None, False),
            scenario(base, spec, "control_shared", "apis.client", "apis.core", False),
            # core nested two levels below the client package
            scenario(base, spec, "nested", "petstore", "petstore.runtime.core", False),
            scenario(base, spec, "nested_nopp", "petstore", "petstore.runtime.core", True),
            # core outside the client package, path shares a string prefix with it
            scenario(base, spec, "prefix", "apis.client", "apis.client_shared.core", False),
        ]
        nested_init = base / "nested" / "petstore" / "runtime" / "__init__.py"
        print("petstore/runtime/__init__.py written by direct generation:", nested_init.exists())
        violated = not all(results)
        print("VIOLATION" if violated else "no violation")
        return 1 if violated else 0
    finally:
        shutil.rmtree(base, ignore_errors=True)


if __name__ == "__main__":
    sys.exit(main())
