"""C15 finding 2: the default of an enum-typed field silently evaluates to a different enum value.

Run:  PYTHONPATH=/tmp/wt6_C15/src /venv/bin/python demo.py
Exit 1 = violation present (generated default != default written in the document), exit 0 = defaults are exact.
"""
import json
import logging
import shutil
import subprocess
import sys
import tempfile
from pathlib import Path

logging.disable(logging.CRITICAL)
from pyopenapi_gen import generate_client  # noqa: E402

CASES = {
    # schema name -> (enum values, default)
    "Comparison": (["<", "<=", "=", "!=", ">=", ">"], "="),   # all values consist of symbols only
    "SortOrder": (["asc", "desc", "ASC", "DESC"], "DESC"),    # values that differ only in case
    "Unit": (["m/s", "ms", "km/h"], "ms"),                    # punctuation is dropped from member names
    "Plain": (["red", "green"], "green"),                     # benign control
}


def spec() -> dict:
    schemas = {
        name: {"type": "string", "enum": values, "default": default} for name, (values, default) in CASES.items()
    }
    schemas["Query"] = {
        "type": "object",
        "properties": {name.lower(): {"$ref": f"#/components/schemas/{name}"} for name in CASES},
    }
    return {
        "openapi": "3.0.3",
        "info": {"title": "Demo", "version": "1.0"},
        "paths": {
            "/search": {
                "post": {
                    "operationId": "search",
                    "requestBody": {
                        "required": True,
                        "content": {"application/json": {"schema": {"$ref": "#/components/schemas/Query"}}},
                    },
                    "responses": {"204": {"description": "done"}},
                }
            }
        },
        "components": {"schemas": schemas},
    }


root = Path(tempfile.mkdtemp(prefix="audit_C15_f2_"))
try:
    (root / "spec.json").write_text(json.dumps(spec()))
    generate_client(str(root / "spec.json"), str(root), "client", force=True, no_postprocess=True)
    src = (root / "client" / "models" / "query.py").read_text()
    print("--- generated client/models/query.py (field lines) ---")
    for line in src.splitlines():
        if " | None = " in line:
            print("   ", line.strip())
    print("--- generated client/models/comparison.py (members) ---")
    for line in (root / "client" / "models" / "comparison.py").read_text().splitlines():
        if line.strip().startswith("MEMBER_"):
            print("   ", line.strip())
    probe = (
        "import json\n"
        "from client.models.query import Query\n"
        "from client.core.cattrs_converter import unstructure_to_dict\n"
        "q = Query()\n"
        "print(json.dumps({k: getattr(q, k).value for k in %r}))\n"
        "print(json.dumps(unstructure_to_dict(q), default=lambda e: e.value))\n" % [n.lower() for n in CASES]
    )
    r = subprocess.run([sys.executable, "-c", probe], cwd=root, capture_output=True, text=True)
    if r.returncode:
        print(r.stderr)
        sys.exit(2)
    got = json.loads(r.stdout.splitlines()[0])
    print("request body sent for Query():", r.stdout.splitlines()[1])
finally:
    shutil.rmtree(root, ignore_errors=True)

wrong = []
for name, (values, default) in CASES.items():
    actual = got[name.lower()]
    flag = "ok" if actual == default else "WRONG"
    print(f"  {name:<10} enum={values!r:<40} default in document={default!r:<7} default in generated code={actual!r:<7} {flag}")
    if actual != default:
        wrong.append(name)
if wrong:
    print("VIOLATION: defaults evaluate to a different string than the document states for:", wrong)
    sys.exit(1)
print("no violation observed")
sys.exit(0)
