"""C15 finding 3: a Unicode line separator inside a parameter name / media type splits the string literal that
carries it over two source lines, so the generated endpoints module does not parse.

Run:  PYTHONPATH=/tmp/wt6_C15/src /venv/bin/python demo.py
Exit 1 = violation present (a generated file does not parse), exit 0 = all files parse and the names are exact.
"""
import ast
import json
import logging
import shutil
import sys
import tempfile
from pathlib import Path

logging.disable(logging.CRITICAL)
from pyopenapi_gen import generate_client  # noqa: E402

# characters that str.splitlines() treats as a line boundary but the Python tokenizer does not
SEPARATORS = {
    "U+2028 LINE SEPARATOR": "\u2028",
    "U+2029 PARAGRAPH SEPARATOR": "\u2029",
    "U+0085 NEXT LINE": "\u0085",
    "U+001C FILE SEPARATOR": "\u001c",
    "U+000B VERTICAL TAB": "\u000b",   # control character: json.dumps escapes it, so it is harmless
}


def spec(sep: str, where: str) -> dict:
    qname = f"page{sep}size" if where == "query name" else "page_size"
    hname = f"X-Trace{sep}Id" if where == "header name" else "X-Trace-Id"
    media = f"application/x-custom{sep}v1" if where == "media type" else "application/x-custom"
    enum_value = f"first{sep}second" if where == "enum value (model, control)" else "first second"
    return {
        "openapi": "3.0.3",
        "info": {"title": "Demo", "version": "1.0"},
        "paths": {
            "/items": {
                "post": {
                    "operationId": "createItem",
                    "parameters": [
                        {"name": qname, "in": "query", "required": True, "schema": {"type": "string"}},
                        {"name": hname, "in": "header", "required": False, "schema": {"type": "string"}},
                    ],
                    "requestBody": {
                        "required": True,
                        "content": {media: {"schema": {"type": "string", "format": "binary"}}},
                    },
                    "responses": {
                        "200": {
                            "description": "ok",
                            "content": {"application/json": {"schema": {"$ref": "#/components/schemas/Kind"}}},
                        }
                    },
                }
            }
        },
        "components": {"schemas": {"Kind": {"type": "string", "enum": [enum_value, "other"]}}},
    }


def literals(tree: ast.AST) -> set[str]:
    return {n.value for n in ast.walk(tree) if isinstance(n, ast.Constant) and isinstance(n.value, str)}


def run(sep: str, where: str) -> tuple[list[str], bool]:
    root = Path(tempfile.mkdtemp(prefix="audit_C15_f3_"))
    try:
        doc = spec(sep, where)
        (root / "spec.json").write_text(json.dumps(doc))
        generate_client(str(root / "spec.json"), str(root), "client", force=True, no_postprocess=True)
        broken, found = [], set()
        for py in sorted((root / "client").rglob("*.py")):
            if "core" in py.relative_to(root).parts:
                continue
            try:
                found |= literals(ast.parse(py.read_text()))
            except SyntaxError as e:
                broken.append(f"{py.relative_to(root)}:{e.lineno}: {e.msg}")
        op = doc["paths"]["/items"]["post"]
        wanted = {op["parameters"][0]["name"], op["parameters"][1]["name"], next(iter(op["requestBody"]["content"]))}
        return broken, wanted <= found
    finally:
        shutil.rmtree(root, ignore_errors=True)


violations = 0
broken, exact = run("", "query name")
print(f"benign text: unparseable files={broken} wire names present as exact literals={exact}")
for where in ("query name", "header name", "media type", "enum value (model, control)"):
    for label, sep in SEPARATORS.items():
        broken, exact = run(sep, where)
        status = "ok" if not broken and (exact or "control" in where) else "BROKEN"
        print(f"{where:<28} with {label:<27}: {status} {broken if broken else ''}")
        if broken:
            violations += 1
if violations:
    print(f"VIOLATION: {violations} document variants produce a generated module that does not parse")
    sys.exit(1)
print("no violation observed")
sys.exit(0)
