"""C15 finding 1: a description that ends with a double quote breaks every generated type-alias module.

Run:  PYTHONPATH=/tmp/wt6_C15/src /venv/bin/python demo.py
Exit 1 = violation present (a generated file does not parse), exit 0 = all files parse.
"""
import ast
import json
import logging
import shutil
import subprocess
import sys
import tempfile
from pathlib import Path

logging.disable(logging.CRITICAL)
from pyopenapi_gen import generate_client  # noqa: E402

HOSTILE = 'Sort direction, either "asc" or "desc"'   # ends with a double quote - perfectly ordinary prose
BENIGN = "Sort direction, either asc or desc"


def spec(desc: str) -> dict:
    return {
        "openapi": "3.0.3",
        "info": {"title": "Demo", "version": "1.0"},
        "paths": {
            "/items": {
                "get": {
                    "operationId": "listItems",
                    "responses": {
                        "200": {
                            "description": "ok",
                            "content": {"application/json": {"schema": {"$ref": "#/components/schemas/Page"}}},
                        }
                    },
                }
            }
        },
        "components": {
            "schemas": {
                # three shapes that the generator renders as a TypeAlias module
                "SortDirection": {"type": "string", "description": desc},
                "Labels": {"type": "array", "items": {"type": "string"}, "description": desc},
                "IdOrName": {"oneOf": [{"type": "string"}, {"type": "integer"}], "description": desc},
                "Page": {
                    "type": "object",
                    "properties": {
                        "sort": {"$ref": "#/components/schemas/SortDirection"},
                        "labels": {"$ref": "#/components/schemas/Labels"},
                        "key": {"$ref": "#/components/schemas/IdOrName"},
                    },
                },
            }
        },
    }


def run(desc: str, label: str) -> list[str]:
    root = Path(tempfile.mkdtemp(prefix="audit_C15_f1_"))
    try:
        spec_path = root / "spec.json"
        spec_path.write_text(json.dumps(spec(desc)))
        generate_client(str(spec_path), str(root), "client", force=True, no_postprocess=True)
        broken = []
        for py in sorted((root / "client").rglob("*.py")):
            try:
                ast.parse(py.read_text())
            except SyntaxError as e:
                rel = py.relative_to(root)
                broken.append(str(rel))
                print(f"  [{label}] {rel}: SyntaxError: {e.msg} (line {e.lineno})")
                print(f"      offending line: {py.read_text().splitlines()[e.lineno - 1]!r}")
        r = subprocess.run(
            [sys.executable, "-c", "import client.models, client.client"], cwd=root, capture_output=True, text=True
        )
        print(f"  [{label}] generation raised no error; files that do not parse: {len(broken)}; "
              f"'import client.models' exit code: {r.returncode}")
        if r.returncode:
            print("      " + r.stderr.strip().splitlines()[-1])
        return broken
    finally:
        shutil.rmtree(root, ignore_errors=True)


print(f"benign description : {BENIGN!r}")
ok = run(BENIGN, "benign")
print(f"hostile description: {HOSTILE!r}")
bad = run(HOSTILE, "hostile")
if bad and not ok:
    print("VIOLATION: description text ending in '\"' makes generated alias modules unparseable:", bad)
    sys.exit(1)
print("no violation observed")
sys.exit(0)
