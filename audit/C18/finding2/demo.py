"""C18 finding 2: comments are not ignored - a block that contains only comment lines (the usual SSE keep-alive,
": ping\\n\\n") makes iter_sse yield an extra SSEEvent with data == ''.

Run:  PYTHONPATH=/tmp/wt6_C18/src /venv/bin/python demo.py      (exit 1 = violation present)
"""
import asyncio
import sys

import httpx

from pyopenapi_gen.core.streaming_helpers import iter_sse


def make_response(chunks):
    async def gen():
        for c in chunks:
            yield c

    return httpx.Response(200, headers={"content-type": "text/event-stream"}, content=gen())


async def events(chunks):
    return [(ev.event, ev.data) async for ev in iter_sse(make_response(chunks))]


def main() -> int:
    # A server that sends a comment every few seconds so that proxies keep the connection open
    # (Spring SseEmitter, sse-starlette "ping", Mercure, GitHub/OpenAI style ": keep-alive").
    with_comments = (
        ": stream opened\n"
        "\n"
        "event: tick\n"
        'data: {"n": 1}\n'
        "\n"
        ": keep-alive\n"
        "\n"
        ": keep-alive\r\n"
        "\r\n"
        "event: tick\n"
        ": a comment between the lines of one event\n"
        'data: {"n": 2}\n'
        "\n"
        ": bye"  # final unterminated block, comment only
    )
    # The very same events with the comment lines (and their terminating blank lines) removed
    without_comments = 'event: tick\ndata: {"n": 1}\n\nevent: tick\ndata: {"n": 2}\n\n'

    expected = [("tick", '{"n": 1}'), ("tick", '{"n": 2}')]
    baseline = asyncio.run(events([without_comments.encode()]))
    print("events sent                      :", expected)
    print("stream without comments decodes to:", baseline)

    raw = with_comments.encode()
    bad = 0
    for label, chunks in (
        ("unsplit", [raw]),
        ("1-byte chunks", [raw[i : i + 1] for i in range(len(raw))]),
        ("split after each comment line", [c for c in raw.replace(b"alive\n", b"alive\n\x00").split(b"\x00") if c]),
    ):
        got = asyncio.run(events(chunks))
        ok = got == expected
        bad += not ok
        print(f"stream with comments [{label}] -> {len(got)} events: {got}  {'OK' if ok else 'WRONG'}")

    if bad or baseline != expected:
        print("\nVIOLATION: comment-only blocks are delivered as events with empty data "
              "(a consumer doing json.loads(event.data) crashes on every keep-alive)")
        return 1
    print("\nno violation")
    return 0


if __name__ == "__main__":
    sys.exit(main())
