"""C18 finding 1: characters that are NOT SSE / NDJSON line terminators (U+2028, U+2029, U+0085, VT, FF, FS, GS, RS)
are treated as line breaks by the streaming helpers.  SSE data is silently truncated (or turned into other fields) and
NDJSON records are cut in the middle.

Run:  PYTHONPATH=/tmp/wt6_C18/src /venv/bin/python demo.py      (exit 1 = violation present)
"""
import asyncio
import json
import re
import sys

import httpx

from pyopenapi_gen.core.streaming_helpers import iter_ndjson, iter_sse


def make_response(chunks, content_type):
    async def gen():
        for c in chunks:
            yield c

    return httpx.Response(200, headers={"content-type": content_type}, content=gen())


def chunkings(raw: bytes):
    """unsplit, byte-by-byte, and a split inside every multi-byte character / line terminator"""
    yield "unsplit", [raw]
    yield "1-byte chunks", [raw[i : i + 1] for i in range(len(raw))]
    yield "7-byte chunks", [raw[i : i + 7] for i in range(0, len(raw), 7)]


# ---- reference decoders that implement exactly what the property text says --------------------------------------
def reference_sse(text: str):
    """One event per blank-line-terminated block, data lines joined by \\n, comments ignored, last block delivered.
    Line terminators are the three the SSE format defines: CRLF, LF, CR."""
    events, data, seen = [], [], False
    lines = re.split(r"\r\n|\n|\r", text)
    if lines and lines[-1] == "":
        lines.pop()
    for line in lines + [""]:
        if line == "":
            if seen:
                events.append("\n".join(data))
            data, seen = [], False
            continue
        if line.startswith(":"):
            continue
        seen = True
        name, _, value = line.partition(":")
        if value.startswith(" "):
            value = value[1:]
        if name == "data":
            data.append(value)
    return events


def reference_ndjson(text: str):
    return [json.loads(line) for line in text.split("\n") if line.strip()]


async def sse_datas(chunks):
    return [ev.data async for ev in iter_sse(make_response(chunks, "text/event-stream"))]


async def ndjson_items(chunks):
    out = []
    try:
        async for item in iter_ndjson(make_response(chunks, "application/x-ndjson")):
            out.append(item)
    except Exception as exc:  # noqa: BLE001
        out.append(f"<raised {type(exc).__name__}: {exc}>")
    return out


def main() -> int:
    violations = 0

    # 1. What JSON.stringify({text: "line one\u2028line two"}) / json.dumps(..., ensure_ascii=False) put on the wire:
    #    U+2028 is legal, unescaped, inside a JSON string.
    msg = {"n": 1, "text": "line one\u2028line two"}
    sse_stream = (
        "data: " + json.dumps(msg, ensure_ascii=False) + "\n\n"
        "data: first paragraph\u2029second paragraph\n\n"
        "data: café \u0085 next-line char\n\n"
        "data: hello\u2028event: injected\n\n"
    )
    expected = reference_sse(sse_stream)
    print("SSE stream         :", repr(sse_stream))
    print("SSE expected data  :", expected)
    for label, chunks in chunkings(sse_stream.encode("utf-8")):
        got = asyncio.run(sse_datas(chunks))
        ok = got == expected
        violations += not ok
        print(f"  iter_sse [{label:13}] -> {got}  {'OK' if ok else 'WRONG'}")
    events = asyncio.run(_events(sse_stream.encode()))
    print("  last event as parsed:", events[-1], "(the tail of a data line became the event type)")

    # 2. The same record as an NDJSON line
    nd_stream = json.dumps(msg, ensure_ascii=False) + "\n" + json.dumps({"n": 2, "text": "plain"}) + "\n"
    expected_nd = reference_ndjson(nd_stream)
    print("NDJSON stream      :", repr(nd_stream))
    print("NDJSON expected    :", expected_nd)
    for label, chunks in chunkings(nd_stream.encode("utf-8")):
        got = asyncio.run(ndjson_items(chunks))
        ok = got == expected_nd
        violations += not ok
        print(f"  iter_ndjson [{label:13}] -> {got}  {'OK' if ok else 'WRONG'}")

    if violations:
        print(f"\nVIOLATION: {violations} decodings differ from the items that were sent")
        return 1
    print("\nno violation")
    return 0


async def _events(raw):
    return [ev async for ev in iter_sse(make_response([raw], "text/event-stream"))]


if __name__ == "__main__":
    sys.exit(main())
