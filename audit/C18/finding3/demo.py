"""C18 finding 3: an operation whose response is application/x-ndjson is generated with the SSE decoder
(iter_sse_events_text) instead of iter_ndjson, so the generated method yields NO items at all for a
perfectly valid NDJSON body - silently, for every chunking.

Run:  PYTHONPATH=/tmp/wt6_C18/src /venv/bin/python demo.py      (exit 1 = violation present)
"""
import json
import os
import shutil
import subprocess
import sys
import tempfile
from pathlib import Path

SPEC = {
    "openapi": "3.0.3",
    "info": {"title": "Logs", "version": "1.0.0"},
    "servers": [{"url": "http://api.test"}],
    "paths": {
        "/logs": {
            "get": {
                "operationId": "tailLogs",
                "summary": "Tail the log as newline-delimited JSON",
                "tags": ["logs"],
                "responses": {
                    "200": {
                        "description": "one LogLine per line",
                        "content": {"application/x-ndjson": {"schema": {"$ref": "#/components/schemas/LogLine"}}},
                    }
                },
            }
        }
    },
    "components": {
        "schemas": {
            "LogLine": {
                "type": "object",
                "required": ["n"],
                "properties": {"n": {"type": "integer"}, "msg": {"type": "string"}},
            }
        }
    },
}

RUNNER = r'''
import asyncio, json, sys
import httpx
from ndclient.core.http_transport import HttpxTransport
from ndclient.core.streaming_helpers import iter_ndjson
from ndclient.endpoints.logs import LogsClient

BODY = b'{"n": 1, "msg": "started"}\n{"n": 2, "msg": "caf\xc3\xa9"}\r\n{"n": 3}'   # last record unterminated

def chunked(size):
    async def gen():
        for i in range(0, len(BODY), size):
            yield BODY[i:i + size]
    return gen()

def handler_for(size):
    def handler(request):
        return httpx.Response(200, headers={"content-type": "application/x-ndjson"}, content=chunked(size))
    return handler

async def main():
    result = {}
    for size in (len(BODY), 1, 5):
        transport = HttpxTransport(base_url="http://api.test")
        transport._client = httpx.AsyncClient(transport=httpx.MockTransport(handler_for(size)))
        client = LogsClient(transport, "http://api.test")
        items = [item async for item in client.tail_logs()]
        result[f"generated tail_logs(), {size}-byte chunks"] = [repr(i) for i in items]
        await transport.close()
    # what the package's own NDJSON helper makes of the same body
    resp = httpx.Response(200, headers={"content-type": "application/x-ndjson"}, content=chunked(5))
    result["core.streaming_helpers.iter_ndjson, 5-byte chunks"] = [repr(i) async for i in iter_ndjson(resp)]
    print(json.dumps(result))

asyncio.run(main())
'''


def main() -> int:
    from pyopenapi_gen.generator.client_generator import ClientGenerator

    tmp = Path(tempfile.mkdtemp(prefix="audit_C18_f3_"))
    try:
        spec_path = tmp / "spec.json"
        spec_path.write_text(json.dumps(SPEC))
        ClientGenerator(verbose=False).generate(
            spec_path=str(spec_path), project_root=tmp, output_package="ndclient", force=True, no_postprocess=True
        )
        src = (tmp / "ndclient" / "endpoints" / "logs.py").read_text()
        print("--- generated body of LogsClient.tail_logs (case 200) ---")
        lines = src.splitlines()
        for i, line in enumerate(lines):
            if "case 200:" in line and "Protocol" not in line:
                print("\n".join(lines[i : i + 4]))
                break
        print("uses iter_ndjson:", "iter_ndjson" in src, "| uses iter_sse_events_text:", "iter_sse_events_text" in src)

        (tmp / "runner.py").write_text(RUNNER)
        env = dict(os.environ, PYTHONPATH=str(tmp))
        proc = subprocess.run([sys.executable, str(tmp / "runner.py")], capture_output=True, text=True, env=env, timeout=90)
        if proc.returncode != 0:
            print("runner failed:\n", proc.stdout, proc.stderr)
            return 1
        result = json.loads(proc.stdout.strip().splitlines()[-1])
        print("--- server sends 3 NDJSON records: n=1, n=2, n=3 ---")
        bad = 0
        for label, items in result.items():
            print(f"{label:52} -> {len(items)} items {items}")
            if label.startswith("generated") and len(items) != 3:
                bad += 1
        if bad:
            print("\nVIOLATION: the generated NDJSON endpoint delivers none of the records that were sent")
            return 1
        print("\nno violation")
        return 0
    finally:
        shutil.rmtree(tmp, ignore_errors=True)


if __name__ == "__main__":
    sys.exit(main())
