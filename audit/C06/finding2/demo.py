"""C06 finding 2 - the bundled HttpxTransport builds the error from `response.text` eagerly and unguarded.

For a non-2xx response whose Content-Type names a charset that Python knows but cannot decode the body with
(most plausibly `charset=utf-16` / `utf-32` on a body without a byte-order mark - RFC 2781 allows BOM-less
UTF-16, Python's incremental decoder does not), `response.text` raises UnicodeError *inside* HttpxTransport.request,
before the HTTPError is constructed.  The caller gets a UnicodeError: not an HTTPError, no status code, no response;
`except ClientError / ServerError / HTTPError` handlers are all bypassed.  The same body with a 200 status is
returned normally (response.json() decodes from bytes), so only the error path is affected.

Everything here is the unmodified generated package talking to a real HTTP server on 127.0.0.1
(falls back to httpx.MockTransport if sockets are unavailable).

Run:  PYTHONPATH=/tmp/wt6_C06/src /venv/bin/python demo.py      (exit 1 = violation present)
"""
import json
import logging
import subprocess
import sys
import tempfile
import textwrap
from pathlib import Path

logging.disable(logging.CRITICAL)

SPEC = {
    "openapi": "3.0.3",
    "info": {"title": "Orders", "version": "1.0"},
    "paths": {
        "/orders/{orderId}": {
            "get": {
                "operationId": "getOrder",
                "tags": ["orders"],
                "parameters": [{"name": "orderId", "in": "path", "required": True, "schema": {"type": "string"}}],
                "responses": {
                    "200": {"description": "an order", "content": {"application/json": {"schema": {"$ref": "#/components/schemas/Order"}}}},
                    "404": {"description": "no such order", "content": {"application/json": {"schema": {"$ref": "#/components/schemas/Error"}}}},
                    "500": {"description": "server error", "content": {"application/json": {"schema": {"$ref": "#/components/schemas/Error"}}}},
                },
            }
        }
    },
    "components": {
        "schemas": {
            "Order": {"type": "object", "properties": {"id": {"type": "string"}}},
            "Error": {"type": "object", "properties": {"message": {"type": "string"}}},
        }
    },
}

RUNNER = textwrap.dedent(
    '''
    import asyncio, sys
    import httpx
    from orderclient.client import APIClient
    from orderclient.core.config import ClientConfig
    from orderclient.core.exceptions import HTTPError, ClientError, ServerError

    # (label, status, content-type, body)
    CASES = [
        ("control: utf-8 error body",            500, "application/json; charset=utf-8",  '{"message": "boom"}'.encode("utf-8")),
        ("control: utf-16 WITH BOM",             500, "application/json; charset=utf-16", '{"message": "boom"}'.encode("utf-16")),
        ("utf-16 label, BOM-less UTF-16BE body", 500, "application/json; charset=utf-16", '{"message": "boom"}'.encode("utf-16-be")),
        ("utf-16 label, BOM-less UTF-16LE body", 404, "application/json; charset=utf-16", '{"message": "no such order"}'.encode("utf-16-le")),
        ("utf-32 label, BOM-less body",          503, "text/plain; charset=utf-32",       "maintenance".encode("utf-32-le")),
        ("utf-16 label on a plain ASCII body",   502, "text/html; charset=utf-16",        b"<html>Bad Gateway</html>"),
        ("same BOM-less utf-16 body, but 200",   200, "application/json; charset=utf-16", '{"id": "42"}'.encode("utf-16-le")),
    ]

    async def serve(reader, writer):
        request_line = await reader.readline()
        while (await reader.readline()) not in (b"\\r\\n", b""):
            pass
        idx = int(request_line.split()[1].rsplit(b"/", 1)[1])
        _, status, ctype, body = CASES[idx]
        head = f"HTTP/1.1 {status} X\\r\\nContent-Type: {ctype}\\r\\nContent-Length: {len(body)}\\r\\nConnection: close\\r\\n\\r\\n"
        writer.write(head.encode("latin-1") + body)
        await writer.drain()
        writer.close()

    async def main():
        bad = 0
        try:
            server = await asyncio.start_server(serve, "127.0.0.1", 0)
            port = server.sockets[0].getsockname()[1]
            base = f"http://127.0.0.1:{port}"
            patch = None
            print("real HTTP server on 127.0.0.1 (ephemeral port), default APIClient(config) -> bundled HttpxTransport")
        except OSError as exc:
            server, base = None, "http://orders.test"
            def handler(request):
                _, status, ctype, body = CASES[int(request.url.path.rsplit("/", 1)[1])]
                return httpx.Response(status, headers={"content-type": ctype}, content=body)
            patch = lambda c: setattr(c.transport, "_client", httpx.AsyncClient(transport=httpx.MockTransport(handler), base_url=base))
            print(f"no sockets ({exc}); bundled HttpxTransport over httpx.MockTransport")
        for idx, (label, status, ctype, body) in enumerate(CASES):
            client = APIClient(ClientConfig(base_url=base))
            if patch:
                patch(client)
            try:
                value = await client.orders.get_order(order_id=str(idx))
                ok = 200 <= status < 300
                print(f"  {status} {label:40s}: returned {value!r}  {'ok' if ok else '<-- VIOLATION'}")
            except HTTPError as e:
                want = ClientError if status < 500 else ServerError
                ok = isinstance(e, want) and e.status_code == status and getattr(e.response, "status_code", None) == status
                print(f"  {status} {label:40s}: {type(e).__name__}(status_code={e.status_code})  {'ok' if ok else '<-- VIOLATION'}")
            except BaseException as e:
                ok = False
                print(f"  {status} {label:40s}: {type(e).__name__}: {e}; is HTTPError={isinstance(e, HTTPError)}, "
                      f"status_code={getattr(e, 'status_code', None)}, response={getattr(e, 'response', None)}  <-- VIOLATION")
            finally:
                await client.close()
            bad += 0 if ok else 1
        if server:
            server.close()
        print("violations:", bad)
        sys.exit(1 if bad else 0)

    asyncio.run(main())
    '''
)


def main() -> int:
    from pyopenapi_gen.generator.client_generator import ClientGenerator

    with tempfile.TemporaryDirectory(prefix="audit_C06_f2_") as tmp:
        root = Path(tmp)
        spec_path = root / "spec.json"
        spec_path.write_text(json.dumps(SPEC))
        ClientGenerator(verbose=False).generate(str(spec_path), root, "orderclient", force=True, no_postprocess=True)
        runner = root / "runner.py"
        runner.write_text(RUNNER)
        sys.stdout.flush()
        proc = subprocess.run([sys.executable, str(runner)], cwd=str(root), env={"PYTHONPATH": str(root), "PATH": ""})
        if proc.returncode == 1:
            print("\nVIOLATION: a non-2xx response surfaced as UnicodeError instead of ClientError/ServerError (status and response lost)")
            return 1
        if proc.returncode != 0:
            print("demo itself failed, rc", proc.returncode)
            return 2
        print("\nno violation observed")
        return 0


if __name__ == "__main__":
    sys.exit(main())
