"""C06 finding 1 - the generated status dispatch raises a bare HTTPError (neither ClientError nor
ServerError) for every 4xx/5xx status that is not declared as an exact number - including statuses the
spec declares as the ranges '4XX' / '5XX' and statuses covered by a content-less `default`.

The branch is reached with any transport that hands the response back to the generated method (a test double,
or the custom transport the README recommends "to access full response").  The bundled HttpxTransport is run as
a control: it classifies correctly, which is exactly why the two layers disagree.

Run:  PYTHONPATH=/tmp/wt6_C06/src /venv/bin/python demo.py      (exit 1 = violation present)
"""
import json
import logging
import subprocess
import sys
import tempfile
import textwrap
from pathlib import Path

logging.disable(logging.CRITICAL)

SPEC = {
    "openapi": "3.0.3",
    "info": {"title": "Pets", "version": "1.0"},
    "paths": {
        "/pets/{petId}": {
            "get": {
                "operationId": "getPet",
                "tags": ["pets"],
                "parameters": [{"name": "petId", "in": "path", "required": True, "schema": {"type": "string"}}],
                "responses": {
                    "200": {"description": "a pet", "content": {"application/json": {"schema": {"$ref": "#/components/schemas/Pet"}}}},
                    "404": {"description": "no such pet", "content": {"application/json": {"schema": {"$ref": "#/components/schemas/Error"}}}},
                },
            },
            "put": {
                "operationId": "updatePet",
                "tags": ["pets"],
                "parameters": [{"name": "petId", "in": "path", "required": True, "schema": {"type": "string"}}],
                "responses": {
                    "200": {"description": "updated", "content": {"application/json": {"schema": {"$ref": "#/components/schemas/Pet"}}}},
                    "4XX": {"description": "any client error", "content": {"application/json": {"schema": {"$ref": "#/components/schemas/Error"}}}},
                    "5XX": {"description": "any server error", "content": {"application/json": {"schema": {"$ref": "#/components/schemas/Error"}}}},
                },
            },
            "delete": {
                "operationId": "deletePet",
                "tags": ["pets"],
                "parameters": [{"name": "petId", "in": "path", "required": True, "schema": {"type": "string"}}],
                "responses": {"204": {"description": "deleted"}, "default": {"description": "error"}},
            },
        }
    },
    "components": {
        "schemas": {
            "Pet": {"type": "object", "properties": {"name": {"type": "string"}}},
            "Error": {"type": "object", "properties": {"message": {"type": "string"}}},
        }
    },
}

RUNNER = textwrap.dedent(
    '''
    import asyncio, sys
    import httpx
    from petclient.client import APIClient
    from petclient.core.config import ClientConfig
    from petclient.core.exceptions import HTTPError, ClientError, ServerError
    from petclient.core.http_transport import HttpxTransport

    def handler_for(status):
        def handler(request):
            return httpx.Response(status, json={"message": "nope"}, headers={"x-request-id": "r-1"})
        return handler

    class FullResponseTransport:
        """Custom HttpTransport that keeps the last response around (README: 'Use custom transport to access
        full response') and leaves the status dispatch to the generated method."""
        def __init__(self, status):
            self._client = httpx.AsyncClient(transport=httpx.MockTransport(handler_for(status)))
            self.last_response = None
        async def request(self, method, url, **kwargs):
            self.last_response = await self._client.request(method, url, **kwargs)
            return self.last_response
        async def close(self):
            await self._client.aclose()

    def bundled_transport(status):
        t = HttpxTransport("http://pets.test")
        t._client = httpx.AsyncClient(transport=httpx.MockTransport(handler_for(status)), base_url="http://pets.test")
        return t

    def handler_style(exc):
        """What a user's `except ClientError / except ServerError / except HTTPError` ladder (README) selects."""
        try:
            raise exc
        except ClientError:
            return "except ClientError"
        except ServerError:
            return "except ServerError"
        except HTTPError:
            return "except HTTPError (catch-all only)"

    async def call(client, op):
        return await getattr(client.pets, op)(pet_id="7")

    async def main():
        bad = 0
        for label, factory in (("bundled HttpxTransport (control)", bundled_transport),
                               ("response-returning custom transport", FullResponseTransport)):
            print(f"--- {label}")
            for op in ("get_pet", "update_pet", "delete_pet"):
                for status in (404, 403, 429, 500, 503):
                    client = APIClient(ClientConfig(base_url="http://pets.test"), transport=factory(status))
                    try:
                        value = await call(client, op)
                        print(f"  {op:10s} {status}: RETURNED {value!r}")
                        bad += 1
                        continue
                    except HTTPError as e:
                        want = ClientError if status < 500 else ServerError
                        ok = isinstance(e, want) and e.status_code == status and getattr(e.response, "status_code", None) == status
                        print(f"  {op:10s} {status}: {type(e).__name__:22s} caught by: {handler_style(e):36s} {'ok' if ok else '<-- VIOLATION'}")
                        bad += 0 if ok else 1
                    except BaseException as e:
                        print(f"  {op:10s} {status}: non-HTTPError {type(e).__name__}: {e}  <-- VIOLATION")
                        bad += 1
        print("violations:", bad)
        sys.exit(1 if bad else 0)

    asyncio.run(main())
    '''
)


def main() -> int:
    from pyopenapi_gen.generator.client_generator import ClientGenerator

    with tempfile.TemporaryDirectory(prefix="audit_C06_f1_") as tmp:
        root = Path(tmp)
        spec_path = root / "spec.json"
        spec_path.write_text(json.dumps(SPEC))
        ClientGenerator(verbose=False).generate(str(spec_path), root, "petclient", force=True, no_postprocess=True)

        src = (root / "petclient" / "endpoints" / "pets.py").read_text().splitlines()
        print("generated dispatch of update_pet (declares 200, '4XX', '5XX'):")
        start = next(i for i, line in enumerate(src) if "async def update_pet" in line and "..." not in "".join(src[i : i + 4]))
        m = next(i for i in range(start, len(src)) if "match response.status_code" in src[i])
        for line in src[m : m + 6]:
            print("   |" + line)
        print()

        runner = root / "runner.py"
        runner.write_text(RUNNER)
        sys.stdout.flush()
        proc = subprocess.run([sys.executable, str(runner)], cwd=str(root), env={"PYTHONPATH": str(root), "PATH": ""})
        if proc.returncode == 1:
            print("\nVIOLATION: 4xx/5xx statuses reach `except HTTPError` only - `except ClientError` / `except ServerError` miss them")
            return 1
        if proc.returncode != 0:
            print("demo itself failed, rc", proc.returncode)
            return 2
        print("\nno violation observed")
        return 0


if __name__ == "__main__":
    sys.exit(main())
