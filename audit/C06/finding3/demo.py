"""C06 finding 3 - an error-body schema named like a generated exception alias (GoneError, NotFoundError,
ConflictError, ...) shadows the alias inside the endpoint module, so the *declared* status branch
`raise GoneError(response=response)` instantiates the dataclass model and dies with TypeError.

Trigger: a tag in which some operation uses that schema as its (fallback) return type - here a deprecated v1
operation that only documents `410 Gone` - which makes the endpoint module import `..models.gone_error.GoneError`
next to `from <core> import GoneError`.  Every operation of that tag that declares 410 is affected, also the
healthy v2 operation.  The branch is reached with a transport that returns the response to the generated method
(test double / custom "full response" transport); the bundled HttpxTransport is shown as a control.

Run:  PYTHONPATH=/tmp/wt6_C06/src /venv/bin/python demo.py      (exit 1 = violation present)
"""
import json
import logging
import subprocess
import sys
import tempfile
import textwrap
from pathlib import Path

logging.disable(logging.CRITICAL)

ERR = {"application/json": {"schema": {"$ref": "#/components/schemas/GoneError"}}}
SPEC = {
    "openapi": "3.0.3",
    "info": {"title": "Pets", "version": "2.0"},
    "paths": {
        "/v1/pets": {
            "get": {
                "operationId": "listPetsV1",
                "tags": ["pets"],
                "deprecated": True,
                "summary": "Removed - use /v2/pets",
                "responses": {"410": {"description": "removed, use v2", "content": ERR}},
            }
        },
        "/v2/pets": {
            "get": {
                "operationId": "listPets",
                "tags": ["pets"],
                "responses": {
                    "200": {
                        "description": "pets",
                        "content": {"application/json": {"schema": {"type": "array", "items": {"$ref": "#/components/schemas/Pet"}}}},
                    },
                    "410": {"description": "page token expired", "content": ERR},
                },
            }
        },
    },
    "components": {
        "schemas": {
            "Pet": {"type": "object", "properties": {"name": {"type": "string"}}},
            "GoneError": {"type": "object", "properties": {"message": {"type": "string"}}},
        }
    },
}

RUNNER = textwrap.dedent(
    '''
    import asyncio, sys
    import httpx
    from petclient.client import APIClient
    from petclient.core.config import ClientConfig
    from petclient.core.exceptions import HTTPError, ClientError
    from petclient.core.http_transport import HttpxTransport
    import petclient.endpoints.pets as pets_module
    import petclient.core as core

    def handler(request):
        return httpx.Response(410, json={"message": "gone"})

    class FullResponseTransport:
        def __init__(self):
            self._client = httpx.AsyncClient(transport=httpx.MockTransport(handler))
            self.last_response = None
        async def request(self, method, url, **kwargs):
            self.last_response = await self._client.request(method, url, **kwargs)
            return self.last_response
        async def close(self):
            await self._client.aclose()

    def bundled():
        t = HttpxTransport("http://pets.test")
        t._client = httpx.AsyncClient(transport=httpx.MockTransport(handler), base_url="http://pets.test")
        return t

    async def main():
        print("name `GoneError` inside petclient.endpoints.pets is:", pets_module.GoneError,
              "| exception alias is:", core.GoneError, "| same object:", pets_module.GoneError is core.GoneError)
        bad = 0
        for label, factory in (("bundled HttpxTransport (control)", bundled), ("response-returning custom transport", FullResponseTransport)):
            print(f"--- {label}")
            for op in ("list_pets_v1", "list_pets"):
                client = APIClient(ClientConfig(base_url="http://pets.test"), transport=factory())
                try:
                    value = await getattr(client.pets, op)()
                    print(f"  {op:13s} 410: RETURNED {value!r}  <-- VIOLATION")
                    bad += 1
                except HTTPError as e:
                    ok = isinstance(e, ClientError) and e.status_code == 410 and getattr(e.response, "status_code", None) == 410
                    print(f"  {op:13s} 410: {type(e).__name__}(status_code={e.status_code})  {'ok' if ok else '<-- VIOLATION'}")
                    bad += 0 if ok else 1
                except BaseException as e:
                    print(f"  {op:13s} 410: {type(e).__name__}: {e}; is HTTPError={isinstance(e, HTTPError)}  <-- VIOLATION")
                    bad += 1
        print("violations:", bad)
        sys.exit(1 if bad else 0)

    asyncio.run(main())
    '''
)


def main() -> int:
    from pyopenapi_gen.generator.client_generator import ClientGenerator

    with tempfile.TemporaryDirectory(prefix="audit_C06_f3_") as tmp:
        root = Path(tmp)
        spec_path = root / "spec.json"
        spec_path.write_text(json.dumps(SPEC))
        ClientGenerator(verbose=False).generate(str(spec_path), root, "petclient", force=True, no_postprocess=True)

        src = (root / "petclient" / "endpoints" / "pets.py").read_text().splitlines()
        print("imports and 410 branches of the generated petclient/endpoints/pets.py:")
        for no, line in enumerate(src, 1):
            if "GoneError" in line and ("import" in line or "raise" in line):
                print(f"   |{no:4d}: {line}")
        print()

        runner = root / "runner.py"
        runner.write_text(RUNNER)
        sys.stdout.flush()
        proc = subprocess.run([sys.executable, str(runner)], cwd=str(root), env={"PYTHONPATH": str(root), "PATH": ""})
        if proc.returncode == 1:
            print("\nVIOLATION: the declared 410 raises TypeError (the model class shadows the exception alias), not an HTTPError/ClientError")
            return 1
        if proc.returncode != 0:
            print("demo itself failed, rc", proc.returncode)
            return 2
        print("\nno violation observed")
        return 0


if __name__ == "__main__":
    sys.exit(main())
