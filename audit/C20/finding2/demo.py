#!/usr/bin/env python
"""C20 finding 2: parameter names are not kept apart from the names the generated method body owns.

The endpoint method template uses fixed identifiers of its own: `self`, `url`, `body` (also `files`, `form_data`,
`bytes_content`), `json_body`, `params`, `headers`, `response`. Parameter names derived from the spec are only
de-duplicated against each other, not against these:

  A. query parameter `url`  -> the argument is overwritten by `url = f"{self.base_url}/..."` before the query dict is
     built: the client silently sends its own request URL as the value of `?url=`.
  B. query parameter `body` next to a JSON request body -> the request-body parameter is dropped from the signature
     (one `body` argument left), the query value is sent as the JSON payload.
  C. query parameter `self` -> `def f(self, self: ...)`: the endpoints module does not compile.

Run: PYTHONPATH=/tmp/wt6_C20/src /venv/bin/python demo.py      (exit 1 = violation present, 0 = correct)
"""
import json
import logging
import shutil
import subprocess
import sys
import tempfile
from pathlib import Path

logging.disable(logging.CRITICAL)

from pyopenapi_gen import generate_client  # noqa: E402

OK = {"200": {"description": "ok", "content": {"application/json": {"schema": {"$ref": "#/components/schemas/Result"}}}}}
SCHEMAS = {
    "Result": {"type": "object", "properties": {"ok": {"type": "boolean"}}},
    "Note": {"type": "object", "required": ["text"], "properties": {"text": {"type": "string"}}},
}

SPEC_A = {
    "openapi": "3.0.3",
    "info": {"title": "Previews", "version": "1"},
    "paths": {
        # link preview / screenshot / URL shortener style endpoint
        "/previews": {
            "get": {
                "operationId": "getPreview",
                "parameters": [
                    {"name": "url", "in": "query", "required": True, "schema": {"type": "string", "format": "uri"}},
                    {"name": "width", "in": "query", "schema": {"type": "integer"}},
                ],
                "responses": OK,
            }
        },
        "/notes": {
            "post": {
                "operationId": "createNote",
                "parameters": [{"name": "body", "in": "query", "schema": {"type": "string"}}],
                "requestBody": {
                    "required": True,
                    "content": {"application/json": {"schema": {"$ref": "#/components/schemas/Note"}}},
                },
                "responses": OK,
            }
        },
    },
    "components": {"schemas": SCHEMAS},
}

SPEC_B = {
    "openapi": "3.0.3",
    "info": {"title": "Links", "version": "1"},
    "paths": {
        "/links": {
            "get": {
                "operationId": "listLinks",
                "parameters": [{"name": "self", "in": "query", "schema": {"type": "string"}}],
                "responses": OK,
            }
        }
    },
    "components": {"schemas": SCHEMAS},
}

PROBE_A = r"""
import asyncio, inspect, json, sys
sys.path.insert(0, sys.argv[1])
import httpx
from previews.endpoints.default import DefaultClient
from previews.models.note import Note

calls = []
class Transport:
    async def request(self, method, url, **kwargs):
        calls.append({"method": method, "url": url, "params": kwargs.get("params"), "json": kwargs.get("json")})
        return httpx.Response(200, json={"ok": True})

async def main():
    c = DefaultClient(Transport(), "https://api.test")
    await c.get_preview(url="https://example.org/article", width=300)
    sig = inspect.signature(c.create_note)
    out = {"create_note_signature": str(sig)}
    try:
        await c.create_note(body=Note(text="hello"))
    except Exception as e:
        out["create_note_error"] = f"{type(e).__name__}: {e}"
    out["calls"] = calls
    print(json.dumps(out, default=str))
asyncio.run(main())
"""


def generate(spec: dict, tmp: Path, package: str) -> None:
    spec_path = tmp / f"{package}.json"
    spec_path.write_text(json.dumps(spec))
    generate_client(spec_path=str(spec_path), project_root=str(tmp), output_package=package, force=True, no_postprocess=True)


def main() -> int:
    tmp = Path(tempfile.mkdtemp(prefix="audit_C20_f2_"))
    violations = []
    try:
        # ---- A + B -------------------------------------------------------------------------------------------------
        generate(SPEC_A, tmp, "previews")
        src = (tmp / "previews" / "endpoints" / "default.py").read_text()
        start = src.index("    async def get_preview(", src.index("class DefaultClient("))
        print("generated method (excerpt):")
        print("\n".join(l for l in src[start:].split("response = await")[0].splitlines() if l.strip() and '"""' not in l
                        and not l.strip().startswith(("Args", "Returns", "Raises", "HttpError", "HTTPError", "url (", "width (", "Result:"))))
        r = subprocess.run([sys.executable, "-c", PROBE_A, str(tmp)], capture_output=True, text=True)
        if r.returncode != 0:
            print("probe failed:\n", r.stdout, r.stderr)
            return 1
        facts = json.loads(r.stdout.strip().splitlines()[-1])
        preview_call = facts["calls"][0]
        print("\nA. get_preview(url='https://example.org/article', width=300) sent:", preview_call)
        if preview_call["params"].get("url") != "https://example.org/article":
            violations.append(
                f"A: query parameter `url` was sent as {preview_call['params'].get('url')!r} instead of the caller's "
                "value: the derived parameter name `url` collides with the method's local `url`"
            )

        print("\nB. create_note signature:", facts["create_note_signature"])
        note_calls = [c for c in facts["calls"] if c["url"].endswith("/notes")]
        print("   create_note(body=Note(text='hello')) ->", note_calls or facts.get("create_note_error"))
        n_body_params = facts["create_note_signature"].count("body")
        if n_body_params < 2:
            violations.append(
                "B: operation createNote has a query parameter `body` AND a JSON request body, the signature "
                f"{facts['create_note_signature']} has one `body` argument only (one of the two was dropped)"
            )
        if note_calls and (note_calls[0]["params"] or {}).get("body") is not None and note_calls[0]["json"] is not None:
            if note_calls[0]["params"]["body"] == note_calls[0]["json"]:
                violations.append("B: the same argument is sent both as ?body= and as the JSON payload")

        # ---- C -----------------------------------------------------------------------------------------------------
        generate(SPEC_B, tmp, "links")
        path_c = tmp / "links" / "endpoints" / "default.py"
        try:
            compile(path_c.read_text(), str(path_c), "exec")
            print("\nC. links/endpoints/default.py compiles")
        except SyntaxError as e:
            print(f"\nC. links/endpoints/default.py does not compile: SyntaxError: {e.msg} (line {e.lineno})")
            violations.append(f"C: query parameter `self` -> SyntaxError: {e.msg}")

        if violations:
            print("\nVIOLATION (C20: derived parameter names must be collision-safe, none dropped or merged):")
            for v in violations:
                print("  -", v)
            return 1
        print("\nOK: parameters named url / body / self are kept apart from the method's own names")
        return 0
    finally:
        shutil.rmtree(tmp, ignore_errors=True)


if __name__ == "__main__":
    sys.exit(main())
