#!/usr/bin/env python
"""C20 finding 1: two different inline schemas whose *derived* names coincide are merged into one class.

`Order.item_status` (inline enum) and `OrderItem.status` (inline enum) both derive the class name
`OrderItemStatus`; `Order.item_detail` and `OrderItem.detail` (inline objects) both derive `OrderItemDetail`.
The generator keeps the first and silently re-uses it for the second: the second enum's members and the second
object's fields are gone from the generated package.

Run: PYTHONPATH=/tmp/wt6_C20/src /venv/bin/python demo.py      (exit 1 = violation present, 0 = correct)
"""
import json
import logging
import shutil
import subprocess
import sys
import tempfile
from pathlib import Path

logging.disable(logging.CRITICAL)

from pyopenapi_gen import generate_client  # noqa: E402

SPEC = {
    "openapi": "3.0.3",
    "info": {"title": "Shop", "version": "1"},
    "paths": {
        "/orders/{id}": {
            "get": {
                "operationId": "getOrder",
                "parameters": [{"name": "id", "in": "path", "required": True, "schema": {"type": "string"}}],
                "responses": {
                    "200": {
                        "description": "ok",
                        "content": {"application/json": {"schema": {"$ref": "#/components/schemas/Order"}}},
                    }
                },
            }
        }
    },
    "components": {
        "schemas": {
            "Order": {
                "type": "object",
                "properties": {
                    "id": {"type": "string"},
                    # state of the order with respect to its items
                    "item_status": {"type": "string", "enum": ["open", "closed"]},
                    "item_detail": {"type": "object", "properties": {"count": {"type": "integer"}}},
                    "items": {"type": "array", "items": {"$ref": "#/components/schemas/OrderItem"}},
                },
            },
            "OrderItem": {
                "type": "object",
                "properties": {
                    "sku": {"type": "string"},
                    # fulfilment state of one item: a DIFFERENT enum
                    "status": {"type": "string", "enum": ["picked", "packed", "shipped"]},
                    "detail": {"type": "object", "properties": {"note": {"type": "string"}}},
                },
            },
        }
    },
}

PROBE = r"""
import dataclasses, enum, json, sys, typing
sys.path.insert(0, sys.argv[1])
from shop.models.order import Order
from shop.models.order_item import OrderItem
from shop.core.cattrs_converter import structure_from_dict

def field_type(cls, name):
    hints = typing.get_type_hints(cls)
    args = [a for a in typing.get_args(hints[name]) if a is not type(None)]
    return args[0] if args else hints[name]

out = {}
for cls, fld in ((Order, "item_status"), (OrderItem, "status")):
    t = field_type(cls, fld)
    out[f"{cls.__name__}.{fld}"] = {"class": t.__name__, "values": [m.value for m in t]}
for cls, fld in ((Order, "item_detail"), (OrderItem, "detail")):
    t = field_type(cls, fld)
    out[f"{cls.__name__}.{fld}"] = {"class": t.__name__, "fields": [f.name for f in dataclasses.fields(t)]}
try:
    item = structure_from_dict({"sku": "A1", "status": "shipped", "detail": {"note": "fragile"}}, OrderItem)
    out["structured"] = repr(item)
except Exception as e:
    out["structured"] = f"{type(e).__name__}: {e}"
print(json.dumps(out))
"""


def main() -> int:
    tmp = Path(tempfile.mkdtemp(prefix="audit_C20_f1_"))
    try:
        spec_path = tmp / "spec.json"
        spec_path.write_text(json.dumps(SPEC))
        generate_client(spec_path=str(spec_path), project_root=str(tmp), output_package="shop", force=True, no_postprocess=True)
        model_files = sorted(p.name for p in (tmp / "shop" / "models").glob("*.py") if p.name != "__init__.py")
        print("generated model modules:", model_files)
        r = subprocess.run([sys.executable, "-c", PROBE, str(tmp)], capture_output=True, text=True)
        if r.returncode != 0:
            print("probe failed:\n", r.stdout, r.stderr)
            return 1
        facts = json.loads(r.stdout.strip().splitlines()[-1])
        for k, v in facts.items():
            print(f"  {k}: {v}")

        violations = []
        if facts["Order.item_status"]["class"] == facts["OrderItem.status"]["class"]:
            violations.append(
                "Order.item_status and OrderItem.status (two different inline enums) share ONE class "
                f"{facts['OrderItem.status']['class']}"
            )
        if sorted(facts["OrderItem.status"]["values"]) != ["packed", "picked", "shipped"]:
            violations.append(
                f"OrderItem.status enum has members {facts['OrderItem.status']['values']}, "
                "spec says ['picked', 'packed', 'shipped']"
            )
        if facts["Order.item_detail"]["class"] == facts["OrderItem.detail"]["class"]:
            violations.append(
                "Order.item_detail and OrderItem.detail (two different inline objects) share ONE class "
                f"{facts['OrderItem.detail']['class']}"
            )
        if facts["OrderItem.detail"]["fields"] != ["note"]:
            violations.append(
                f"OrderItem.detail class has fields {facts['OrderItem.detail']['fields']}, spec says ['note']"
            )
        if "shipped" not in facts["structured"] or "fragile" not in facts["structured"]:
            violations.append(f"a valid OrderItem payload is not represented: {facts['structured']}")

        if violations:
            print("\nVIOLATION (C20: colliding derived schema names must stay distinct, none dropped or merged):")
            for v in violations:
                print("  -", v)
            return 1
        print("\nOK: the colliding inline schemas received distinct classes")
        return 0
    finally:
        shutil.rmtree(tmp, ignore_errors=True)


if __name__ == "__main__":
    sys.exit(main())
