#!/usr/bin/env python
"""C20 finding 3: a derived identifier may be equal to a name the generated module imports for its own use.

Field, parameter and class names derived from the spec are checked against Python keywords and a fixed list
(`NameSanitizer.RESERVED_NAMES`), but not against the names the generated module itself imports and then uses:

  A. optional property `date` of `format: date`  ->  `date: date | None = None` inside the dataclass body. Python binds
     `date = None` in the class namespace before it evaluates the annotation: `None | None` -> TypeError while importing
     the model; `import <pkg>.models` (and with it every endpoint module) fails.
  B. optional property `field` next to an array property -> `field: str | None = None` followed by
     `messages: List[str] | None = field(default_factory=list)`: `field` is None there -> TypeError at import.
  C. a schema called `Protocol` (enum tcp/udp) used by an operation -> the endpoint module has
     `from typing import ..., Protocol` followed by `from ..models.protocol import Protocol`; the client's
     `class RulesClientProtocol(Protocol)` then derives from the enum -> TypeError at import.

Run: PYTHONPATH=/tmp/wt6_C20/src /venv/bin/python demo.py      (exit 1 = violation present, 0 = correct)
"""
import json
import logging
import shutil
import subprocess
import sys
import tempfile
from pathlib import Path

logging.disable(logging.CRITICAL)

from pyopenapi_gen import generate_client  # noqa: E402


def spec(title: str, path: str, op: dict, schemas: dict) -> dict:
    return {"openapi": "3.0.3", "info": {"title": title, "version": "1"}, "paths": {path: {"get": op}},
            "components": {"schemas": schemas}}


def ok(ref: str) -> dict:
    return {"200": {"description": "ok", "content": {"application/json": {"schema": {"$ref": f"#/components/schemas/{ref}"}}}}}


CASES = {
    "A": (
        "agenda",
        spec("Agenda", "/events", {"operationId": "getEvent", "responses": ok("Event")}, {
            "Event": {"type": "object", "required": ["title"], "properties": {
                "title": {"type": "string"},
                "date": {"type": "string", "format": "date"},
            }},
        }),
        "agenda.models",
        "from agenda.models.event import Event; import datetime; "
        "print(Event(title='x', date=datetime.date(2024, 1, 2)))",
    ),
    "B": (
        "forms",
        spec("Forms", "/problems", {"operationId": "getProblem", "responses": ok("ValidationProblem")}, {
            "ValidationProblem": {"type": "object", "properties": {
                "field": {"type": "string"},
                "messages": {"type": "array", "items": {"type": "string"}},
            }},
        }),
        "forms.models",
        "from forms.models.validation_problem import ValidationProblem; print(ValidationProblem(field='email'))",
    ),
    "C": (
        "firewall",
        spec("Firewall", "/rules", {
            "operationId": "listRules", "tags": ["Rules"],
            "parameters": [{"name": "protocol", "in": "query", "schema": {"$ref": "#/components/schemas/Protocol"}}],
            "responses": ok("Rule"),
        }, {
            "Protocol": {"type": "string", "enum": ["tcp", "udp", "icmp"]},
            "Rule": {"type": "object", "properties": {"port": {"type": "integer"},
                                                       "protocol": {"$ref": "#/components/schemas/Protocol"}}},
        }),
        "firewall.endpoints",
        "from firewall.client import APIClient; print(APIClient)",
    ),
}

SHOW = {"A": ("agenda/models/event.py", ("import", "date")),
        "B": ("forms/models/validation_problem.py", ("import", "field")),
        "C": ("firewall/endpoints/rules.py", ("Protocol",))}


def main() -> int:
    tmp = Path(tempfile.mkdtemp(prefix="audit_C20_f3_"))
    violations = []
    try:
        for case, (package, spec_dict, module, use) in CASES.items():
            spec_path = tmp / f"{package}.json"
            spec_path.write_text(json.dumps(spec_dict))
            generate_client(spec_path=str(spec_path), project_root=str(tmp), output_package=package, force=True,
                            no_postprocess=True)
            rel, needles = SHOW[case]
            print(f"--- case {case}: {rel} (lines mentioning {', '.join(needles)})")
            for line in (tmp / rel).read_text().splitlines():
                code_line = line.strip()
                is_code = code_line.startswith(("from ", "import ", "class ")) or ": " in code_line and " = " in code_line
                if is_code and any(n in code_line for n in needles) and "Meta" not in code_line:
                    print("   ", line.rstrip())
            code = f"import sys; sys.path.insert(0, {str(tmp)!r}); import {module}; {use}"
            r = subprocess.run([sys.executable, "-c", code], capture_output=True, text=True)
            if r.returncode == 0:
                print(f"    import {module}: ok ->", r.stdout.strip())
            else:
                last = r.stderr.strip().splitlines()[-1]
                print(f"    import {module}: FAILED -> {last}")
                violations.append(f"{case}: `import {module}` fails: {last}")
        if violations:
            print("\nVIOLATION (C20: derived names must be collision-safe; here they shadow a name the generated module "
                  "imports and uses):")
            for v in violations:
                print("  -", v)
            return 1
        print("\nOK: all three generated packages import and work")
        return 0
    finally:
        shutil.rmtree(tmp, ignore_errors=True)


if __name__ == "__main__":
    sys.exit(main())
