#!/usr/bin/env python
"""C19 finding 2: `User: allOf: [Resource, ...]` while `Resource.createdBy: $ref User`.
If `Resource` precedes `User` in components.schemas, `User` silently loses every inherited field (and the base class
is emitted as `Resource2`); if `User` comes first the client is complete.

Run: PYTHONPATH=/tmp/wt6_C19/src /venv/bin/python demo.py
Exit 1 = violation present (models depend on the order of components.schemas), exit 0 = order-independent.
"""
import ast, contextlib, glob, io, json, logging, os, shutil, subprocess, sys, tempfile, warnings
from pathlib import Path

warnings.filterwarnings("ignore")
logging.disable(logging.CRITICAL)
from pyopenapi_gen.generator.client_generator import ClientGenerator

PY = sys.executable
R = lambda n: {"$ref": "#/components/schemas/" + n}

SCHEMAS = {
    "Resource": {
        "type": "object",
        "required": ["id"],
        "properties": {
            "id": {"type": "string"},
            "createdAt": {"type": "string", "format": "date-time"},
            "createdBy": R("User"),
        },
    },
    "User": {"allOf": [R("Resource"), {"type": "object", "properties": {"email": {"type": "string"}}}]},
    "Document": {"allOf": [R("Resource"), {"type": "object", "properties": {"title": {"type": "string"}}}]},
}


def spec(schema_order):
    def get(oid, ref):
        return {
            "get": {
                "operationId": oid,
                "parameters": [{"name": "id", "in": "path", "required": True, "schema": {"type": "string"}}],
                "responses": {"200": {"description": "ok", "content": {"application/json": {"schema": R(ref)}}}},
            }
        }

    return {
        "openapi": "3.0.3",
        "info": {"title": "Docs", "version": "1.0.0"},
        "paths": {"/users/{id}": get("getUser", "User"), "/documents/{id}": get("getDocument", "Document")},
        "components": {"schemas": {k: SCHEMAS[k] for k in schema_order}},
    }


def generate(spec_dict, workdir, name):
    root = Path(workdir) / name
    root.mkdir()
    spec_path = root / "openapi.json"
    spec_path.write_text(json.dumps(spec_dict, indent=1))
    buf = io.StringIO()
    with contextlib.redirect_stdout(buf), contextlib.redirect_stderr(buf):
        ClientGenerator(verbose=False).generate(str(spec_path), root, "client", force=True, no_postprocess=True)
    return root


def models(root):
    out = {}
    for f in sorted((root / "client" / "models").glob("*.py")):
        if f.name == "__init__.py":
            continue
        for node in ast.parse(f.read_text()).body:
            if isinstance(node, ast.ClassDef):
                out[node.name] = sorted(
                    (st.target.id, ast.unparse(st.annotation).strip("'\"")) for st in node.body if isinstance(st, ast.AnnAssign)
                )
    return out


def signatures(root):
    out = {}
    for f in sorted((root / "client" / "endpoints").glob("*.py")):
        for node in ast.parse(f.read_text()).body:
            if isinstance(node, ast.ClassDef) and not node.name.endswith("Protocol"):
                for st in node.body:
                    if isinstance(st, ast.AsyncFunctionDef):
                        out[f"{node.name}.{st.name}"] = f"({ast.unparse(st.args)}) -> {ast.unparse(st.returns)}"
    return out


RUNTIME = r"""
import asyncio, json, httpx
from client.core.http_transport import HttpxTransport
from client.endpoints.default import DefaultClient

def handler(request):
    return httpx.Response(200, json={"id": "u1", "createdAt": "2024-05-01T10:00:00Z", "email": "ann@example.org"})

async def main():
    t = HttpxTransport(base_url="https://api.test")
    t._client = httpx.AsyncClient(transport=httpx.MockTransport(handler), base_url="https://api.test")
    user = await DefaultClient(t, "https://api.test").get_user("u1")
    print(repr(user))
asyncio.run(main())
"""


def runtime(root):
    env = dict(os.environ, PYTHONPATH=str(root))
    p = subprocess.run([PY, "-c", RUNTIME], capture_output=True, text=True, env=env, cwd=str(root), timeout=60)
    return p.stdout.strip() or ("ERROR: " + p.stderr.strip()[-500:])


def main():
    logs_before = set(glob.glob("/tmp/pyopenapi_gen_*.log"))
    work = tempfile.mkdtemp(prefix="audit_C19_demo2_")
    try:
        order_a = ["Resource", "User", "Document"]  # base schema first - the natural way to write it
        order_b = ["User", "Resource", "Document"]
        ra, rb = generate(spec(order_a), work, "a"), generate(spec(order_b), work, "b")
        ma, mb = models(ra), models(rb)
        sa, sb = signatures(ra), signatures(rb)
        print("components.schemas order A:", order_a)
        print("components.schemas order B:", order_b)
        for label, m in (("A", ma), ("B", mb)):
            print(f"\nmodels generated from order {label}:")
            for k, v in m.items():
                print(f"   {k}: {v}")
        print("\nGET /users/{id} answers {'id': 'u1', 'createdAt': '2024-05-01T10:00:00Z', 'email': 'ann@example.org'}")
        print("   client A get_user('u1') ->", runtime(ra))
        print("   client B get_user('u1') ->", runtime(rb))
        problems = []
        if sorted(ma) != sorted(mb):
            problems.append(f"set of model classes differs: {sorted(ma)} vs {sorted(mb)}")
        for k in sorted(set(ma) & set(mb)):
            if ma[k] != mb[k]:
                problems.append(f"fields of {k} differ: {[f for f, _ in ma[k]]} vs {[f for f, _ in mb[k]]}")
        if sa != sb:
            problems.append(f"operation signatures differ: {sa} vs {sb}")
        if problems:
            print("\nVIOLATION: reordering components.schemas changed the client:")
            for p in problems:
                print("   -", p)
            return 1
        print("\nOK: client is independent of the order of components.schemas")
        return 0
    finally:
        shutil.rmtree(work, ignore_errors=True)
        for f in set(glob.glob("/tmp/pyopenapi_gen_*.log")) - logs_before:
            with contextlib.suppress(OSError):
                os.remove(f)


if __name__ == "__main__":
    sys.exit(main())
