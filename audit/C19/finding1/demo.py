#!/usr/bin/env python
"""C19 finding 1: a variant shared by two discriminated unions gets the discriminator enum of whichever union
comes LAST in components.schemas; the other union's enum silently loses that variant's value.

Run: PYTHONPATH=/tmp/wt6_C19/src /venv/bin/python demo.py
Exit 1 = violation present (output depends on the order of components.schemas), exit 0 = order-independent.
"""
import ast, contextlib, glob, io, json, logging, os, shutil, subprocess, sys, tempfile, warnings
from pathlib import Path

warnings.filterwarnings("ignore")
logging.disable(logging.CRITICAL)
from pyopenapi_gen.generator.client_generator import ClientGenerator

PY = sys.executable
R = lambda n: {"$ref": "#/components/schemas/" + n}


def variant(tag, extra):
    return {
        "type": "object",
        "required": ["type"],
        "properties": {"type": {"type": "string", "enum": [tag]}, **extra},
    }


SCHEMAS = {
    "PaymentMethod": {"oneOf": [R("Card"), R("BankAccount")], "discriminator": {"propertyName": "type"}},
    "PayoutMethod": {"oneOf": [R("BankAccount"), R("Paypal")], "discriminator": {"propertyName": "type"}},
    "Card": variant("card", {"last4": {"type": "string"}}),
    "BankAccount": variant("bank_account", {"iban": {"type": "string"}}),
    "Paypal": variant("paypal", {"email": {"type": "string"}}),
}


def spec(schema_order):
    def op(oid, ref):
        return {
            "get": {
                "operationId": oid,
                "responses": {"200": {"description": "ok", "content": {"application/json": {"schema": R(ref)}}}},
            }
        }

    return {
        "openapi": "3.0.3",
        "info": {"title": "Payments", "version": "1.0.0"},
        "paths": {"/payment-method": op("getPaymentMethod", "PaymentMethod"), "/payout-method": op("getPayoutMethod", "PayoutMethod")},
        "components": {"schemas": {k: SCHEMAS[k] for k in schema_order}},
    }


def generate(spec_dict, workdir, name):
    root = Path(workdir) / name
    root.mkdir()
    spec_path = root / "openapi.json"
    spec_path.write_text(json.dumps(spec_dict, indent=1))
    buf = io.StringIO()
    with contextlib.redirect_stdout(buf), contextlib.redirect_stderr(buf):
        ClientGenerator(verbose=False).generate(str(spec_path), root, "client", force=True, no_postprocess=True)
    return root


def models(root):
    """{class name: sorted [(field or member, annotation or value)]} for every class in client/models."""
    out = {}
    for f in sorted((root / "client" / "models").glob("*.py")):
        if f.name == "__init__.py":
            continue
        for node in ast.parse(f.read_text()).body:
            if isinstance(node, ast.ClassDef):
                items = []
                for st in node.body:
                    if isinstance(st, ast.AnnAssign):
                        items.append((st.target.id, ast.unparse(st.annotation)))
                    elif isinstance(st, ast.Assign):
                        items.append((ast.unparse(st.targets[0]), ast.unparse(st.value)))
                out[node.name] = sorted(items)
    return out


RUNTIME = r"""
import json, sys
from client.models.payment_method_type_enum import PaymentMethodTypeEnum
from client.models.payout_method_type_enum import PayoutMethodTypeEnum
from client.models.bank_account import BankAccount
from client.core.cattrs_converter import structure_from_dict
res = {}
for enum in (PaymentMethodTypeEnum, PayoutMethodTypeEnum):
    try:
        enum("bank_account"); res[enum.__name__ + "('bank_account')"] = "ok"
    except ValueError as e:
        res[enum.__name__ + "('bank_account')"] = "ValueError"
try:
    obj = structure_from_dict({"type": "bank_account", "iban": "DE00"}, BankAccount)
    res["structure BankAccount"] = repr(obj)
except Exception as e:
    res["structure BankAccount"] = type(e).__name__ + ": " + str(e)[:120]
print(json.dumps(res))
"""


def runtime(root):
    env = dict(os.environ, PYTHONPATH=str(root))
    p = subprocess.run([PY, "-c", RUNTIME], capture_output=True, text=True, env=env, cwd=str(root), timeout=60)
    return (p.stdout.strip() or p.stderr.strip()[-400:])


def main():
    logs_before = set(glob.glob("/tmp/pyopenapi_gen_*.log"))
    work = tempfile.mkdtemp(prefix="audit_C19_demo1_")
    try:
        order_a = ["PaymentMethod", "PayoutMethod", "Card", "BankAccount", "Paypal"]
        order_b = ["PayoutMethod", "PaymentMethod", "Card", "BankAccount", "Paypal"]  # only two entries swapped
        ra = generate(spec(order_a), work, "a")
        rb = generate(spec(order_b), work, "b")
        ma, mb = models(ra), models(rb)
        print("components.schemas order A:", order_a)
        print("components.schemas order B:", order_b)
        print("same set of model classes:", sorted(ma) == sorted(mb), sorted(ma))
        differing = [k for k in sorted(set(ma) | set(mb)) if ma.get(k) != mb.get(k)]
        for k in differing:
            print(f"\nmodel {k} differs:")
            print("   order A:", ma.get(k))
            print("   order B:", mb.get(k))
        print("\nruntime, client generated from order A:", runtime(ra))
        print("runtime, client generated from order B:", runtime(rb))
        if differing:
            print("\nVIOLATION: reordering components.schemas changed the fields / members of", differing)
            return 1
        print("\nOK: models are independent of the order of components.schemas")
        return 0
    finally:
        shutil.rmtree(work, ignore_errors=True)
        for f in set(glob.glob("/tmp/pyopenapi_gen_*.log")) - logs_before:
            with contextlib.suppress(OSError):
                os.remove(f)


if __name__ == "__main__":
    sys.exit(main())
