#!/usr/bin/env python
"""C19 finding 3: the key order inside `requestBody.content` decides the type of the `body` parameter and what the
generated method puts on the wire (JSON vs form-encoded).

The same document is supplied once as JSON (media types in the order json, xml) and once as YAML with the two keys of
the `content` map swapped (xml, json). Nothing else differs.

Run: PYTHONPATH=/tmp/wt6_C19/src /venv/bin/python demo.py
Exit 1 = violation present (the two renderings give different clients), exit 0 = same client.
"""
import ast, contextlib, glob, io, json, logging, os, shutil, subprocess, sys, tempfile, warnings
from pathlib import Path

warnings.filterwarnings("ignore")
logging.disable(logging.CRITICAL)
from pyopenapi_gen.generator.client_generator import ClientGenerator

PY = sys.executable

SPEC_JSON = {
    "openapi": "3.0.3",
    "info": {"title": "Petstore", "version": "1.0.0"},
    "paths": {
        "/pet": {
            "post": {
                "operationId": "addPet",
                "requestBody": {
                    "required": True,
                    "content": {
                        "application/json": {"schema": {"$ref": "#/components/schemas/Pet"}},
                        "application/xml": {"schema": {"$ref": "#/components/schemas/Pet"}},
                    },
                },
                "responses": {
                    "200": {
                        "description": "ok",
                        "content": {"application/json": {"schema": {"$ref": "#/components/schemas/Pet"}}},
                    }
                },
            }
        }
    },
    "components": {
        "schemas": {
            "Pet": {
                "type": "object",
                "required": ["name"],
                "properties": {"id": {"type": "integer"}, "name": {"type": "string"}},
            }
        }
    },
}

SPEC_YAML = """\
openapi: 3.0.3
info: {title: Petstore, version: 1.0.0}
paths:
  /pet:
    post:
      operationId: addPet
      requestBody:
        required: true
        content:
          application/xml:
            schema: {$ref: '#/components/schemas/Pet'}
          application/json:
            schema: {$ref: '#/components/schemas/Pet'}
      responses:
        '200':
          description: ok
          content:
            application/json:
              schema: {$ref: '#/components/schemas/Pet'}
components:
  schemas:
    Pet:
      type: object
      required: [name]
      properties:
        id: {type: integer}
        name: {type: string}
"""


def generate(text, suffix, workdir, name):
    root = Path(workdir) / name
    root.mkdir()
    spec_path = root / ("openapi" + suffix)
    spec_path.write_text(text)
    buf = io.StringIO()
    with contextlib.redirect_stdout(buf), contextlib.redirect_stderr(buf):
        ClientGenerator(verbose=False).generate(str(spec_path), root, "client", force=True, no_postprocess=True)
    return root


def add_pet_impl(root):
    """(signature, dispatch statements) of the non-overload DefaultClient.add_pet."""
    tree = ast.parse((root / "client" / "endpoints" / "default.py").read_text())
    for node in tree.body:
        if isinstance(node, ast.ClassDef) and node.name == "DefaultClient":
            for st in node.body:
                if isinstance(st, ast.AsyncFunctionDef) and st.name == "add_pet" and not st.decorator_list:
                    sig = f"({ast.unparse(st.args)}) -> {ast.unparse(st.returns)}"
                    first_if = next(s for s in st.body if isinstance(s, ast.If))
                    return sig, ast.unparse(first_if.body)
    raise SystemExit("add_pet not found")


RUNTIME = r"""
import asyncio, json, httpx
from client.core.http_transport import HttpxTransport
from client.endpoints.default import DefaultClient
from client.models.pet import Pet

seen = {}
def handler(request):
    seen["content-type"] = request.headers.get("content-type")
    seen["body"] = request.content.decode()
    return httpx.Response(200, json={"id": 1, "name": "Rex"})

async def main():
    t = HttpxTransport(base_url="https://api.test")
    t._client = httpx.AsyncClient(transport=httpx.MockTransport(handler), base_url="https://api.test")
    await DefaultClient(t, "https://api.test").add_pet(body=Pet(name="Rex", id_=1))
    print(json.dumps(seen, sort_keys=True))
asyncio.run(main())
"""


def runtime(root):
    env = dict(os.environ, PYTHONPATH=str(root))
    p = subprocess.run([PY, "-c", RUNTIME], capture_output=True, text=True, env=env, cwd=str(root), timeout=60)
    return p.stdout.strip() or ("ERROR: " + p.stderr.strip()[-500:])


def main():
    import yaml

    # the two inputs are the same document: equal as data, only the key order of one map differs
    assert yaml.safe_load(SPEC_YAML) == SPEC_JSON, "the two renderings are not the same document"
    print("yaml.safe_load(SPEC_YAML) == SPEC_JSON:", True)
    print("requestBody.content keys, JSON rendering:", list(SPEC_JSON["paths"]["/pet"]["post"]["requestBody"]["content"]))
    print("requestBody.content keys, YAML rendering:", list(yaml.safe_load(SPEC_YAML)["paths"]["/pet"]["post"]["requestBody"]["content"]))
    logs_before = set(glob.glob("/tmp/pyopenapi_gen_*.log"))
    work = tempfile.mkdtemp(prefix="audit_C19_demo3_")
    try:
        ra = generate(json.dumps(SPEC_JSON, indent=1), ".json", work, "from_json")
        rb = generate(SPEC_YAML, ".yaml", work, "from_yaml")
        (sig_a, disp_a), (sig_b, disp_b) = add_pet_impl(ra), add_pet_impl(rb)
        print("\nDefaultClient.add_pet, JSON rendering:\n   signature:", sig_a, "\n   `if body is not None:` ->", disp_a.replace("\n", " ; "))
        print("DefaultClient.add_pet, YAML rendering:\n   signature:", sig_b, "\n   `if body is not None:` ->", disp_b.replace("\n", " ; "))
        wire_a, wire_b = runtime(ra), runtime(rb)
        print("\nawait client.add_pet(body=Pet(name='Rex', id_=1)) puts on the wire:")
        print("   client from JSON rendering:", wire_a)
        print("   client from YAML rendering:", wire_b)
        problems = []
        if sig_a != sig_b:
            problems.append("signature of add_pet differs")
        if wire_a != wire_b:
            problems.append("the request sent by add_pet(body=...) differs")
        if problems:
            print("\nVIOLATION: the same document in two renderings (key order of requestBody.content) gives different clients:", "; ".join(problems))
            return 1
        print("\nOK: both renderings give the same client")
        return 0
    finally:
        shutil.rmtree(work, ignore_errors=True)
        for f in set(glob.glob("/tmp/pyopenapi_gen_*.log")) - logs_before:
            with contextlib.suppress(OSError):
                os.remove(f)


if __name__ == "__main__":
    sys.exit(main())
