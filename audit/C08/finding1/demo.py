"""C08 finding 1: a declared schema that takes part in a reference cycle is REPLACED by an empty
"[Circular reference detected ...]" placeholder when the names on the cycle match a naming heuristic
(prefix relation such as User/UserProfile, or a name containing "Item"/"Property").

Run:  PYTHONPATH=/tmp/wt6_C08/src /venv/bin/python demo.py
Exit 1 = violation present (declared schema lost), exit 0 = all declared schemas keep their content.
"""
from __future__ import annotations

import json
import logging
import sys
import tempfile
from pathlib import Path

logging.disable(logging.CRITICAL)

from pyopenapi_gen.core.loader.loader import load_ir_from_spec  # noqa: E402
from pyopenapi_gen.generator.client_generator import ClientGenerator  # noqa: E402


def ref(name: str) -> dict:
    return {"$ref": f"#/components/schemas/{name}"}


def spec_of(schemas: dict, paths: dict | None = None) -> dict:
    return {
        "openapi": "3.0.3",
        "info": {"title": "cycle demo", "version": "1.0.0"},
        "paths": paths or {},
        "components": {"schemas": schemas},
    }


def get_op(path: str, op_id: str, schema_name: str) -> dict:
    return {
        path: {
            "get": {
                "operationId": op_id,
                "responses": {
                    "200": {"description": "ok", "content": {"application/json": {"schema": ref(schema_name)}}}
                },
            }
        }
    }


CASES: dict[str, dict] = {
    # 1. mutual cycle, one name is a prefix of the other (User <-> UserProfile): extremely common
    "User<->UserProfile": {
        "User": {
            "type": "object",
            "required": ["id"],
            "properties": {"id": {"type": "string"}, "email": {"type": "string"}, "profile": ref("UserProfile")},
        },
        "UserProfile": {
            "type": "object",
            "properties": {"bio": {"type": "string"}, "user": ref("User")},
        },
    },
    # 2. mutual cycle, a declared schema whose name contains "Item" (OrderItem, LineItem, MenuItem, ...)
    "OrderItem<->Order": {
        "OrderItem": {
            "type": "object",
            "required": ["sku"],
            "properties": {"sku": {"type": "string"}, "qty": {"type": "integer"}, "order": ref("Order")},
        },
        "Order": {
            "type": "object",
            "properties": {"id": {"type": "string"}, "items": {"type": "array", "items": ref("OrderItem")}},
        },
    },
    # 3. cycle through an inline object (explicitly named by the property text)
    "Category -> inline object -> Category": {
        "Category": {
            "type": "object",
            "properties": {
                "name": {"type": "string"},
                "placement": {
                    "type": "object",
                    "properties": {"position": {"type": "integer"}, "parent": ref("Category")},
                },
            },
        },
    },
    # control: exactly the same shape as case 1, names without prefix relation -> handled correctly
    "control Team<->Member": {
        "Team": {
            "type": "object",
            "required": ["id"],
            "properties": {"id": {"type": "string"}, "email": {"type": "string"}, "lead": ref("Member")},
        },
        "Member": {
            "type": "object",
            "properties": {"bio": {"type": "string"}, "team": ref("Team")},
        },
    },
}


def main() -> int:
    violations = 0
    for title, schemas in CASES.items():
        print(f"=== {title}")
        ir = load_ir_from_spec(json.loads(json.dumps(spec_of(schemas))))
        for name, node in schemas.items():
            declared = sorted(node["properties"])
            got = ir.schemas.get(name)
            if got is None:
                print(f"  {name}: MISSING from the result")
                violations += 1
                continue
            parsed = sorted(got.properties)
            is_placeholder = bool(got._is_circular_ref or got._from_unresolved_ref) and not parsed
            status = "ok"
            if parsed != declared:
                status = "VIOLATION: declared properties lost"
                violations += 1
            print(f"  {name}: declared props={declared} parsed props={parsed} placeholder={is_placeholder} -> {status}")
            if is_placeholder:
                print(f"      description in IR: {got.description!r}")

    # Show what the generated package looks like for case 1
    print("=== generated package for User<->UserProfile")
    with tempfile.TemporaryDirectory(prefix="audit_C08_f1_") as tmp:
        root = Path(tmp)
        spec = spec_of(CASES["User<->UserProfile"], get_op("/me", "getMe", "User"))
        (root / "spec.json").write_text(json.dumps(spec))
        ClientGenerator(verbose=False).generate(
            spec_path=str(root / "spec.json"), project_root=root, output_package="cli", force=True, no_postprocess=True
        )
        user_py = (root / "cli" / "models" / "user.py").read_text()
        print(user_py)
        if "id_" not in user_py or "No properties defined" in user_py:
            print("  -> models/user.py: class User has no fields at all (id, email, profile are gone)")
            violations += 1

    print(f"violations: {violations}")
    return 1 if violations else 0


if __name__ == "__main__":
    sys.exit(main())
