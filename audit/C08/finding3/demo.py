"""C08 finding 3: a declared schema that is a plain alias of another one (`Error: {$ref: '#/components/schemas/Problem'}`)
is never put into the result: the tracker marks it COMPLETED, `parsed_schemas` has no entry for it, and
`build_schemas` aborts the whole load with RuntimeError("Schema 'Error' ... was not parsed") - or, when the alias differs
from its target only by case/sanitising (`user` -> `User`), the name is silently missing.

Run:  PYTHONPATH=/tmp/wt6_C08/src /venv/bin/python demo.py
Exit 1 = violation present, exit 0 = every declared name is present in the result.
"""
from __future__ import annotations

import json
import logging
import sys
import tempfile
from pathlib import Path

logging.disable(logging.CRITICAL)

from pyopenapi_gen.core.loader.loader import load_ir_from_spec  # noqa: E402
from pyopenapi_gen.core.parsing.context import ParsingContext  # noqa: E402
from pyopenapi_gen.core.parsing.schema_parser import _parse_schema  # noqa: E402
from pyopenapi_gen.generator.client_generator import ClientGenerator  # noqa: E402


def ref(name: str) -> dict:
    return {"$ref": f"#/components/schemas/{name}"}


def spec_of(schemas: dict, paths: dict | None = None) -> dict:
    return {
        "openapi": "3.0.3",
        "info": {"title": "alias demo", "version": "1.0.0"},
        "paths": paths or {},
        "components": {"schemas": schemas},
    }


PROBLEM = {
    "type": "object",
    "required": ["title"],
    "properties": {"title": {"type": "string"}, "status": {"type": "integer"}, "detail": {"type": "string"}},
}
PATHS = {
    "/ping": {
        "get": {
            "operationId": "ping",
            "responses": {
                "200": {"description": "ok", "content": {"application/json": {"schema": {"type": "string"}}}},
                "400": {"description": "bad", "content": {"application/json": {"schema": ref("Error")}}},
            },
        }
    }
}

CASES = {
    "alias declared after its target": {"Problem": PROBLEM, "Error": ref("Problem")},
    "alias declared before its target": {"Error": ref("Problem"), "Problem": PROBLEM},
    "alias of an alias": {"Problem": PROBLEM, "Error": ref("Problem"), "ApiError": ref("Error")},
    "alias differing only by case (silent)": {"User": PROBLEM, "user": ref("User")},
}


def main() -> int:
    violations = 0

    # --- what the tracker / parsed_schemas look like after the top-level schemas have been processed -------------
    raw = json.loads(json.dumps(CASES["alias declared after its target"]))
    ctx = ParsingContext(raw_spec_schemas=raw, raw_spec_components={"schemas": raw})
    for name, node in raw.items():
        _parse_schema(name, node, ctx, allow_self_reference=True)
    tracker = ctx.unified_cycle_context
    print("after processing every top-level schema:")
    print("  tracker: stack=%s depth=%d states=%s" % (
        tracker.schema_stack, tracker.recursion_depth, {k: v.value for k, v in tracker.schema_states.items()}))
    print("  declared names :", list(raw))
    print("  parsed_schemas :", list(ctx.parsed_schemas))
    if "Error" not in ctx.parsed_schemas:
        print("  VIOLATION: 'Error' is COMPLETED for the tracker but absent from the result")
        violations += 1

    # --- the public loader -----------------------------------------------------------------------------------------
    for title, schemas in CASES.items():
        print(f"=== {title}: declared {list(schemas)}")
        try:
            ir = load_ir_from_spec(json.loads(json.dumps(spec_of(schemas))))
        except Exception as exc:  # noqa: BLE001
            print(f"  VIOLATION: load_ir_from_spec raised {type(exc).__name__}: {exc}")
            violations += 1
            continue
        missing = [n for n in schemas if n not in ir.schemas]
        print(f"  result has {list(ir.schemas)}")
        if missing:
            print(f"  VIOLATION: declared schema name(s) {missing} are not present in the result (no error, no warning)")
            violations += 1

    # --- the generator front end -------------------------------------------------------------------------------------
    print("=== ClientGenerator.generate on the first document (with an operation that answers 400 with Error)")
    with tempfile.TemporaryDirectory(prefix="audit_C08_f3_") as tmp:
        root = Path(tmp)
        (root / "spec.json").write_text(json.dumps(spec_of(CASES["alias declared after its target"], PATHS)))
        try:
            ClientGenerator(verbose=False).generate(
                spec_path=str(root / "spec.json"), project_root=root, output_package="cli", force=True,
                no_postprocess=True,
            )
            print("  generated:", sorted(p.name for p in (root / "cli" / "models").glob("*.py")))
        except Exception as exc:  # noqa: BLE001
            print(f"  VIOLATION: generation failed with {type(exc).__name__}: {exc}")
            violations += 1

    print(f"violations: {violations}")
    return 1 if violations else 0


if __name__ == "__main__":
    sys.exit(main())
