"""C08 finding 2: a document WITHOUT any reference cycle is reported as cyclic and an inline object is replaced by a
"[Circular reference detected ...]" placeholder, because inline schemas below an anonymous parent (an allOf / oneOf /
anyOf member, an additionalProperties value) get an invented name made of the property name alone ("Data"), and the
cycle tracker is keyed by that name.

Run:  PYTHONPATH=/tmp/wt6_C08/src /venv/bin/python demo.py
Exit 1 = violation present, exit 0 = correct behaviour.
"""
from __future__ import annotations

import json
import logging
import sys
import tempfile
from pathlib import Path

logging.disable(logging.CRITICAL)

from pyopenapi_gen.core.loader.loader import load_ir_from_spec  # noqa: E402
from pyopenapi_gen.core.loader.schemas.extractor import build_schemas  # noqa: E402
from pyopenapi_gen.generator.client_generator import ClientGenerator  # noqa: E402


def ref(name: str) -> dict:
    return {"$ref": f"#/components/schemas/{name}"}


# A JSON:API style document: a response envelope that extends a shared "Links" object (allOf) and carries the
# resource inline under `data`; the `author` relationship again extends "Links" and carries a resource identifier
# inline under `data`.  The schema graph is a TREE - there is not a single reference cycle in it.
SCHEMAS = {
    "Links": {"type": "object", "properties": {"self": {"type": "string"}, "related": {"type": "string"}}},
    "ArticleResponse": {
        "allOf": [
            ref("Links"),
            {
                "type": "object",
                "required": ["data"],
                "properties": {
                    "data": {
                        "type": "object",
                        "required": ["id", "type"],
                        "properties": {
                            "id": {"type": "string"},
                            "type": {"type": "string"},
                            "attributes": {
                                "type": "object",
                                "properties": {"title": {"type": "string"}, "body": {"type": "string"}},
                            },
                            "relationships": {
                                "type": "object",
                                "properties": {
                                    "author": {
                                        "allOf": [
                                            ref("Links"),
                                            {
                                                "type": "object",
                                                "properties": {
                                                    "data": {
                                                        "type": "object",
                                                        "properties": {
                                                            "id": {"type": "string"},
                                                            "type": {"type": "string"},
                                                        },
                                                    }
                                                },
                                            },
                                        ]
                                    }
                                },
                            },
                        },
                    }
                },
            },
        ]
    },
}
PATHS = {
    "/articles/{id}": {
        "get": {
            "operationId": "getArticle",
            "parameters": [{"name": "id", "in": "path", "required": True, "schema": {"type": "string"}}],
            "responses": {
                "200": {"description": "ok", "content": {"application/json": {"schema": ref("ArticleResponse")}}}
            },
        }
    }
}
SPEC = {
    "openapi": "3.0.3",
    "info": {"title": "json:api demo", "version": "1.0.0"},
    "paths": PATHS,
    "components": {"schemas": SCHEMAS},
}


def target(schema):
    """The schema a property refers to (property holders point at the promoted schema)."""
    return schema._refers_to_schema if schema._refers_to_schema is not None else schema


def main() -> int:
    violations = 0

    # --- 1. the tracker reports a cycle in an acyclic document -------------------------------------------------
    ctx = build_schemas(json.loads(json.dumps(SCHEMAS)), {"schemas": SCHEMAS})
    cycles = [" -> ".join(c.cycle_path) for c in ctx.unified_cycle_context.detected_cycles]
    print("document has no $ref cycle (only refs: ArticleResponse -> Links, author -> Links)")
    print(f"cycle tracker: cycle_detected={ctx.unified_cycle_context.cycle_detected} detected_cycles={cycles}")
    print("tracker states:", {k: v.value for k, v in ctx.unified_cycle_context.schema_states.items()})
    if cycles or ctx.unified_cycle_context.cycle_detected:
        print("  VIOLATION: a cycle was 'detected' although the schema graph is a tree")
        violations += 1

    # --- 2. the result: ArticleResponse.data lost its content ----------------------------------------------------
    ir = load_ir_from_spec(json.loads(json.dumps(SPEC)))
    article = ir.schemas["ArticleResponse"]
    data = target(article.properties["data"])
    print(f"ArticleResponse.data -> schema {data.name!r}: properties={sorted(data.properties)} "
          f"circular_placeholder={data._is_circular_ref} description={data.description!r}")
    expected = ["attributes", "id", "relationships", "type"]
    if sorted(data.properties) != expected:
        print(f"  VIOLATION: expected properties {expected} (declared inline in the document)")
        violations += 1

    # --- 3. the generated package ---------------------------------------------------------------------------------
    with tempfile.TemporaryDirectory(prefix="audit_C08_f2_") as tmp:
        root = Path(tmp)
        (root / "spec.json").write_text(json.dumps(SPEC))
        ClientGenerator(verbose=False).generate(
            spec_path=str(root / "spec.json"), project_root=root, output_package="cli", force=True, no_postprocess=True
        )
        models = root / "cli" / "models"
        print("generated model modules:", sorted(p.name for p in models.glob("*.py")))
        for line in (models / "article_response.py").read_text().splitlines():
            if line.strip().startswith("data_"):
                print("article_response.py:", line.strip())
        data_module = next((p for p in models.glob("data*.py") if p.stem.rstrip("_") == "data"), None)
        if data_module is not None:
            print(f"--- {data_module.name}")
            print(data_module.read_text())
            if "No properties defined" in data_module.read_text():
                print("  VIOLATION: the class generated for ArticleResponse.data has no fields")
                violations += 1

    # --- 4. same root cause without a false cycle: a sibling silently gets the other schema's inline object -------
    pets = {
        "Pet": {"type": "object", "properties": {"name": {"type": "string"}}},
        "Cat": {"allOf": [ref("Pet"), {"type": "object", "properties": {
            "details": {"type": "object", "properties": {"lives": {"type": "integer"}}}}}]},
        "Dog": {"allOf": [ref("Pet"), {"type": "object", "properties": {
            "details": {"type": "object", "properties": {"breed": {"type": "string"}}}}}]},
    }
    ir2 = load_ir_from_spec({"openapi": "3.0.3", "info": {"title": "t", "version": "1"}, "paths": {},
                             "components": {"schemas": pets}})
    dog_details = target(ir2.schemas["Dog"].properties["details"])
    print(f"Dog.details -> schema {dog_details.name!r} with properties {sorted(dog_details.properties)} "
          f"(declared: ['breed'])")
    if sorted(dog_details.properties) != ["breed"]:
        print("  VIOLATION: Dog.details was answered from the tracker ('Details' already COMPLETED for Cat)")
        violations += 1

    print(f"violations: {violations}")
    return 1 if violations else 0


if __name__ == "__main__":
    sys.exit(main())
