"""C03 finding 3: the schema `default` of an optional property is baked into the dataclass field.

(a) silent: a document that omits the property comes back WITH the property set to the schema
    default (not null / not an empty container - the only tolerated differences);
(b) loud: for an inline enum property the default is emitted as a raw literal (`= 1`, `= "queued"`)
    instead of the enum member, so for an integer enum the unstructure step raises
    AttributeError: 'int' object has no attribute 'value'.

Run:  PYTHONPATH=/tmp/wt6_C03/src /venv/bin/python demo.py
Exit 1 = violation present, exit 0 = round trip is faithful.
"""
import json
import logging
import os
import shutil
import subprocess
import sys
import tempfile
from pathlib import Path

logging.disable(logging.CRITICAL)
from pyopenapi_gen.generator.client_generator import ClientGenerator  # noqa: E402


def ref_response(name: str) -> dict:
    return {
        "get": {
            "operationId": f"get{name}",
            "responses": {
                "200": {
                    "description": "ok",
                    "content": {"application/json": {"schema": {"$ref": f"#/components/schemas/{name}"}}},
                }
            },
        }
    }


SPEC = {
    "openapi": "3.0.3",
    "info": {"title": "jobs", "version": "1"},
    "paths": {"/jobs": ref_response("JobPatch"), "/tasks": ref_response("Task")},
    "components": {
        "schemas": {
            # e.g. the body of PATCH /jobs/{id}: everything optional
            "JobPatch": {
                "type": "object",
                "properties": {
                    "name": {"type": "string"},
                    "status": {"type": "string", "enum": ["queued", "running", "done"], "default": "queued"},
                    "retries": {"type": "integer", "default": 3},
                    "notify": {"type": "boolean", "default": True},
                },
            },
            "Task": {
                "type": "object",
                "required": ["id"],
                "properties": {
                    "id": {"type": "integer"},
                    "priority": {"type": "integer", "enum": [0, 1, 2], "default": 1},
                },
            },
        }
    },
}

CHILD = r"""
import json, sys, re
from cli.core.cattrs_converter import structure_from_dict, unstructure_to_dict
import cli.models as M
for mod in ("job_patch", "task"):
    src = open(f"cli/models/{mod}.py").read()
    print(f"--- generated fields of models/{mod}.py")
    for line in src.splitlines():
        if re.match(r"    \w+: .* = ", line) or re.match(r"    \w+: \w+", line):
            print("   ", line.strip())

def strip_nulls(d):
    return {k: v for k, v in d.items() if v is not None and v != [] and v != {}}

bad = 0
for label, cls, doc in json.loads(sys.argv[1]):
    print(f"[{label}]")
    print("   in :", json.dumps(doc, sort_keys=True))
    try:
        obj = structure_from_dict(doc, getattr(M, cls))
        print("   obj:", obj)
        out = strip_nulls(unstructure_to_dict(obj))
    except Exception as e:
        print("   EXCEPTION:", type(e).__name__, e)
        bad += 1
        continue
    print("   out:", json.dumps(out, sort_keys=True), "(nulls / empty containers stripped)")
    same = out == doc
    print("   ->", "round trip OK" if same else "ABSENT PROPERTIES REAPPEARED WITH NON-NULL VALUES")
    bad += 0 if same else 1
print("violations:", bad)
sys.exit(1 if bad else 0)
"""

DOCS = [
    ("(a) PATCH-style document that only renames the job", "JobPatch", {"name": "nightly"}),
    ("(b) Task without the optional int-enum `priority`", "Task", {"id": 7}),
    ("control: Task with priority present", "Task", {"id": 7, "priority": 2}),
]


def main() -> int:
    root = Path(tempfile.mkdtemp(prefix="audit_C03_f3_"))
    try:
        spec = root / "spec.json"
        spec.write_text(json.dumps(SPEC))
        ClientGenerator(verbose=False).generate(str(spec), root, "cli", force=True, no_postprocess=True)
        env = dict(os.environ, PYTHONPATH=str(root))
        r = subprocess.run(
            [sys.executable, "-c", CHILD, json.dumps(DOCS)], env=env, cwd=root, capture_output=True, text=True
        )
        print(r.stdout, end="")
        if r.stderr:
            print(r.stderr[-3000:], end="")
        if r.returncode == 0:
            print("RESULT: absent optional properties stayed absent/null (property holds)")
            return 0
        print("RESULT: VIOLATION - schema defaults are injected into round-tripped documents / unstructure crashes")
        return 1
    finally:
        shutil.rmtree(root, ignore_errors=True)


if __name__ == "__main__":
    sys.exit(main())
