"""C03 finding 2: free-form object values are silently emptied by the round trip.

A schema that is `type: object` with no `properties` and no `additionalProperties` keyword
(JSON Schema / OpenAPI default: additional properties ARE allowed), or that has no keywords at
all (`{}` = any value), is generated as a dataclass with ZERO fields.  Structuring drops every
key of the value; unstructuring gives `{}`.  Non-object values for an "any" schema raise.

Run:  PYTHONPATH=/tmp/wt6_C03/src /venv/bin/python demo.py
Exit 1 = violation present, exit 0 = round trip is faithful.
"""
import json
import logging
import os
import shutil
import subprocess
import sys
import tempfile
from pathlib import Path

logging.disable(logging.CRITICAL)
from pyopenapi_gen.generator.client_generator import ClientGenerator  # noqa: E402

SPEC = {
    "openapi": "3.0.3",
    "info": {"title": "events", "version": "1"},
    "paths": {
        "/events": {
            "get": {
                "operationId": "getEvent",
                "responses": {
                    "200": {
                        "description": "ok",
                        "content": {"application/json": {"schema": {"$ref": "#/components/schemas/Event"}}},
                    }
                },
            }
        }
    },
    "components": {
        "schemas": {
            "Event": {
                "type": "object",
                "required": ["id"],
                "properties": {
                    "id": {"type": "integer"},
                    # the usual way to say "free-form JSON object"
                    "metadata": {"type": "object", "description": "Free-form key/value metadata"},
                    # reference to a free-form component schema
                    "payload": {"$ref": "#/components/schemas/Payload"},
                    # no keywords at all: any JSON value
                    "extra": {"description": "Any JSON value"},
                    # control: explicit additionalProperties: true works
                    "labels": {"type": "object", "additionalProperties": True},
                },
            },
            "Payload": {"type": "object", "description": "Provider specific payload"},
        }
    },
}

CHILD = r"""
import json, sys
from cli.core.cattrs_converter import structure_from_dict, unstructure_to_dict
from cli.models.event import Event
import dataclasses, cli.models.event_metadata as em, cli.models.payload as pl
print("generated EventMetadata fields:", [f.name for f in dataclasses.fields(em.EventMetadata)])
print("generated Payload fields      :", [f.name for f in dataclasses.fields(pl.Payload)])

def strip_nulls(d):
    if isinstance(d, dict):
        return {k: strip_nulls(v) for k, v in d.items() if v is not None}
    if isinstance(d, list):
        return [strip_nulls(x) for x in d]
    return d

bad = 0
for label, doc in json.loads(sys.argv[1]):
    print(f"[{label}]")
    print("   in :", json.dumps(doc, sort_keys=True))
    try:
        obj = structure_from_dict(doc, Event)
        out = strip_nulls(unstructure_to_dict(obj))
    except Exception as e:
        print("   EXCEPTION:", type(e).__name__, str(e).splitlines()[0], "...")
        bad += 1
        continue
    print("   obj:", obj)
    print("   out:", json.dumps(out, sort_keys=True), "(nulls stripped)")
    same = out == doc
    print("   ->", "round trip OK" if same else "VALUES LOST")
    bad += 0 if same else 1
print("violations:", bad)
sys.exit(1 if bad else 0)
"""

DOCS = [
    (
        "free-form objects (inline `type: object`, $ref to `type: object`, and `{}`)",
        {
            "id": 1,
            "metadata": {"source": "web", "tags": ["a", "b"], "nested": {"k": 1}},
            "payload": {"orderId": "o-17", "total": 12.5},
            "extra": {"traceId": "abc"},
            "labels": {"env": "prod"},
        },
    ),
    ("scalar for the keyword-less `extra` schema (any JSON value conforms)", {"id": 2, "extra": "just a string"}),
]


def main() -> int:
    root = Path(tempfile.mkdtemp(prefix="audit_C03_f2_"))
    try:
        spec = root / "spec.json"
        spec.write_text(json.dumps(SPEC))
        ClientGenerator(verbose=False).generate(str(spec), root, "cli", force=True, no_postprocess=True)
        env = dict(os.environ, PYTHONPATH=str(root))
        r = subprocess.run(
            [sys.executable, "-c", CHILD, json.dumps(DOCS)], env=env, cwd=root, capture_output=True, text=True
        )
        print(r.stdout, end="")
        if r.stderr:
            print(r.stderr[-3000:], end="")
        if r.returncode == 0:
            print("RESULT: free-form values survived the round trip (property holds)")
            return 0
        print("RESULT: VIOLATION - free-form object values are emptied ({}), their content is lost")
        return 1
    finally:
        shutil.rmtree(root, ignore_errors=True)


if __name__ == "__main__":
    sys.exit(main())
