"""C03 finding 1: oneOf/anyOf (Union) values do not survive the round trip.

`_structure_union` in core/cattrs_converter.py returns the FIRST variant that cattrs can
structure without raising.  cattrs is lenient (unknown keys are dropped, primitives are coerced),
so a document that conforms to the *second* variant is silently structured as the first one.

Run:  PYTHONPATH=/tmp/wt6_C03/src /venv/bin/python demo.py
Exit 1 = violation present, exit 0 = round trip is faithful.
"""
import json
import logging
import os
import shutil
import subprocess
import sys
import tempfile
from pathlib import Path

logging.disable(logging.CRITICAL)
from pyopenapi_gen.generator.client_generator import ClientGenerator  # noqa: E402

SPEC = {
    "openapi": "3.0.3",
    "info": {"title": "pets", "version": "1"},
    "paths": {
        "/owners": {
            "get": {
                "operationId": "getOwner",
                "responses": {
                    "200": {
                        "description": "ok",
                        "content": {"application/json": {"schema": {"$ref": "#/components/schemas/Owner"}}},
                    }
                },
            }
        }
    },
    "components": {
        "schemas": {
            "Cat": {
                "type": "object",
                "properties": {"name": {"type": "string"}, "lives": {"type": "integer"}},
            },
            "Dog": {
                "type": "object",
                "required": ["bark"],
                "properties": {"name": {"type": "string"}, "bark": {"type": "boolean"}},
            },
            # plain oneOf, no discriminator
            "Pet": {"oneOf": [{"$ref": "#/components/schemas/Cat"}, {"$ref": "#/components/schemas/Dog"}]},
            "Circle": {
                "type": "object",
                "required": ["shapeType"],
                "properties": {"shapeType": {"type": "string"}, "radius": {"type": "number"}},
            },
            "Square": {
                "type": "object",
                "required": ["shapeType"],
                "properties": {"shapeType": {"type": "string"}, "side": {"type": "number"}},
            },
            # discriminator WITHOUT explicit mapping (implicit mapping = schema names, per OpenAPI 3.0)
            "Shape": {
                "oneOf": [{"$ref": "#/components/schemas/Circle"}, {"$ref": "#/components/schemas/Square"}],
                "discriminator": {"propertyName": "shapeType"},
            },
            "Owner": {
                "type": "object",
                "required": ["pet"],
                "properties": {
                    "pet": {"$ref": "#/components/schemas/Pet"},
                    "shape": {"$ref": "#/components/schemas/Shape"},
                    # JWT-"aud"-style: one string or a list of strings
                    "audience": {"oneOf": [{"type": "array", "items": {"type": "string"}}, {"type": "string"}]},
                    "amount": {"oneOf": [{"type": "integer"}, {"type": "number"}]},
                    "flagOrText": {"oneOf": [{"type": "boolean"}, {"type": "string"}]},
                    "code": {"oneOf": [{"type": "integer"}, {"type": "string"}]},
                },
            },
        }
    },
}

CHILD = r"""
import json, sys
from cli.core.cattrs_converter import structure_from_dict, unstructure_to_dict
from cli.models.owner import Owner

def strip_nulls(d):
    # apply the tolerance of the property: absent optional -> null / empty container
    if isinstance(d, dict):
        return {k: strip_nulls(v) for k, v in d.items() if v is not None and v != [] and v != {}}
    if isinstance(d, list):
        return [strip_nulls(x) for x in d]
    return d

docs = json.loads(sys.argv[1])
bad = 0
for label, doc in docs:
    obj = structure_from_dict(doc, Owner)
    out = strip_nulls(unstructure_to_dict(obj))
    same = out == doc and json.dumps(out, sort_keys=True) == json.dumps(doc, sort_keys=True)
    print(f"[{label}]")
    print("   in :", json.dumps(doc, sort_keys=True))
    print("   obj:", obj)
    print("   out:", json.dumps(out, sort_keys=True), "(nulls / empty containers stripped)")
    print("   ->", "round trip OK" if same else "VALUE CHANGED / LOST")
    bad += 0 if same else 1
print("violations:", bad)
sys.exit(1 if bad else 0)
"""

DOCS = [
    ("dataclass variant, plain oneOf [Cat, Dog]: a Dog", {"pet": {"name": "rex", "bark": True}}),
    (
        "dataclass variant, discriminator w/o mapping: a Square",
        {"pet": {"name": "tom", "lives": 9}, "shape": {"shapeType": "Square", "side": 2.5}},
    ),
    ("primitive variant: string for oneOf [array<string>, string]", {"pet": {"lives": 1}, "audience": "api"}),
    ("primitive variant: 2.75 for oneOf [integer, number]", {"pet": {"lives": 1}, "amount": 2.75}),
    ("primitive variant: 'false' for oneOf [boolean, string]", {"pet": {"lives": 1}, "flagOrText": "false"}),
    ("primitive variant: '007' for oneOf [integer, string]", {"pet": {"lives": 1}, "code": "007"}),
]


def main() -> int:
    root = Path(tempfile.mkdtemp(prefix="audit_C03_f1_"))
    try:
        spec = root / "spec.json"
        spec.write_text(json.dumps(SPEC))
        ClientGenerator(verbose=False).generate(str(spec), root, "cli", force=True, no_postprocess=True)
        env = dict(os.environ, PYTHONPATH=str(root))
        r = subprocess.run(
            [sys.executable, "-c", CHILD, json.dumps(DOCS)], env=env, cwd=root, capture_output=True, text=True
        )
        print(r.stdout, end="")
        if r.stderr:
            print(r.stderr[-3000:], end="")
        if r.returncode == 0:
            print("RESULT: every union value survived the round trip (property holds)")
            return 0
        print("RESULT: VIOLATION - union-typed values are changed or lost by structure -> unstructure")
        return 1
    finally:
        shutil.rmtree(root, ignore_errors=True)


if __name__ == "__main__":
    sys.exit(main())
