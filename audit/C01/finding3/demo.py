#!/usr/bin/env python
"""C01 / finding 3: an operation with SEVERAL request media types gets its signatures from a second code path that
does not de-collide argument names -> `duplicate argument` SyntaxError in endpoints/<tag>.py and mocks/.../mock_<tag>.py.

For an operation whose requestBody declares more than one media type the generator emits @overload signatures.
`OverloadMethodGenerator` builds those signatures straight from `op.parameters` and then appends its own keyword
arguments (`body` / `files` / `form_data` / `bytes_content` and `content_type`), without looking at the names that
are already there. The normal path (`ParameterProcessor.process_parameters`) does suffix colliding names, which is
why the very same parameters are fine as soon as the body has a single media type.

Run:  PYTHONPATH=/tmp/wt6_C01/src /venv/bin/python demo.py
Exit: 1 = violation present (generation succeeded, emitted files have a SyntaxError), 0 = everything compiles/imports.
"""
import json
import shutil
import subprocess
import sys
import tempfile
from pathlib import Path

from pyopenapi_gen import generate_client

DOCUMENT = {"type": "object", "properties": {"title": {"type": "string"}}}
UPLOAD = {"type": "object", "properties": {"file": {"type": "string", "format": "binary"}}}
JSON_AND_MULTIPART = {"application/json": {"schema": {"$ref": "#/components/schemas/Document"}}, "multipart/form-data": {"schema": UPLOAD}}
JSON_ONLY = {"application/json": {"schema": {"$ref": "#/components/schemas/Document"}}}


def spec_with(path: str, parameters: list, content: dict) -> dict:
    return {
        "openapi": "3.1.0",
        "info": {"title": "Demo", "version": "1.0.0"},
        "paths": {
            path: {
                "post": {
                    "operationId": "uploadDocument",
                    "summary": "Upload a document as JSON or as a multipart form",
                    "tags": ["documents"],
                    "parameters": parameters,
                    "requestBody": {"required": True, "content": content},
                    "responses": {"204": {"description": "stored"}},
                }
            }
        },
        "components": {"schemas": {"Document": DOCUMENT}},
    }


CONTENT_TYPE_HEADER = [{"name": "Content-Type", "in": "header", "required": False, "schema": {"type": "string"}}]
PATH_AND_QUERY_ID = [
    {"name": "id", "in": "path", "required": True, "schema": {"type": "integer"}},
    {"name": "id", "in": "query", "required": False, "schema": {"type": "string"}},
]

CASES = {
    "explicit Content-Type header parameter + JSON/multipart body": spec_with("/documents", CONTENT_TYPE_HEADER, JSON_AND_MULTIPART),
    "path `id` and query `id` + JSON/multipart body": spec_with("/folders/{id}/documents", PATH_AND_QUERY_ID, JSON_AND_MULTIPART),
    "control 1: Content-Type header parameter + JSON-only body": spec_with("/documents", CONTENT_TYPE_HEADER, JSON_ONLY),
    "control 2: path `id` and query `id` + JSON-only body": spec_with("/folders/{id}/documents", PATH_AND_QUERY_ID, JSON_ONLY),
}

IMPORT_ALL = r"""
import importlib, pathlib, sys
root, pkg = sys.argv[1], sys.argv[2]
sys.path.insert(0, root)
bad = 0
for p in sorted((pathlib.Path(root) / pkg).rglob("*.py")):
    parts = list(p.relative_to(root).with_suffix("").parts)
    if parts[-1] == "__init__":
        parts = parts[:-1]
    name = ".".join(parts)
    try:
        compile(p.read_text(), str(p), "exec")
    except SyntaxError as e:
        bad += 1
        print(f"    SYNTAX ERROR {name}: {e.msg} ({p.name}, line {e.lineno})")
        continue
    try:
        mod = importlib.import_module(name)
    except BaseException as e:
        bad += 1
        print(f"    IMPORT FAIL  {name}: {type(e).__name__}: {e}")
        continue
    for exported in getattr(mod, "__all__", []):
        if not hasattr(mod, exported):
            bad += 1
            print(f"    __all__ name does not resolve: {name}.{exported}")
print(f"    -> {bad} failing module(s)")
sys.exit(1 if bad else 0)
"""


def first_signatures(text: str, limit: int = 2) -> list[str]:
    """The first `limit` `async def upload_document(...)` headers of a generated module."""
    out, lines, i, found = [], text.splitlines(), 0, 0
    while i < len(lines) and found < limit:
        if lines[i].strip().startswith("async def upload_document("):
            if i and lines[i - 1].strip().startswith("@"):
                out.append(lines[i - 1])
            while True:
                out.append(lines[i])
                if lines[i].strip().startswith(")"):
                    break
                i += 1
            found += 1
        i += 1
    return out


def main() -> int:
    work = Path(tempfile.mkdtemp(prefix="audit_C01_demo3_", dir="/tmp"))
    failures = {}
    try:
        (work / "import_all.py").write_text(IMPORT_ALL)
        for i, (label, spec) in enumerate(CASES.items()):
            root = work / f"case{i}"
            root.mkdir()
            spec_path = root / "openapi.json"
            spec_path.write_text(json.dumps(spec))
            print(f"== {label}")
            files = generate_client(
                spec_path=str(spec_path), project_root=str(root), output_package="client", force=True, no_postprocess=True
            )
            print(f"    generate_client() returned normally, {len(files)} files")
            module = root / "client" / "endpoints" / "documents.py"
            print("    --- " + str(module.relative_to(root)) + " (first signature(s) of upload_document)")
            for line in first_signatures(module.read_text(), 2 if "control" not in label else 1):
                print("    | " + line)
            r = subprocess.run(
                [sys.executable, "-I", str(work / "import_all.py"), str(root), "client"], capture_output=True, text=True
            )
            print(r.stdout.rstrip())
            if r.stderr.strip():
                print(r.stderr.rstrip())
            failures[label] = r.returncode != 0
    finally:
        shutil.rmtree(work, ignore_errors=True)

    print()
    violated = [k for k, v in failures.items() if v and not k.startswith("control")]
    controls_ok = all(not v for k, v in failures.items() if k.startswith("control"))
    print("controls (single media type, same parameters) compile and import cleanly:", controls_ok)
    if violated:
        print("VIOLATION of C01: generation returned without error but emitted .py files are not valid Python for:")
        for v in violated:
            print("   -", v)
        return 1
    print("no violation: every emitted file compiles and imports")
    return 0


if __name__ == "__main__":
    sys.exit(main())
