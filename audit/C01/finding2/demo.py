#!/usr/bin/env python
"""C01 / finding 2: a schema description that ENDS WITH a double quote yields a model file that is not valid Python.

Every schema that is rendered as a type alias (named array / primitive / union schemas, and the aliases synthesised
for array-valued properties with inline object items) gets the line

    '''Alias for <description>'''      (with triple DOUBLE quotes)

Only backslashes and complete triple quotes are escaped, so a description whose last character is `"` produces
four quotes in a row: the string closes after three and the fourth opens an unterminated literal.

Run:  PYTHONPATH=/tmp/wt6_C01/src /venv/bin/python demo.py
Exit: 1 = violation present (generation succeeded, emitted file has a SyntaxError), 0 = everything compiles/imports.
"""
import json
import shutil
import subprocess
import sys
import tempfile
from pathlib import Path

from pyopenapi_gen import generate_client


def spec_with(schemas: dict, ref: str) -> dict:
    return {
        "openapi": "3.1.0",
        "info": {"title": "Demo", "version": "1.0.0"},
        "paths": {
            "/items": {
                "get": {
                    "operationId": "listItems",
                    "summary": "List items",
                    "tags": ["items"],
                    "responses": {
                        "200": {
                            "description": "ok",
                            "content": {"application/json": {"schema": {"$ref": f"#/components/schemas/{ref}"}}},
                        }
                    },
                }
            }
        },
        "components": {"schemas": schemas},
    }


CASES = {
    'named array schema, description ends with "': spec_with(
        {
            "Labels": {
                "type": "array",
                "items": {"type": "string"},
                "description": 'Labels attached to the item, e.g. "urgent"',
            }
        },
        "Labels",
    ),
    'array property with inline object items, description ends with "': spec_with(
        {
            "Order": {
                "type": "object",
                "properties": {
                    "lines": {
                        "type": "array",
                        "description": 'Order lines; empty while the order is a "draft"',
                        "items": {"type": "object", "properties": {"sku": {"type": "string"}}},
                    }
                },
            }
        },
        "Order",
    ),
    'control: same description, one more character after the quote': spec_with(
        {
            "Labels": {
                "type": "array",
                "items": {"type": "string"},
                "description": 'Labels attached to the item, e.g. "urgent".',
            }
        },
        "Labels",
    ),
}

IMPORT_ALL = r"""
import importlib, pathlib, sys
root, pkg = sys.argv[1], sys.argv[2]
sys.path.insert(0, root)
bad = 0
for p in sorted((pathlib.Path(root) / pkg).rglob("*.py")):
    parts = list(p.relative_to(root).with_suffix("").parts)
    if parts[-1] == "__init__":
        parts = parts[:-1]
    name = ".".join(parts)
    try:
        compile(p.read_text(), str(p), "exec")
    except SyntaxError as e:
        bad += 1
        print(f"    SYNTAX ERROR {name}: {e.msg} ({p.name}, line {e.lineno})")
        continue
    try:
        mod = importlib.import_module(name)
    except BaseException as e:
        bad += 1
        print(f"    IMPORT FAIL  {name}: {type(e).__name__}: {e}")
        continue
    for exported in getattr(mod, "__all__", []):
        if not hasattr(mod, exported):
            bad += 1
            print(f"    __all__ name does not resolve: {name}.{exported}")
print(f"    -> {bad} failing module(s)")
sys.exit(1 if bad else 0)
"""


def main() -> int:
    work = Path(tempfile.mkdtemp(prefix="audit_C01_demo2_", dir="/tmp"))
    failures = {}
    try:
        (work / "import_all.py").write_text(IMPORT_ALL)
        for i, (label, spec) in enumerate(CASES.items()):
            root = work / f"case{i}"
            root.mkdir()
            spec_path = root / "openapi.json"
            spec_path.write_text(json.dumps(spec))
            print(f"== {label}")
            files = generate_client(
                spec_path=str(spec_path), project_root=str(root), output_package="client", force=True, no_postprocess=True
            )
            print(f"    generate_client() returned normally, {len(files)} files")
            for model in sorted((root / "client" / "models").glob("[!_]*.py")):
                text = model.read_text()
                if "Alias for" in text:
                    print("    --- " + str(model.relative_to(root)))
                    for line in text.splitlines():
                        if line.strip():
                            print("    | " + line)
            r = subprocess.run(
                [sys.executable, "-I", str(work / "import_all.py"), str(root), "client"], capture_output=True, text=True
            )
            print(r.stdout.rstrip())
            if r.stderr.strip():
                print(r.stderr.rstrip())
            failures[label] = r.returncode != 0
    finally:
        shutil.rmtree(work, ignore_errors=True)

    print()
    violated = [k for k, v in failures.items() if v and not k.startswith("control")]
    control_ok = not failures[[k for k in failures if k.startswith("control")][0]]
    print("control compiles and imports cleanly:", control_ok)
    if violated:
        print("VIOLATION of C01: generation returned without error but an emitted .py file is not valid Python for:")
        for v in violated:
            print("   -", v)
        return 1
    print("no violation: every emitted file compiles and imports")
    return 0


if __name__ == "__main__":
    sys.exit(main())
