#!/usr/bin/env python
"""C01 / finding 1: a property called `date` (or `field`) makes the generated model module un-importable.

The dataclass field keeps the name of a module-level import that LATER lines of the same class body still need
(`date` from `from datetime import date`, `field` from `from dataclasses import dataclass, field`).
Because the field has the default `= None`, the class body rebinds the name to None and the next annotation /
default expression is evaluated against None at import time.

Run:  PYTHONPATH=/tmp/wt6_C01/src /venv/bin/python demo.py
Exit: 1 = violation present (generation succeeded, package does not import), 0 = package imports.
"""
import json
import shutil
import subprocess
import sys
import tempfile
from pathlib import Path

from pyopenapi_gen import generate_client


def spec_with(schema_name: str, schema: dict) -> dict:
    return {
        "openapi": "3.1.0",
        "info": {"title": "Demo", "version": "1.0.0"},
        "paths": {
            "/things": {
                "get": {
                    "operationId": "getThing",
                    "summary": "Get a thing",
                    "tags": ["things"],
                    "responses": {
                        "200": {
                            "description": "ok",
                            "content": {
                                "application/json": {"schema": {"$ref": f"#/components/schemas/{schema_name}"}}
                            },
                        }
                    },
                }
            }
        },
        "components": {"schemas": {schema_name: schema}},
    }


CASES = {
    # a booking with a start `date` and an `end_date`, both optional, both format: date
    "booking (property 'date' + a later date-typed property)": spec_with(
        "Booking",
        {
            "type": "object",
            "properties": {
                "date": {"type": "string", "format": "date"},
                "end_date": {"type": "string", "format": "date"},
                "guest": {"type": "string"},
            },
        },
    ),
    # the classic validation-problem object: which `field` failed, and a list of messages
    "problem (property 'field' + a later array property)": spec_with(
        "Problem",
        {
            "type": "object",
            "properties": {
                "field": {"type": "string"},
                "messages": {"type": "array", "items": {"type": "string"}},
            },
        },
    ),
    # control: same shapes, harmless names -> must import
    "control (property 'day' + 'end_date', 'attr' + 'messages')": spec_with(
        "Control",
        {
            "type": "object",
            "properties": {
                "day": {"type": "string", "format": "date"},
                "end_date": {"type": "string", "format": "date"},
                "attr": {"type": "string"},
                "messages": {"type": "array", "items": {"type": "string"}},
            },
        },
    ),
}

IMPORT_ALL = r"""
import importlib, pathlib, sys
root, pkg = sys.argv[1], sys.argv[2]
sys.path.insert(0, root)
bad = 0
for p in sorted((pathlib.Path(root) / pkg).rglob("*.py")):
    parts = list(p.relative_to(root).with_suffix("").parts)
    if parts[-1] == "__init__":
        parts = parts[:-1]
    name = ".".join(parts)
    try:
        compile(p.read_text(), str(p), "exec")
    except SyntaxError as e:
        bad += 1
        print(f"    SYNTAX ERROR {name}: {e}")
        continue
    try:
        mod = importlib.import_module(name)
    except BaseException as e:
        bad += 1
        print(f"    IMPORT FAIL  {name}: {type(e).__name__}: {e}")
        continue
    for exported in getattr(mod, "__all__", []):
        if not hasattr(mod, exported):
            bad += 1
            print(f"    __all__ name does not resolve: {name}.{exported}")
print(f"    -> {bad} failing module(s)")
sys.exit(1 if bad else 0)
"""


def main() -> int:
    work = Path(tempfile.mkdtemp(prefix="audit_C01_demo1_", dir="/tmp"))
    failures = {}
    try:
        (work / "import_all.py").write_text(IMPORT_ALL)
        for i, (label, spec) in enumerate(CASES.items()):
            root = work / f"case{i}"
            root.mkdir()
            spec_path = root / "openapi.json"
            spec_path.write_text(json.dumps(spec))
            print(f"== {label}")
            files = generate_client(
                spec_path=str(spec_path), project_root=str(root), output_package="client", force=True, no_postprocess=True
            )
            print(f"    generate_client() returned normally, {len(files)} files")
            model = next((root / "client" / "models").glob("[!_]*.py"))
            body = model.read_text()
            print("    --- " + str(model.relative_to(root)) + " (up to the inner Meta class)")
            for line in body[: body.index("class Meta")].splitlines():
                if line.strip():
                    print("    | " + line)
            r = subprocess.run(
                [sys.executable, "-I", str(work / "import_all.py"), str(root), "client"], capture_output=True, text=True
            )
            print(r.stdout.rstrip())
            if r.stderr.strip():
                print(r.stderr.rstrip())
            failures[label] = r.returncode != 0
    finally:
        shutil.rmtree(work, ignore_errors=True)

    print()
    violated = [k for k, v in failures.items() if v and not k.startswith("control")]
    control_ok = not failures[[k for k in failures if k.startswith("control")][0]]
    print("control imports cleanly:", control_ok)
    if violated:
        print("VIOLATION of C01: generation returned without error but the package does not import for:")
        for v in violated:
            print("   -", v)
        return 1
    print("no violation: every generated package imports")
    return 0


if __name__ == "__main__":
    sys.exit(main())
