"""C13 finding 1: tag module name == model module name ("pets" tag + "Pets" schema, i.e. the official Petstore).

The endpoint client and its Protocol are rendered into endpoints/pets.py, the mock into
mocks/endpoints/mock_pets.py.  The type resolver decides "this is a self import" by comparing the *basename*
of the file being rendered with "<model module>.py", so in endpoints/pets.py the model `Pets` is rendered as the
quoted forward reference "Pets", while in mock_pets.py it is rendered as the real class.  The three surfaces
therefore do not carry identical annotations (and the client silently stops deserialising the body).

Exit 1 = violation present, exit 0 = signatures identical.
"""
import json
import os
import subprocess
import sys
import tempfile
import textwrap
from pathlib import Path

from pyopenapi_gen.generator.client_generator import ClientGenerator

# The official "Swagger Petstore" example (petstore.yaml of the OpenAPI-Specification repository), as JSON.
ERR = {"description": "unexpected error",
       "content": {"application/json": {"schema": {"$ref": "#/components/schemas/Error"}}}}
SPEC = {
    "openapi": "3.0.0",
    "info": {"version": "1.0.0", "title": "Swagger Petstore", "license": {"name": "MIT"}},
    "servers": [{"url": "http://petstore.swagger.io/v1"}],
    "paths": {
        "/pets": {
            "get": {
                "summary": "List all pets", "operationId": "listPets", "tags": ["pets"],
                "parameters": [{"name": "limit", "in": "query", "required": False,
                                "description": "How many items to return at one time (max 100)",
                                "schema": {"type": "integer", "maximum": 100, "format": "int32"}}],
                "responses": {
                    "200": {"description": "A paged array of pets",
                            "content": {"application/json": {"schema": {"$ref": "#/components/schemas/Pets"}}}},
                    "default": ERR},
            },
            "post": {
                "summary": "Create a pet", "operationId": "createPets", "tags": ["pets"],
                "requestBody": {"required": True,
                                "content": {"application/json": {"schema": {"$ref": "#/components/schemas/Pet"}}}},
                "responses": {"201": {"description": "Null response"}, "default": ERR},
            },
        },
        "/pets/{petId}": {
            "get": {
                "summary": "Info for a specific pet", "operationId": "showPetById", "tags": ["pets"],
                "parameters": [{"name": "petId", "in": "path", "required": True,
                                "description": "The id of the pet to retrieve", "schema": {"type": "string"}}],
                "responses": {
                    "200": {"description": "Expected response to a valid request",
                            "content": {"application/json": {"schema": {"$ref": "#/components/schemas/Pet"}}}},
                    "default": ERR},
            },
        },
    },
    "components": {"schemas": {
        "Pet": {"type": "object", "required": ["id", "name"],
                "properties": {"id": {"type": "integer", "format": "int64"}, "name": {"type": "string"},
                               "tag": {"type": "string"}}},
        "Pets": {"type": "array", "maxItems": 100, "items": {"$ref": "#/components/schemas/Pet"}},
        "Error": {"type": "object", "required": ["code", "message"],
                  "properties": {"code": {"type": "integer", "format": "int32"}, "message": {"type": "string"}}},
    }},
}

CHECK = textwrap.dedent(
    r'''
    import asyncio, inspect, sys
    import httpx
    import importlib
    TAG = sys.argv[1]                      # "pets" or the control tag "animals"
    CLS = TAG.capitalize() + "Client"
    ep = importlib.import_module(f"petstore_client.endpoints.{TAG}")
    mk = importlib.import_module(f"petstore_client.mocks.endpoints.mock_{TAG}")
    PetsClient, PetsClientProtocol = getattr(ep, CLS), getattr(ep, CLS + "Protocol")
    MockPetsClient = getattr(mk, "Mock" + CLS)

    def surface(cls):
        out = {}
        for name, fn in vars(cls).items():
            if inspect.isfunction(fn) and not name.startswith("__"):
                sig = inspect.signature(fn)  # raw annotations, exactly as written in the generated source
                out[name] = (
                    [(p.name, p.kind.name, repr(p.default), repr(p.annotation)) for p in sig.parameters.values()],
                    repr(sig.return_annotation),
                )
        return out

    surfaces = {"client": surface(PetsClient), "protocol": surface(PetsClientProtocol), "mock": surface(MockPetsClient)}
    bad = 0
    for meth in sorted(surfaces["client"]):
        rows = {k: v.get(meth) for k, v in surfaces.items()}
        same = rows["client"] == rows["protocol"] == rows["mock"]
        print(f"{meth}: {'identical' if same else 'DIFFERENT'}")
        if not same:
            bad += 1
            for k, v in rows.items():
                print(f"    {k:8s} params={[(n, a) for n, _, _, a in v[0]]} return={v[1]}")

    # Side effect of the same root cause, shown for information: the client no longer builds Pet objects.
    async def run():
        def handler(request):
            return httpx.Response(200, json=[{"id": 1, "name": "Rex"}])
        class T:
            def __init__(self): self.c = httpx.AsyncClient(transport=httpx.MockTransport(handler), base_url="http://x")
            async def request(self, method, url, **kw): return await self.c.request(method, url, **kw)
            async def close(self): await self.c.aclose()
        t = T()
        pets = await PetsClient(t, "http://x").list_pets()
        await t.close()
        return pets
    pets = asyncio.run(run())
    print("client.list_pets() returned:", pets, "-> element type", type(pets[0]).__name__, "(annotated List[Pet])")
    sys.exit(1 if bad else 0)
    '''
)


def run_case(tag: str) -> int:
    spec = json.loads(json.dumps(SPEC).replace('"tags": ["pets"]', json.dumps({"tags": [tag]})[1:-1]))
    with tempfile.TemporaryDirectory(prefix="audit_C13_demo1_") as tmp:
        root = Path(tmp)
        (root / "spec.json").write_text(json.dumps(spec))
        ClientGenerator(verbose=False).generate(
            str(root / "spec.json"), root, "petstore_client", force=True, no_postprocess=True
        )
        for rel in (f"endpoints/{tag}.py", f"mocks/endpoints/mock_{tag}.py"):
            src = (root / "petstore_client" / rel).read_text()
            line = next(l for l in src.splitlines() if l.strip().startswith(") ->") and "Pets" in l)
            print(f"{rel}: list_pets return annotation as generated: {line.strip()}")
        (root / "check.py").write_text(CHECK)
        env = {**os.environ, "PYTHONPATH": str(root)}
        r = subprocess.run(
            [sys.executable, str(root / "check.py"), tag], cwd=root, env=env, text=True, capture_output=True
        )
        print(r.stdout, end="")
        if r.returncode not in (0, 1):
            print(r.stderr)
            print("checker crashed")
            return 1
        return r.returncode


def main() -> int:
    print("=== control: same document, tag renamed to 'animals' (no module called animals.py under models/) ===")
    control = run_case("animals")
    print("control result:", "identical" if control == 0 else "DIFFERENT")
    print()
    print("=== official Petstore: tag 'pets' and schema 'Pets' (models/pets.py vs endpoints/pets.py) ===")
    rc = run_case("pets")
    print("VIOLATION: client/Protocol/mock signatures are not identical" if rc else "OK: identical")
    return 1 if (rc or control) else 0


if __name__ == "__main__":
    sys.exit(main())
