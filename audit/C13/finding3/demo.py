"""C13 finding 3: a schema called `Protocol` (firewall / networking APIs: tcp, udp, icmp) used by an operation.

Every endpoints/<tag>.py starts with `from typing import ..., Protocol, ...` (needed for
`class <Tag>ClientProtocol(Protocol)`), followed by the model imports.  `from ..models.protocol import Protocol`
rebinds the name, so the "Protocol" of the tag is declared as a subclass of the *model*:

    @runtime_checkable
    class RulesClientProtocol(Protocol):      # Protocol == the generated enum / dataclass

Importing the endpoints package (and therefore `client.py`, `APIClient`) raises TypeError, while the mock module
(which does not import typing.Protocol) still imports: there is no Protocol that client and mock could satisfy.

Exit 1 = violation present, exit 0 = client, Protocol and mock import and agree.
"""
import json
import os
import subprocess
import sys
import tempfile
import textwrap
from pathlib import Path

from pyopenapi_gen.generator.client_generator import ClientGenerator


def spec(schema_name: str) -> dict:
    ref = {"$ref": f"#/components/schemas/{schema_name}"}
    return {
        "openapi": "3.0.3",
        "info": {"title": "Firewall API", "version": "1.0"},
        "paths": {
            "/rules": {
                "get": {
                    "operationId": "listRules",
                    "summary": "List firewall rules",
                    "tags": ["rules"],
                    "parameters": [{"name": "protocol", "in": "query", "required": False, "schema": ref}],
                    "responses": {
                        "200": {
                            "description": "Rules",
                            "content": {
                                "application/json": {
                                    "schema": {"type": "array", "items": {"$ref": "#/components/schemas/Rule"}}
                                }
                            },
                        }
                    },
                }
            }
        },
        "components": {
            "schemas": {
                schema_name: {"type": "string", "enum": ["tcp", "udp", "icmp"]},
                "Rule": {
                    "type": "object",
                    "required": ["id", "port", "protocol"],
                    "properties": {"id": {"type": "integer"}, "port": {"type": "integer"}, "protocol": ref},
                },
            }
        },
    }


CHECK = textwrap.dedent(
    r'''
    import importlib, inspect, sys, traceback
    problems = 0
    def load(name):
        global problems
        try:
            mod = importlib.import_module(name)
            print(f"  import {name}: ok")
            return mod
        except BaseException as e:
            problems += 1
            print(f"  import {name}: FAILED -> {type(e).__name__}: {e}")
            return None
    mock = load("fw_client.mocks.endpoints.mock_rules")
    ep = load("fw_client.endpoints.rules")
    load("fw_client.client")
    if ep and mock:
        P, C, M = ep.RulesClientProtocol, ep.RulesClient, mock.MockRulesClient
        is_proto = getattr(P, "_is_protocol", False)
        print("  RulesClientProtocol is a typing.Protocol:", is_proto)
        sigs = {k.__name__: str(inspect.signature(vars(k)["list_rules"])) for k in (P, C, M)}
        print("  signatures:", sigs)
        if not is_proto or len(set(sigs.values())) != 1 or not isinstance(M(), P):
            problems += 1
    sys.exit(1 if problems else 0)
    '''
)


def run_case(schema_name: str) -> int:
    with tempfile.TemporaryDirectory(prefix="audit_C13_demo3_") as tmp:
        root = Path(tmp)
        (root / "spec.json").write_text(json.dumps(spec(schema_name)))
        ClientGenerator(verbose=False).generate(
            str(root / "spec.json"), root, "fw_client", force=True, no_postprocess=True
        )
        src = (root / "fw_client" / "endpoints" / "rules.py").read_text().splitlines()
        for line in src:
            if ("import" in line and "Protocol" in line) or line.startswith("class RulesClientProtocol"):
                print("  endpoints/rules.py |", line)
        (root / "check.py").write_text(CHECK)
        env = {**os.environ, "PYTHONPATH": str(root)}
        r = subprocess.run([sys.executable, str(root / "check.py")], cwd=root, env=env, text=True, capture_output=True)
        print(r.stdout, end="")
        if r.returncode not in (0, 1):
            print(r.stderr)
            return 1
        return r.returncode


def main() -> int:
    print("=== control: the enum schema is called 'NetProtocol' ===")
    control = run_case("NetProtocol")
    print("  ->", "ok" if control == 0 else "BROKEN")
    print("=== the enum schema is called 'Protocol' ===")
    rc = run_case("Protocol")
    print("  ->", "ok" if rc == 0 else "VIOLATION: the tag's client/Protocol module cannot be imported, only the mock exists")
    return 1 if (rc or control) else 0


if __name__ == "__main__":
    sys.exit(main())
