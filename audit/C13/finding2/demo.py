"""C13 finding 2: a streamed success response declared with the range key '2XX'.

The signature (and from it the Protocol stub and the mock) is derived from the ResponseStrategy, which accepts
'2XX' as the primary success response and makes the method `-> AsyncIterator[bytes]`.  The body of the real client
method is written by EndpointResponseHandlerGenerator.generate_response_handling, which only handles status keys
made of digits: no `yield` is ever written.  Result:

    Protocol : def download(...) -> AsyncIterator[bytes]            (contract of an async generator)
    mock     : async def ... + `yield`      -> async generator function
    client   : async def ... without yield -> coroutine function

Exit 1 = natures differ (violation), exit 0 = all three agree.
"""
import json
import os
import subprocess
import sys
import tempfile
import textwrap
from pathlib import Path

from pyopenapi_gen.generator.client_generator import ClientGenerator


def spec(status_key: str) -> dict:
    return {
        "openapi": "3.0.3",
        "info": {"title": "Files", "version": "1.0"},
        "paths": {
            "/files/{fileId}/content": {
                "get": {
                    "operationId": "downloadFile",
                    "summary": "Download the file content",
                    "tags": ["files"],
                    "parameters": [{"name": "fileId", "in": "path", "required": True, "schema": {"type": "string"}}],
                    "responses": {
                        status_key: {
                            "description": "The file",
                            "content": {"application/octet-stream": {"schema": {"type": "string", "format": "binary"}}},
                        },
                        "404": {"description": "No such file"},
                    },
                }
            }
        },
    }


CHECK = textwrap.dedent(
    r'''
    import asyncio, inspect, sys
    import httpx
    from files_client.endpoints.files import FilesClient, FilesClientProtocol
    from files_client.mocks.endpoints.mock_files import MockFilesClient

    def nature(fn):
        if inspect.isasyncgenfunction(fn): return "async generator function"
        if inspect.iscoroutinefunction(fn): return "coroutine function"
        return "plain def (stub)"

    c, p, m = (vars(k)["download_file"] for k in (FilesClient, FilesClientProtocol, MockFilesClient))
    for label, fn in (("client", c), ("protocol", p), ("mock", m)):
        print(f"  {label:8s} {nature(fn):26s} signature {inspect.signature(fn)}")

    class T:
        def __init__(self):
            self.c = httpx.AsyncClient(transport=httpx.MockTransport(lambda r: httpx.Response(200, content=b"abc")))
        async def request(self, method, url, **kw): return await self.c.request(method, url, **kw)

    async def use(obj):
        # the only usage the Protocol (`def ... -> AsyncIterator[bytes]`) allows
        chunks = []
        async for chunk in obj.download_file("42"):
            chunks.append(chunk)
        return chunks

    for label, obj in (("client", FilesClient(T(), "http://x")), ("mock", MockFilesClient())):
        try:
            print(f"  async for over {label}.download_file('42') ->", asyncio.run(use(obj)))
        except BaseException as e:  # noqa
            print(f"  async for over {label}.download_file('42') -> {type(e).__name__}: {e}")

    # Protocol stub is a plain def returning AsyncIterator => implementations must be async generator functions
    ok = inspect.isasyncgenfunction(c) and inspect.isasyncgenfunction(m) and not inspect.iscoroutinefunction(p)
    sys.exit(0 if ok else 1)
    '''
)


def run_case(status_key: str) -> int:
    with tempfile.TemporaryDirectory(prefix="audit_C13_demo2_") as tmp:
        root = Path(tmp)
        (root / "spec.json").write_text(json.dumps(spec(status_key)))
        ClientGenerator(verbose=False).generate(
            str(root / "spec.json"), root, "files_client", force=True, no_postprocess=True
        )
        body = (root / "files_client" / "endpoints" / "files.py").read_text()
        impl = body[body.index("class FilesClient(") :]
        print(f"  'yield' statements in FilesClient.download_file: {impl.count('yield ')}")
        (root / "check.py").write_text(CHECK)
        env = {**os.environ, "PYTHONPATH": str(root)}
        r = subprocess.run([sys.executable, "-W", "ignore", str(root / "check.py")], cwd=root, env=env, text=True,
                           capture_output=True)
        print(r.stdout, end="")
        if r.returncode not in (0, 1):
            print(r.stderr)
            return 1
        return r.returncode


def main() -> int:
    print("=== control: response key '200' ===")
    control = run_case("200")
    print("  ->", "consistent" if control == 0 else "INCONSISTENT")
    print("=== response key '2XX' (OpenAPI 3 status code range) ===")
    rc = run_case("2XX")
    print("  ->", "consistent" if rc == 0 else "VIOLATION: client is a coroutine function, mock an async generator")
    return 1 if (rc or control) else 0


if __name__ == "__main__":
    sys.exit(main())
