"""C11 finding 1: regenerating one client deletes another client (or the core another client uses).

History A (client nested below the client that hosts the shared core):
    1. generate   shop        (core defaults to shop.core, exactly what the CLI does)
    2. generate   shop.admin  --core-package shop.core      (second API of the same product, shares the core)
    3. regenerate shop        --force                        (same command as step 1 plus --force)
  -> step 3 removes the whole directory shop/ (shutil.rmtree) and with it the client shop.admin,
     although the exception registry it just preserved still lists "shop.admin" as a user of the core.

History B (same clean-up, other victim: the embedded core that another client still imports):
    1. generate   billing                                     (embedded core billing.core)
    2. generate   shipping    --core-package billing.core     (re-uses the embedded core)
    3. regenerate billing     --core-package common.core --force   (billing moves to a neutral core)
  -> billing/core is deleted, shipping no longer imports.

Exit code 1 = violation present, 0 = property holds.
"""

import json
import logging
import subprocess
import sys
import tempfile
from pathlib import Path

logging.disable(logging.CRITICAL)

from pyopenapi_gen import generate_client  # noqa: E402


def spec(title: str, codes: list[int]) -> dict:
    responses: dict = {
        "200": {
            "description": "ok",
            "content": {"application/json": {"schema": {"type": "object", "properties": {"id": {"type": "string"}}}}},
        }
    }
    for code in codes:
        responses[str(code)] = {"description": "error"}
    return {
        "openapi": "3.0.3",
        "info": {"title": title, "version": "1.0.0"},
        "paths": {"/items": {"get": {"operationId": "list_items", "tags": ["items"], "responses": responses}}},
    }


def gen(root: Path, name: str, doc: dict, output_package: str, core_package: str) -> None:
    spec_file = root / f"{name}.json"
    spec_file.write_text(json.dumps(doc))
    generate_client(
        spec_path=str(spec_file),
        project_root=str(root),
        output_package=output_package,
        core_package=core_package,
        force=True,
        no_postprocess=True,
        verbose=False,
    )


IMPORT_CHECK = """
import importlib, sys
sys.path.insert(0, sys.argv[1])
for mod in (sys.argv[2] + ".client", sys.argv[2] + ".endpoints.items"):
    importlib.import_module(mod)
print("ok")
"""


def imports(root: Path, package: str) -> tuple[bool, str]:
    r = subprocess.run([sys.executable, "-c", IMPORT_CHECK, str(root), package], capture_output=True, text=True)
    last = (r.stdout.strip() or r.stderr.strip().splitlines()[-1]) if (r.stdout.strip() or r.stderr.strip()) else ""
    return r.returncode == 0, last


def report(root: Path, label: str, packages: list[str]) -> list[str]:
    broken = []
    print(f"  [{label}]")
    for pkg in packages:
        ok, msg = imports(root, pkg)
        print(f"     import {pkg:<12} -> {'OK' if ok else 'FAILS: ' + msg}")
        if not ok:
            broken.append(pkg)
    return broken


def history_a() -> list[str]:
    print("History A: shop (hosts shop.core) + shop.admin (shares shop.core); then shop is regenerated")
    with tempfile.TemporaryDirectory(prefix="audit_C11_f1a_") as tmp:
        root = Path(tmp)
        gen(root, "shop", spec("Shop API", [404, 409]), "shop", "shop.core")
        report(root, "after generating shop", ["shop"])
        gen(root, "admin", spec("Shop Admin API", [401, 503]), "shop.admin", "shop.core")
        report(root, "after generating shop.admin", ["shop", "shop.admin"])
        gen(root, "shop", spec("Shop API", [404, 409]), "shop", "shop.core")
        broken = report(root, "after REgenerating shop (force)", ["shop", "shop.admin"])
        print(f"     directory shop/admin exists: {(root / 'shop' / 'admin').exists()}")
        registry = json.loads((root / "shop" / "core" / ".exception_registry.json").read_text())
        print(f"     shop/core/.exception_registry.json still names the clients: {sorted(registry)}")
        return broken


def history_b() -> list[str]:
    print("History B: billing (hosts billing.core) + shipping (shares billing.core); then billing moves to common.core")
    with tempfile.TemporaryDirectory(prefix="audit_C11_f1b_") as tmp:
        root = Path(tmp)
        gen(root, "billing", spec("Billing API", [404, 409]), "billing", "billing.core")
        gen(root, "shipping", spec("Shipping API", [401, 503]), "shipping", "billing.core")
        report(root, "after generating billing and shipping", ["billing", "shipping"])
        gen(root, "billing", spec("Billing API", [404, 409]), "billing", "common.core")
        broken = report(root, "after REgenerating billing with --core-package common.core", ["billing", "shipping"])
        print(f"     directory billing/core exists: {(root / 'billing' / 'core').exists()}")
        return broken


def main() -> int:
    broken_a = history_a()
    print()
    broken_b = history_b()
    print()
    if broken_a or broken_b:
        print(f"VIOLATION: clients that stopped importing after another client was regenerated: {broken_a + broken_b}")
        return 1
    print("OK: every client generated so far still imports")
    return 0


if __name__ == "__main__":
    sys.exit(main())
