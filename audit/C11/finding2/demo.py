"""C11 finding 2: a core package that IS the package of the first client ("flat" layout, --core-package == --output-package).

    1. generate   billing   --core-package billing     (runtime modules live directly in billing/, no billing/core/)
    2. generate   shipping  --core-package billing     (shares that core)
    3. regenerate billing   --core-package billing --force

Every generation of `billing` first lets the CoreEmitter write billing/__init__.py (the core's __init__ with
`from .exception_aliases import *`, which is where endpoints take NotFoundError & co. from) and then overwrites
that same file with the "rich client __init__". So after step 1 billing cannot import its own endpoints, step 2
repairs the file (CoreEmitter runs last for that path), and step 3 breaks BOTH clients again: regenerating
billing removes the names shipping imports from the core (`from billing import UnauthorisedError`).

Exit code 1 = violation present, 0 = property holds.
"""

import json
import logging
import subprocess
import sys
import tempfile
from pathlib import Path

logging.disable(logging.CRITICAL)

from pyopenapi_gen import generate_client  # noqa: E402


def spec(title: str, codes: list[int]) -> dict:
    responses: dict = {
        "200": {
            "description": "ok",
            "content": {"application/json": {"schema": {"type": "object", "properties": {"id": {"type": "string"}}}}},
        }
    }
    for code in codes:
        responses[str(code)] = {"description": "error"}
    return {
        "openapi": "3.0.3",
        "info": {"title": title, "version": "1.0.0"},
        "paths": {"/items": {"get": {"operationId": "list_items", "tags": ["items"], "responses": responses}}},
    }


def gen(root: Path, name: str, doc: dict, output_package: str, core_package: str) -> None:
    spec_file = root / f"{name}.json"
    spec_file.write_text(json.dumps(doc))
    generate_client(
        spec_path=str(spec_file),
        project_root=str(root),
        output_package=output_package,
        core_package=core_package,
        force=True,
        no_postprocess=True,
        verbose=False,
    )


IMPORT_CHECK = """
import importlib, sys
sys.path.insert(0, sys.argv[1])
for mod in (sys.argv[2] + ".client", sys.argv[2] + ".endpoints.items"):
    importlib.import_module(mod)
print("ok")
"""


def imports(root: Path, package: str) -> tuple[bool, str]:
    r = subprocess.run([sys.executable, "-c", IMPORT_CHECK, str(root), package], capture_output=True, text=True)
    text = r.stdout.strip() or r.stderr.strip()
    return r.returncode == 0, (text.splitlines()[-1] if text else "")


def report(root: Path, label: str, packages: list[str]) -> list[str]:
    broken = []
    print(f"  [{label}]")
    for pkg in packages:
        ok, msg = imports(root, pkg)
        print(f"     import {pkg:<9} -> {'OK' if ok else 'FAILS: ' + msg}")
        if not ok:
            broken.append(f"{pkg} ({label})")
    first_line = (root / "billing" / "__init__.py").read_text().splitlines()[0]
    print(f"     billing/__init__.py starts with: {first_line[:70]!r}")
    return broken


def main() -> int:
    broken: list[str] = []
    with tempfile.TemporaryDirectory(prefix="audit_C11_f2_") as tmp:
        root = Path(tmp)
        gen(root, "billing", spec("Billing API", [404, 409]), "billing", "billing")
        broken += report(root, "1. after generating billing (core = billing)", ["billing"])
        gen(root, "shipping", spec("Shipping API", [401, 503]), "shipping", "billing")
        broken += report(root, "2. after generating shipping (core = billing)", ["billing", "shipping"])
        gen(root, "billing", spec("Billing API", [404, 409]), "billing", "billing")
        broken += report(root, "3. after REgenerating billing", ["billing", "shipping"])
        aliases = (root / "billing" / "exception_aliases.py").read_text()
        print(
            "     billing/exception_aliases.py still defines the classes of both clients:",
            all(n in aliases for n in ("NotFoundError", "ConflictError", "UnauthorisedError", "ServiceUnavailableError")),
        )
    print()
    if broken:
        print("VIOLATION: clients that do not import:")
        for b in broken:
            print("   -", b)
        return 1
    print("OK: every client generated so far still imports")
    return 0


if __name__ == "__main__":
    sys.exit(main())
