P = "core/loader/operations/parser.py"
E_ = "emitters/endpoints_emitter.py"
C = "visit/client_visitor.py"
MUTANTS = [
    dict(name="operations-skipped-again", file=P, expect="R7.1",
         old='                raise ValueError(f"Cannot parse operation {str(method).upper()} {path}: {e}") from e\n', new='                logger.warning(f"Skipping operation {path}: {e}")\n                continue\n'),
    dict(name="response-parser-swallows", file="core/loader/responses/parser.py", expect="R7.1",
         old='    for mt, mn in node.get("content", {}).items():', new='    try:\n        _ = node["description"]\n    except KeyError:\n        pass\n    for mt, mn in node.get("content", {}).items():'),
    dict(name="status-key-raw-again", file=P, expect="R7.2",
         old="parse_response(str(sc), resp_node_resolved, context, operation_id_for_promo=operation_id)", new="parse_response(sc, resp_node_resolved, context, operation_id_for_promo=operation_id)"),
    dict(name="dedup-after-grouping", file=E_, expect="R7.3",
         old="        self._deduplicate_operation_ids_globally(operations)\n\n        tag_key_to_ops", new="        tag_key_to_ops"),
    dict(name="client-visitor-other-key-fn", file=C, expect="R7.4",
         old="                key = NameSanitizer.normalize_tag_key(tag)\n                if key not in tag_candidates:", new="                key = NameSanitizer.sanitize_tag_attr_name(tag)\n                if key not in tag_candidates:"),
    dict(name="client-visitor-first-tag-only", file=C, expect="R7.4",
         old='            tags = op.tags or ["default"]  # Use literal "default" here', new='            tags = (op.tags or ["default"])[:1]  # Use literal "default" here'),
    dict(name="emitter-score-differs", file=E_, expect="R7.4",
         old="            return (is_pascal, word_count, upper, t)\n\n        tag_map: dict[str, str] = {}", new="            return (word_count, is_pascal, upper, t)\n\n        tag_map: dict[str, str] = {}"),
    dict(name="emitter-module-name-other-sanitizer", file=E_, expect="R7.4",
         old="            module_name = NameSanitizer.sanitize_module_name(canonical_tag_name)", new="            module_name = NameSanitizer.sanitize_tag_attr_name(canonical_tag_name)"),
    dict(name="emitter-skips-single-op-tags", file=E_, expect="R7.5",
         old="            canonical_tag_name = tag_map[key]\n            module_name =", new="            canonical_tag_name = tag_map[key]\n            if key.startswith(\"internal\"):\n                continue\n            module_name ="),
    dict(name="emitter-filters-deprecated-ops", file=E_, expect="R7.5",
         old="            methods = [self.visitor.visit(op, self.context) for op in ops_for_tag]", new="            methods = [self.visitor.visit(op, self.context) for op in ops_for_tag if op.summary != \"deprecated\"]"),
    dict(name="naming-strategy-compared-by-identity", file="core/loader/operations/parser.py", expect="R7.6",
         old="naming_strategy == NamingStrategy.PATH", new="naming_strategy is NamingStrategy.PATH"),
    dict(name="tag-key-keeps-punctuation", file="core/utils.py", expect="R7.7",
         old='return re.sub(r"[^0-9a-zA-Z]+", "", tag).lower()', new='return re.sub(r"[\\s_-]+", "", tag).lower()'),
    dict(name="tag-key-unicode-word-class", file="core/utils.py", expect="R7.7",
         old='return re.sub(r"[^0-9a-zA-Z]+", "", tag).lower()', new='return re.sub(r"[\\W_]+", "", tag).lower()'),
]
MUTANTS.append(dict(name="method-filter-swagger2-verbs-only", file='core/loader/operations/parser.py', expect="R7.8", old='                mu = method.upper()\n                if mu not in HTTPMethod.__members__:\n                    continue\n', new='                mu = method.upper()\n                if mu not in ("GET", "PUT", "POST", "DELETE", "OPTIONS", "HEAD", "PATCH"):\n                    continue\n'))
MUTANTS.append(dict(name="clean-strategy-path-suffix-not-lowercased", file='core/utils.py', expect="R7.9", old='        normalized_path = re.sub(r"_+", "_", normalized_path).strip("_").lower()\n', new='        normalized_path = re.sub(r"_+", "_", normalized_path).strip("_")\n'))
MUTANTS.append(dict(name='rendered-method-cached-by-operation-id', file='visit/endpoint/endpoint_visitor.py', expect='R7.10', old='        method_generator = EndpointMethodGenerator(schemas=self.schemas)\n        return method_generator.generate(op, context)\n', new='        if not hasattr(self, "_rendered"):\n            self._rendered = {}\n        if op.operation_id not in self._rendered:\n            method_generator = EndpointMethodGenerator(schemas=self.schemas)\n            self._rendered[op.operation_id] = method_generator.generate(op, context)\n        return self._rendered[op.operation_id]\n'))
MUTANTS.append(dict(name='method-name-keeps-unicode-word-chars', file='core/utils.py', expect='R7.11', old='        name = re.sub(r"[^0-9a-zA-Z_]", "_", name)\n', new='        name = re.sub(r"[^\\w]", "_", name)\n'))
MUTANTS.append(dict(name='paths-without-leading-slash-filtered', file='core/loader/loader.py', expect='R7.12', old='        self.paths = spec["paths"]\n', new='        # The Paths Object may carry specification extensions (`x-...`) next to the path templates;\n        # only the templates ("/...") describe operations\n        self.paths = spec["paths"]\n        if isinstance(self.paths, Mapping):\n            self.paths = {p: item for p, item in self.paths.items() if isinstance(p, str) and p.startswith("/")}\n'))
MUTANTS.append(dict(name='method-blocks-deduplicated-by-first-line', file='visit/endpoint/endpoint_visitor.py', expect='R7.13', old='        # Write methods\n', new='        # Write methods. An operation that lists two spellings of one tag ("Pets", "pets") is grouped twice and\n        # arrives here twice: keep one block per method header (method names are unique within a client)\n        method_codes = list({code.split("\\n", 1)[0]: code for code in method_codes}.values())\n'))
MUTANTS.append(dict(name='client-member-name-no-longer-reserved', file='core/utils.py', expect='R7.14', old='        "request",\n        "close",\n', new='        "close",\n'))
