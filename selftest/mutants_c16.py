CV = "core/cattrs_converter.py"
U = "core/utils.py"
MUTANTS = [
    dict(name="generic-failures-not-converted", file=CV, expect="R16.1",
         old='    except Exception as e:\n        # Fallback for other errors\n        type_name = getattr(cls, "__name__", str(cls))\n        raise ValueError(f"Failed to convert data to {type_name}: {e}") from e',
         new='    except TypeError as e:\n        # Fallback for other errors\n        type_name = getattr(cls, "__name__", str(cls))\n        raise ValueError(f"Failed to convert data to {type_name}: {e}") from e'),
    dict(name="bytes-urlsafe-encode", file=CV, expect="R16.5",
         old='    return base64.b64encode(data).decode("utf-8")', new='    return base64.urlsafe_b64encode(data).decode("utf-8")'),
    dict(name="visited-not-undone", file=U, expect="R16.2",
         old="                return [DataclassSerializer._serialize_with_tracking(item, visited) for item in obj]\n            finally:\n                visited.remove(obj_id)",
         new="                return [DataclassSerializer._serialize_with_tracking(item, visited) for item in obj]\n            finally:\n                pass"),
    dict(name="list-branch-wrong-helper", file=U, expect="R16.4",
         old="            return [DataclassSerializer._ensure_all_dicts(item, visited) for item in obj]", new="            return DataclassSerializer._serialize_with_tracking(obj, visited)"),
    dict(name="dataclass-result-not-stripped", file=U, expect="R16.3",
         old="                return DataclassSerializer._remove_none_values(result)\n            finally:", new="                return result\n            finally:"),
    dict(name="cycle-check-after-descent", file=U, expect="R16.2",
         old="        obj_id = id(obj)\n        if obj_id in visited:\n            # Return None for circular refs (JSON-safe, avoids infinite recursion)\n            return None\n",
         new="        obj_id = id(obj)\n"),
    dict(name="raw-dict-fallback-for-any-str-keyed-dict", file="core/cattrs_converter.py", expect="R16.8",
         old="            if dict_args == (str, Any):", new="            if dict_args and (dict_args[0] is str or dict_args[1] is Any):"),
]
MUTANTS.append(dict(name="unstructure-fn-memoised-on-class-inherited-lookup", file="core/cattrs_converter.py", expect="R16.9",
    old='                return _make_dataclass_unstructure_fn(captured_cls)(obj)\n', new='                fn = getattr(captured_cls, "_cattrs_unstructure_fn", None)\n                if fn is None:\n                    fn = _make_dataclass_unstructure_fn(captured_cls)\n                    setattr(captured_cls, "_cattrs_unstructure_fn", fn)\n                return fn(obj)\n'))
MUTANTS.append(dict(name="none-stripping-fast-path-skips-descent", file='core/utils.py', expect="R16.10", old='            return {k: DataclassSerializer._remove_none_values(v) for k, v in obj.items() if v is not None}\n', new='            if all(v is not None for v in obj.values()):\n                return obj\n            return {k: DataclassSerializer._remove_none_values(v) for k, v in obj.items() if v is not None}\n'))
MUTANTS.append(dict(name="decode-side-derives-camel-key", file="core/cattrs_converter.py", expect='R16.11', old='            json_key = python_name  # Default: no transformation\n', new='            json_key = snake_to_camel(python_name)  # Default\n', count=2, also="first-only"))
