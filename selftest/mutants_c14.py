CV = "core/cattrs_converter.py"
MUTANTS = [
    dict(name="null-discriminator-as-absent", file=CV, expect="R14.1",
         old="                if isinstance(data, dict) and metadata.property_name in data:", new="                if isinstance(data, dict) and data.get(metadata.property_name) is not None:"),
    dict(name="mapped-failure-retried", file=CV, expect="R14.1",
         old='                            raise ValueError(\n                                f"Failed to deserialize as {variant.__name__} "\n                                f"(discriminator {metadata.property_name}={discriminator_value!r}): {e}"\n                            ) from e\n',
         new='                            pass  # fall back to trying every variant\n'),
    dict(name="unmapped-value-guessed", file=CV, expect="R14.1",
         old='                        raise ValueError(\n                            f"Unknown discriminator value {discriminator_value!r} "', new='                        logger_unused = (\n                            f"Unknown discriminator value {discriminator_value!r} "'),
    dict(name="one-of-sorted-variants", file="types/resolvers/schema_resolver.py", expect="R14.3",
         old="dict.fromkeys(", new="sorted(", count=2),
    dict(name="alias-metadata-needs-closing-bracket", file="core/writers/python_construct_renderer.py", expect="R14.4",
         old='        if discriminator and target_type.startswith("Union["):', new='        if discriminator and target_type.startswith("Union[") and target_type.endswith("]"):'),
]
