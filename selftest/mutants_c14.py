CV = "core/cattrs_converter.py"
MUTANTS = [
    dict(name="null-discriminator-as-absent", file=CV, expect="R14.1",
         old="                if isinstance(data, dict) and metadata.property_name in data:", new="                if isinstance(data, dict) and data.get(metadata.property_name) is not None:"),
    dict(name="mapped-failure-retried", file=CV, expect="R14.1",
         old='                            raise ValueError(\n                                f"Failed to deserialize as {variant.__name__} "\n                                f"(discriminator {metadata.property_name}={discriminator_value!r}): {e}"\n                            ) from e\n',
         new='                            pass  # fall back to trying every variant\n'),
    dict(name="unmapped-value-guessed", file=CV, expect="R14.1",
         old='                        raise ValueError(\n                            f"Unknown discriminator value {discriminator_value!r} "', new='                        logger_unused = (\n                            f"Unknown discriminator value {discriminator_value!r} "'),
    dict(name="one-of-sorted-variants", file="types/resolvers/schema_resolver.py", expect="R14.3",
         old="dict.fromkeys(", new="sorted(", count=2),
    dict(name="alias-metadata-needs-closing-bracket", file="core/writers/python_construct_renderer.py", expect="R14.4",
         old='        if discriminator and target_type.startswith("Union["):', new='        if discriminator and target_type.startswith("Union[") and target_type.endswith("]"):'),
    dict(name="mapping-rekeyed-by-schema", file="core/writers/python_construct_renderer.py", expect="R14.5",
         old="                for disc_value, schema_ref in discriminator.mapping.items():\n                    schema_name = schema_ref.split(\"/\")[-1]\n                    writer.write_line(f\"            {json.dumps(disc_value, ensure_ascii=False)}: {schema_name},\")",
         new="                for schema_name, disc_value in {r.split(\"/\")[-1]: v for v, r in discriminator.mapping.items()}.items():\n                    writer.write_line(f\"            {json.dumps(disc_value, ensure_ascii=False)}: {schema_name},\")"),
]
MUTANTS.append(dict(name="union-member-order-memoised-per-type", file="core/cattrs_converter.py", expect="R14.6",
    old='def _structure_union(data: Any, union_type: type) -> Any:\n', new='from functools import lru_cache as _lru\n\n\n@_lru(maxsize=None)\ndef _ordered_members(union_type: Any) -> tuple:\n    return tuple(a for a in get_args(union_type) if a is not type(None))\n\n\ndef _structure_union(data: Any, union_type: type) -> Any:\n'))
MUTANTS.append(dict(name="array-items-expanded-unless-object", file='types/resolvers/schema_resolver.py', expect="R14.7", old='            and getattr(items_schema, "type", None) in ("string", "integer", "number", "boolean")\n', new='            and getattr(items_schema, "type", None) != "object"\n'))
MUTANTS.append(dict(name="mapping-fallback-folded-into-elif-chain", file='core/parsing/transformers/discriminator_enum_collector.py', expect="R14.8", old='            if not resolved_enum_values and variant_schema.name in discriminator_value_by_variant:\n', new='            elif variant_schema.name in discriminator_value_by_variant:\n'))
MUTANTS.append(dict(name='union-variants-tried-in-reverse', file='core/cattrs_converter.py', expect='R14.9', old='        for variant in dataclass_variants:\n', new='        for variant in reversed(dataclass_variants):\n'))
MUTANTS.append(dict(name='mapping-keeps-ref-values-only', file='core/parsing/schema_parser.py', expect='R14.10', old='                mapping = dict(disc_node["mapping"])\n', new='                mapping = {k: v for k, v in disc_node["mapping"].items() if v.startswith("#/")}\n'))
MUTANTS.append(dict(name='union-type-rebound-before-metadata-lookup', file='core/cattrs_converter.py', expect='R14.11', old='                # First arg is the actual Union, rest are metadata\n                actual_union = annotated_args[0]\n                args = get_args(actual_union)\n', new='                # First arg is the actual Union, rest are metadata (keep the bare Union for error messages)\n                union_type = annotated_args[0]\n                args = get_args(union_type)\n'))
MUTANTS.append(dict(name='annotated-union-member-unwrapped', file='core/cattrs_converter.py', expect='R14.11', old='\n    for arg in args:\n', new='\n    for arg in args:\n        if get_origin(arg) is Annotated:\n            # A member written as Annotated[T, ...] is classified (dataclass / dict / other) by T itself\n            arg = get_args(arg)[0]\n'))
MUTANTS.append(dict(name='required-of-propertyless-allof-member-ignored', file='core/parsing/keywords/all_of_parser.py', expect='R14.12', old='        if sub_schema_ir.required:\n            merged_required.update(sub_schema_ir.required)\n', new='            if sub_schema_ir.required:\n                merged_required.update(sub_schema_ir.required)\n'))
MUTANTS.append(dict(name='required-nullable-field-gets-default', file='visit/model/dataclass_generator.py', expect='R14.12', old='                if not is_required:\n', new='                if not is_required or prop_schema.is_nullable:\n'))
