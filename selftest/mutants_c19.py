P = "core/loader/operations/parser.py"
MUTANTS = [
    dict(name="status-key-raw-again", file=P, expect="R19.1",
         old="parse_response(str(sc), resp_node_resolved, context, operation_id_for_promo=operation_id)", new="parse_response(sc, resp_node_resolved, context, operation_id_for_promo=operation_id)"),
    dict(name="content-type-key-type-test", file="core/loader/responses/parser.py", expect="R19.1",
         old='    for mt, mn in node.get("content", {}).items():\n', new='    for mt, mn in node.get("content", {}).items():\n        if not isinstance(mt, str):\n            continue\n'),
    dict(name="path-level-params-no-promo-context", file=P, expect="R19.2",
         old="                        parse_parameter(resolved_p_node_data, context, operation_id_for_promo=operation_id)", new="                        parse_parameter(resolved_p_node_data, context)"),
    dict(name="strategy-selector-first-of-set", file="types/strategies/response_strategy.py", expect="R19.3",
         old='        for code in ["200", "201", "202", "204"]:\n            for response in operation.responses:\n                if response.status_code == code:\n                    return response\n',
         new='        for response in operation.responses:\n            if response.status_code in ["200", "201", "202", "204"]:\n                return response\n'),
    dict(name="yaml-full-load", file="core/spec_fetcher.py", expect="R19.4", old="yaml.safe_load(", new="yaml.full_load("),
    dict(name="items-recursion-drops-self-reference-flag", file="core/parsing/schema_parser.py", expect="R19.5",
         old="                item_schema_context_name_for_reparse, raw_items_node, context, max_depth_override, allow_self_reference\n", new="                item_schema_context_name_for_reparse, raw_items_node, context, max_depth_override\n"),
    dict(name="json-selected-by-first-character", file="core/spec_fetcher.py", expect="R19.4",
         old='    if "json" in content_type.lower():', new='    if "json" in content_type.lower() or content.lstrip().startswith("{"):'),
]
MUTANTS.append(dict(name="responses-iterated-in-sorted-raw-key-order", file='core/loader/operations/parser.py', expect="R19.1", old='for sc, rn_node in cast(Mapping[str, Any], node_op.get("responses", {})).items():',
    new='for sc, rn_node in sorted(cast(Mapping[str, Any], node_op.get("responses", {})).items()):'))
MUTANTS.append(dict(name="nullable-flag-not-reset-per-property", file='core/parsing/schema_parser.py', expect="R19.6", old='                if should_create_reference:\n                    prop_is_nullable = False\n', new='                if should_create_reference:\n',
    also=("    parsed_props: dict[str, IRSchema] = existing_properties.copy()\n", "    parsed_props: dict[str, IRSchema] = existing_properties.copy()\n    prop_is_nullable = False\n")))
MUTANTS.append(dict(name='response-conversion-cached-per-node', file='core/loader/responses/parser.py', expect='R19.7', old='    content: dict[str, IRSchema] = {}\n', new='    cached = context.parsed_responses.get((id(node), code))\n    if cached is not None:\n        return cached\n    content: dict[str, IRSchema] = {}\n', also=('    return response\n', '    context.parsed_responses[(id(node), code)] = response\n    return response\n')))
MUTANTS.append(dict(name="declared-schema-parsed-again-despite-index", file='core/loader/schemas/extractor.py', expect="R19.8", old="        if n not in context.parsed_schemas and n not in context.registered_keys_by_raw_name:\n", new="        if n not in context.parsed_schemas:\n"))
